//! C02 — HLL sketch holds exactly the per-slot maximum of every item it was fed.

use crate::common::{Ctx, Tier};
use crate::engine::{self, Step};
use crate::hllm::{self, Trio, coupon};
use rayon::prelude::*;
use serde_json::{Value, json};
use std::collections::BTreeMap;
use std::sync::Mutex;

/// Called in every visited state (C11/C12/C18 observers attach here).
pub type Observer = dyn Fn(&Ctx, &Trio, &dyn Fn() -> Value) + Sync;
pub fn no_observer(_: &Ctx, _: &Trio, _: &dyn Fn() -> Value) {}

fn fill(lg_k: u8, v: u8, except: Option<u32>) -> Vec<u32> {
    (0..(1u32 << lg_k)).filter(|s| Some(*s) != except).map(|s| coupon(s, v)).collect()
}

struct Scope {
    name: &'static str,
    lg_k: u8,
    alphabet: Vec<u32>,
    starts: Vec<(&'static str, Vec<u32>)>,
    depth: usize,
}

fn scopes(tier: Tier) -> Vec<Scope> {
    let mut v = vec![];
    // lg_k = 4: register-array life with cur_min shifts and aux exceptions
    let a4 = vec![
        coupon(5, 1), coupon(5, 2), coupon(5, 16), coupon(5, 17), coupon(21, 1),
        coupon(0, 15), coupon(0, 16), coupon(0, 17), coupon(0, 63),
        coupon(1, 14), coupon(1, 31), coupon(1, 32), coupon(2, 2), coupon(16, 3),
    ];
    let mut s2 = fill(4, 1, Some(5));
    s2.extend([coupon(0, 16), coupon(1, 20), coupon(2, 15)]);
    let mut s3 = fill(4, 3, Some(5));
    s3.push(coupon(5, 2));
    let mut s4 = fill(4, 1, None);
    s4.extend([coupon(3, 16), coupon(4, 16), coupon(6, 16), coupon(7, 16)]);
    let mut s5 = fill(4, 14, Some(5));
    s5.push(coupon(5, 13));
    let mut s6 = fill(4, 40, Some(5)); // everything an exception at cur_min 0
    s6.push(coupon(5, 30));
    v.push(Scope {
        name: "lgk4-array",
        lg_k: 4,
        alphabet: a4.clone(),
        starts: vec![
            ("empty", vec![]),
            ("15 registers at 1, slot 5 empty", fill(4, 1, Some(5))),
            ("as before + aux entries (0,16)(1,20)(2,15)", s2),
            ("cur_min=2 with one register at cur_min", s3),
            ("cur_min=1 with 4 aux entries (aux map grown)", s4),
            ("cur_min=13, one register at cur_min", s5),
            ("all registers >= 30 (every slot an exception until cur_min moves)", s6),
        ],
        depth: tier.pick(14, 14),
    });
    // lg_k = 7: list -> array directly
    let a7 = vec![
        coupon(5, 1), coupon(133, 2), coupon(5, 16), coupon(5, 17), coupon(0, 15), coupon(0, 63),
        coupon(127, 1), coupon(127, 31), coupon(255, 32), coupon(64, 1), coupon(65, 1), coupon(66, 14),
    ];
    let seven: Vec<u32> = (10..17).map(|s| coupon(s, 1)).collect();
    v.push(Scope {
        name: "lgk7-list-to-array",
        lg_k: 7,
        alphabet: a7,
        starts: vec![("empty", vec![]), ("7 coupons in the list", seven)],
        depth: tier.pick(9, 12),
    });
    // lg_k = 8, 9: set mode with colliding probes (same c & 31, same stride bits)
    for lg_k in [8u8, 9] {
        let mut a = vec![];
        for slot in [3u32, 35, 67, 3 + 32 * 64] {
            for val in [1u8, 2, 5] {
                a.push(coupon(slot, val));
            }
        }
        let other = |n: u32| -> Vec<u32> { (0..n).map(|i| coupon(4 + 32 * (i / 8) + (i % 8) * 2 + 1000 * 32, 1 + (i % 3) as u8)).collect() };
        // distinct coupons with low bits != 3
        let mk = |n: u32| -> Vec<u32> {
            let mut out = vec![];
            let mut s = 0u32;
            while out.len() < n as usize {
                if s & 31 != 3 {
                    out.push(coupon(s * 7 + 1, 1 + (s % 5) as u8));
                }
                s += 1;
            }
            let _ = other;
            out.into_iter().filter(|c| hllm::c_slot(*c) & 31 != 3).collect::<Vec<_>>()
        };
        let mut starts: Vec<(&'static str, Vec<u32>)> = vec![("empty", vec![]), ("7 coupons (list full at the next)", mk(7))];
        if lg_k == 8 {
            starts.push(("24 coupons (set -> array at the 25th)", mk(24)));
            starts.push(("20 coupons in the set", mk(20)));
        } else {
            starts.push(("24 coupons (set grows at the 25th)", mk(24)));
            starts.push(("48 coupons (set -> array at the 49th)", mk(48)));
            starts.push(("44 coupons in the grown set", mk(44)));
        }
        v.push(Scope { name: if lg_k == 8 { "lgk8-set" } else { "lgk9-set" }, lg_k, alphabet: a, starts, depth: tier.pick(12, 12) });
    }
    v
}

fn run_scope(ctx: &Ctx, sc: &Scope, obs: &Observer) {
    let edges = Mutex::new(BTreeMap::new());
    for (sname, start) in &sc.starts {
        let t0 = Trio::from_coupons(sc.lg_k, start);
        // the start state itself must satisfy the oracle
        hllm::report(ctx, t0.check_full(), sc.lg_k, start, &[]);
        let alphabet = &sc.alphabet;
        let stats = engine::bfs(
            vec![(t0, vec![])],
            alphabet,
            sc.depth,
            2_000_000,
            |t: &Trio, &c: &u32, path: &[u16]| {
                if t.r.coupons.contains(&c) && path.len() + 1 < sc.depth {
                    // a duplicate is explored as a transition but leads to the same key
                }
                let mut n = t.clone();
                let mut e = BTreeMap::new();
                let vs = n.offer(c, &mut e);
                {
                    let mut g = edges.lock().unwrap();
                    for (k, v) in e {
                        *g.entry(k).or_insert(0) += v;
                    }
                }
                let ops: Vec<u32> = path.iter().map(|&i| alphabet[i as usize]).chain([c]).collect();
                if !vs.is_empty() {
                    if hllm::report(ctx, vs, sc.lg_k, start, &ops) {
                        return Step::Stop;
                    }
                }
                Step::Next(n)
            },
            |t: &Trio| {
                // key: which alphabet coupons have been offered (the reference state)
                let mut m = 0u32;
                for (i, c) in alphabet.iter().enumerate() {
                    if t.r.coupons.contains(c) {
                        m |= 1 << i;
                    }
                }
                m
            },
            |t: &Trio| t.fingerprint(),
            |p0: &[u16], p1: &[u16]| {
                let o0: Vec<u32> = p0.iter().map(|&i| alphabet[i as usize]).collect();
                let o1: Vec<u32> = p1.iter().map(|&i| alphabet[i as usize]).collect();
                ctx.violation(
                    "hll.order_dependence",
                    &format!("lg_k={}: the same coupon set reached in two orders gives different register/coupon content", sc.lg_k),
                    json!({"kind":"hll_two_orders","lg_k":sc.lg_k,"start":start,"order_a":o0,"order_b":o1}),
                );
            },
            |t: &Trio, path: &[u16]| {
                obs(ctx, t, &|| hllm::replay_json(sc.lg_k, start, &path.iter().map(|&i| alphabet[i as usize]).collect::<Vec<u32>>()));
            },
        );
        ctx.add_states(stats.states);
        ctx.add_transitions(stats.transitions);
        ctx.count(&format!("E1 {} [{}] states", sc.name, sname), stats.states);
        ctx.count(&format!("E1 {} [{}] merged_arrivals_compared", sc.name, sname), stats.merged);
        ctx.count(&format!("E1 {} [{}] depth_completed", sc.name, sname), stats.depth_completed as u64);
        if let Some(d) = stats.cap_hit_at_depth {
            ctx.note(format!("E1 {} [{}]: state cap hit at depth {d}; complete to depth {}", sc.name, sname, stats.depth_completed));
        }
    }
    ctx.edges_merge(&edges.lock().unwrap());
}

/// All arrival orders without merging (stateless DFS), small depth.
fn run_orders(ctx: &Ctx, lg_k: u8, alphabet: &[u32], start: &[u32], depth: usize) {
    let t0 = Trio::from_coupons(lg_k, start);
    let (nodes, leaves) = engine::dfs_all(&t0, alphabet, depth, &|t: &Trio, &c: &u32, path: &[u16]| {
        let mut n = t.clone();
        let mut e = BTreeMap::new();
        let vs = n.offer(c, &mut e);
        if !vs.is_empty() {
            let ops: Vec<u32> = path.iter().map(|&i| alphabet[i as usize]).chain([c]).collect();
            if hllm::report(ctx, vs, lg_k, start, &ops) {
                return Step::Stop;
            }
        }
        Step::Next(n)
    });
    ctx.add_transitions(nodes);
    ctx.add_states(nodes);
    ctx.count(&format!("stateless all-orders DFS lg_k={lg_k} depth {depth}: sequences"), leaves);
}

// ------------------------------------------------------------------ E2 deep runs

pub fn default_runs(lg_k: u8, max_len: usize) -> Vec<(&'static str, Vec<u32>)> {
    let k = 1u32 << lg_k;
    let rounds = |n: usize| (max_len / k as usize).clamp(1, n);
    let mut out = vec![];
    let mut r1 = vec![];
    for v in 1..=rounds(20) as u8 {
        for s in 0..k {
            r1.push(coupon(s, v));
        }
    }
    out.push(("fill every slot with 1, then 2, ...", r1));
    let mut r2 = vec![coupon(0, 63), coupon(1, 40), coupon(2, 17), coupon(3, 15), coupon(k - 1, 33)];
    for v in 1..=rounds(8) as u8 {
        for s in (0..k).rev() {
            r2.push(coupon(s, v));
        }
    }
    out.push(("hot slots (63,40,17,15,33) first, then fill descending slots", r2));
    let mut r3 = vec![];
    let top = 17u8;
    for v in (top + 1 - rounds(4) as u8..=top).rev() {
        for s in 0..k {
            r3.push(coupon(s.wrapping_mul(5) & (k - 1) | ((s & 3) << 22), v));
        }
    }
    out.push(("descending values from 17 (every slot an exception first), permuted slots with high slot bits", r3));
    out
}

fn dev_alphabet(pos: usize, run: &[u32], t: &Trio) -> Vec<u32> {
    let k = 1u32 << t.lg_k;
    let cur_min = t.want.iter().copied().min().unwrap_or(0);
    let mut d = vec![];
    if pos > 0 {
        d.push(run[0]); // duplicate of the first coupon
        d.push(run[pos - 1]); // duplicate of the latest
    }
    let next_slot = if pos < run.len() { hllm::c_slot(run[pos]) & (k - 1) } else { 0 };
    for s in [next_slot, (next_slot + k / 2) & (k - 1)] {
        for dv in [0u8, 1, 14, 15, 16] {
            let v = cur_min.saturating_add(dv).clamp(1, 63);
            d.push(coupon(s, v));
        }
        d.push(coupon(s, 63));
        d.push(coupon(s, 32));
    }
    d.sort_unstable();
    d.dedup();
    d
}

fn run_deep(ctx: &Ctx, lg_k: u8, bound: usize, max_len: usize, stride1: usize, stride2: usize, full_every: usize, obs: &Observer) {
    for (rname, run) in default_runs(lg_k, max_len) {
        let init = Trio::new(lg_k);
        let edges = Mutex::new(BTreeMap::new());
        let stats = engine::deviations(
            &init,
            &run,
            bound,
            &|pos, _lvl, t: &Trio| dev_alphabet(pos, &run, t),
            &|pos, lvl| if lvl == 0 { pos % stride1 == 0 } else { pos % stride2 == 0 },
            &|t: &mut Trio, &c: &u32, trace: &[(usize, u32)], pos: usize| {
                let full = full_every == 1 || pos % full_every == 0 || pos + 1 >= run.len();
                let vs = if full {
                    let mut e = BTreeMap::new();
                    let vs = t.offer(c, &mut e);
                    let mut g = edges.lock().unwrap();
                    for (k, v) in e {
                        *g.entry(k).or_insert(0) += v;
                    }
                    vs
                } else {
                    t.offer_light(c)
                };
                // the executed op list: run[..pos] with the deviations inserted, then this op
                let mk_ops = || -> Vec<u32> {
                    let mut ops = vec![];
                    let mut ti = 0;
                    for (i, &r) in run.iter().enumerate().take(pos + 1) {
                        while ti < trace.len() && trace[ti].0 == i {
                            ops.push(trace[ti].1);
                            ti += 1;
                        }
                        if i < pos {
                            ops.push(r);
                        }
                    }
                    if ops.last() != Some(&c) {
                        ops.push(c);
                    }
                    ops
                };
                if !vs.is_empty() {
                    if hllm::report(ctx, vs, lg_k, &[], &mk_ops()) {
                        return false;
                    }
                }
                // observers (C11/C12/C18) see the default run and the states around each deviation
                if full && (trace.is_empty() || trace.last().map(|t| t.0) == Some(pos)) {
                    obs(ctx, t, &|| hllm::replay_json(lg_k, &[], &mk_ops()));
                }
                true
            },
        );
        ctx.add_states(stats.steps);
        ctx.add_transitions(stats.steps);
        ctx.count(&format!("E2 lg_k={lg_k} bound={bound} [{rname}] executions"), stats.executions);
        ctx.edges_merge(&edges.lock().unwrap());
    }
}

/// Exception-subset family (aux map growth and rehash): for every subset S of the slots with
/// |S| in 4..=max (so the 4-slot aux table doubles at least once), in ascending and descending
/// order, over a base of cur_min 0 or 1: give each slot of S an exception value, then raise
/// each of them again (the lookup must find every entry after every rehash), then shift
/// cur_min with the aux map live. Full oracle at the end of each run, light oracle per step.
fn run_exception_subsets(ctx: &Ctx, lg_k: u8, max: usize) {
    let k = 1u32 << lg_k;
    let firsts: Vec<u32> = (0..k).collect();
    let runs: u64 = firsts
        .par_iter()
        .map(|&first| {
            let mut n = 0u64;
            // subsets in lexicographic order with smallest element `first`
            let mut stack: Vec<Vec<u32>> = vec![vec![first]];
            while let Some(sub) = stack.pop() {
                if sub.len() < max {
                    for nx in (sub.last().unwrap() + 1)..k {
                        let mut s2 = sub.clone();
                        s2.push(nx);
                        stack.push(s2);
                    }
                }
                if sub.len() < 4 {
                    continue;
                }
                for desc in [false, true] {
                    for base in [0u8, 1] {
                        let order: Vec<u32> = if desc { sub.iter().rev().copied().collect() } else { sub.clone() };
                        let mut cs: Vec<u32> = vec![];
                        if base > 0 {
                            cs.extend((0..k).map(|s| coupon(s, base)));
                        }
                        cs.extend(order.iter().map(|&s| coupon(s, base + 17 + (s % 3) as u8)));
                        cs.extend(order.iter().map(|&s| coupon(s, base + 30 + (s % 2) as u8)));
                        // raise every register to base+1: the cur_min shift rebuilds the aux map
                        cs.extend((0..k).map(|s| coupon(s, base + 1)));
                        cs.extend(order.iter().map(|&s| coupon(s, 50)));
                        let mut t = Trio::new(lg_k);
                        let mut dead = false;
                        for (i, &c) in cs.iter().enumerate() {
                            let vs = t.offer_light(c);
                            if !vs.is_empty() {
                                hllm::report(ctx, vs, lg_k, &[], &cs[..=i]);
                                dead = true;
                                break;
                            }
                        }
                        if !dead {
                            let vs = t.check_full();
                            if !vs.is_empty() {
                                hllm::report(ctx, vs, lg_k, &[], &cs);
                            }
                        }
                        n += cs.len() as u64;
                    }
                }
            }
            n
        })
        .sum();
    ctx.add_states(runs);
    ctx.add_transitions(runs);
    ctx.count(&format!("exception-subset family lg_k={lg_k}: coupons offered (subsets of size 4..={max}, 2 orders, 2 bases)"), runs);
}

/// Large coupon sets (tables of 2^14 slots and more exist only for lg_k >= 17): fill the set to
/// just below the promotion with coupons that collide in their home slots, full oracle at
/// every table growth, then offer EVERY coupon again (each must be found where the growth
/// put it: nothing may change), then promote.
fn run_big_sets(ctx: &Ctx, lg_k: u8, obs: &Observer) {
    let n = 3 * (1u32 << (lg_k - 3)) / 4;
    let cs: Vec<u32> = (0..n).map(|i| coupon((i % 4096) | ((i / 4096) << 20) | ((i % 7) << 14), 1 + (i % 60) as u8)).collect();
    let mut t = Trio::new(lg_k);
    let mut offered = 0u64;
    let mut dead = false;
    for (i, &c) in cs.iter().enumerate() {
        let vs = t.offer_light(c);
        offered += 1;
        let at_growth = (i + 1).is_power_of_two() || (4 * (i + 1)) % 3 == 0 && ((4 * (i + 1)) / 3).is_power_of_two() || i + 1 == cs.len();
        let vs = if vs.is_empty() && at_growth { t.check_full() } else { vs };
        if !vs.is_empty() {
            hllm::report(ctx, vs, lg_k, &[], &cs[..=i]);
            dead = true;
            break;
        }
    }
    if !dead {
        // the largest set of this lg_k (table 2^(lg_k-3) slots) is a state of its own for the observers
        obs(ctx, &t, &|| hllm::replay_json(lg_k, &[], &cs));
        let before: Vec<_> = t.s.iter().map(hllm::obs_est).collect();
        for (i, &c) in cs.iter().enumerate() {
            let vs = t.offer_light(c);
            offered += 1;
            if !vs.is_empty() {
                let mut ops = cs.clone();
                ops.extend_from_slice(&cs[..=i]);
                hllm::report(ctx, vs, lg_k, &[], &ops);
                dead = true;
                break;
            }
        }
        if !dead {
            let mut vs = t.check_full();
            if t.s.iter().map(hllm::obs_est).collect::<Vec<_>>() != before {
                vs.push(("hll.duplicate_changes_state".into(), format!("lg_k={lg_k}: re-offering the {n} stored coupons of a set changed the estimates")));
            }
            // one more distinct coupon promotes to the array
            if vs.is_empty() {
                vs = t.offer_light(coupon(1 << 25, 5));
                offered += 1;
                if vs.is_empty() {
                    vs = t.check_full();
                }
            }
            if !vs.is_empty() {
                let mut ops = cs.clone();
                ops.extend_from_slice(&cs);
                hllm::report(ctx, vs, lg_k, &[], &ops);
            }
        }
    }
    ctx.add_states(offered);
    ctx.add_transitions(offered);
    ctx.count(&format!("big-set family lg_k={lg_k}: coupons offered (fill to the promotion size, re-offer all, promote)"), offered);
}

pub fn explore(ctx: &Ctx, obs: &Observer) {
    let tier = ctx.tier;
    tier.pick(vec![17u8, 19, 21], vec![17, 18, 19, 20, 21]).par_iter().for_each(|&lg_k| run_big_sets(ctx, lg_k, obs));
    for (lg_k, max) in tier.pick(vec![(4u8, 6usize), (5, 4)], vec![(4, 9), (5, 5), (6, 4)]) {
        run_exception_subsets(ctx, lg_k, max);
    }
    let mut scs = scopes(tier);
    if ctx.reduced {
        for sc in scs.iter_mut() {
            sc.depth = sc.depth.min(tier.pick(8, 11));
        }
        scs.par_iter().for_each(|sc| run_scope(ctx, sc, obs));
        run_deep(ctx, 4, 1, 320, tier.pick(16, 4), 1, 1, obs);
        run_deep(ctx, 5, 1, 320, tier.pick(32, 8), 1, 1, obs);
        run_deep(ctx, 8, 1, 1024, tier.pick(256, 64), 1, tier.pick(64, 16), obs);
        if tier == Tier::Thorough {
            run_deep(ctx, 6, 1, 512, 16, 1, 2, obs);
            run_deep(ctx, 10, 1, 4096, 512, 1, 64, obs);
            run_deep(ctx, 12, 0, 16384, 1, 1, 1024, obs);
        }
        return;
    }
    scs.par_iter().for_each(|sc| run_scope(ctx, sc, obs));
    // all orders, no merging
    let sc4 = &scs[0];
    run_orders(ctx, 4, &sc4.alphabet, &sc4.starts[0].1, tier.pick(5, 6));
    run_orders(ctx, 4, &sc4.alphabet, &sc4.starts[2].1, tier.pick(4, 6));
    run_orders(ctx, 4, &sc4.alphabet, &sc4.starts[4].1, tier.pick(4, 5));
    // deep runs
    match tier {
        Tier::Quick => {
            run_deep(ctx, 4, 1, 320, 1, 1, 1, obs);
            run_deep(ctx, 4, 2, 128, 8, 8, 1, obs);
            run_deep(ctx, 5, 1, 320, 2, 1, 1, obs);
            run_deep(ctx, 6, 1, 512, 8, 1, 4, obs);
            run_deep(ctx, 7, 1, 768, 16, 1, 8, obs);
            run_deep(ctx, 8, 1, 1024, 64, 1, 32, obs);
            run_deep(ctx, 10, 1, 2048, 256, 1, 128, obs);
        }
        Tier::Thorough => {
            run_deep(ctx, 4, 1, 320, 1, 1, 1, obs);
            run_deep(ctx, 4, 2, 320, 4, 4, 1, obs);
            run_deep(ctx, 4, 3, 96, 8, 8, 1, obs);
            run_deep(ctx, 5, 1, 640, 1, 1, 1, obs);
            run_deep(ctx, 5, 2, 256, 8, 8, 1, obs);
            run_deep(ctx, 6, 1, 1280, 2, 1, 2, obs);
            run_deep(ctx, 7, 1, 1536, 4, 1, 4, obs);
            run_deep(ctx, 8, 1, 2048, 16, 1, 16, obs);
            run_deep(ctx, 9, 1, 2048, 32, 1, 32, obs);
            run_deep(ctx, 10, 1, 4096, 64, 1, 64, obs);
            run_deep(ctx, 12, 1, 16384, 1024, 1, 1024, obs);
            run_deep(ctx, 14, 0, 65536, 1, 1, 8192, obs);
            run_deep(ctx, 16, 0, 262144, 1, 1, 65536, obs);
            run_deep(ctx, 21, 0, 1 << 22, 1, 1, 1 << 21, obs);
        }
    }
}

pub fn run(ctx: &Ctx) -> i32 {
    explore(ctx, &no_observer);
    ctx.sample(json!({"E1":{"lg_k":4,"start":"15 registers at 1 + aux entries (0,16)(1,20)(2,15)","ops":["(slot 5,val 1) -> cur_min shift with aux non-empty","(0,63)","(1,32)"],"oracle":"dump == per-slot max; Array4 bookkeeping; Hll4/6/8 estimates+bounds bit-identical; duplicate is a no-op; same set via another order has same content"}}));
    ctx.sample(json!({"E2":{"lg_k":5,"run":"hot slots first, then fill descending slots","deviation":{"pos":37,"coupon":"(slot of next op, cur_min+15)"}}}));
    let required = [
        "List->Set", "List->Array4", "Set->Array4", "Array4 case1 (exception->exception)", "Array4 case3 (normal->exception)",
        "Array4 case4 (normal->normal)", "AuxMap grow", "Array4 shift moved an exception back into the 4-bit array",
    ];
    {
        let e = ctx.edges.lock().unwrap();
        let missing: Vec<&str> = required.iter().copied().filter(|r| !e.contains_key(*r)).collect();
        let shift_aux = e.keys().any(|k| k.starts_with("Array4 shift_to_bigger_cur_min aux_nonempty"));
        let shift_noaux = e.keys().any(|k| k.starts_with("Array4 shift_to_bigger_cur_min aux_empty"));
        let grow = e.keys().any(|k| k.starts_with("Set grow"));
        if !missing.is_empty() || !shift_aux || !shift_noaux || !grow {
            eprintln!("machinery error: exploration is vacuous, edges not covered: {:?} shift_aux={shift_aux} shift_noaux={shift_noaux} set_grow={grow}", missing);
            if ctx.num_violations() == 0 {
                return 2;
            }
        }
    }
    let cov = json!({
        "exhaustive": true,
        "bounds": {
            "E1": "BFS over all subsets (merged by offered-coupon set, arrivals compared) of 12-14 colliding coupons from 2-7 start states per scope; lg_k 4,7 (list->array), 8,9 (list->set->array with colliding probe sequences)",
            "E1_all_orders": "stateless DFS, every ordered sequence (with repetition) of the lg_k=4 alphabet to depth 4-6 from three start states",
            "E2": "three default runs per lg_k with every single deviation (bound 1) at the listed positions, bound 2/3 on lg_k 4/5; lg_k up to 10 (quick) / 21 (thorough, default runs only above 12)",
        },
    });
    ctx.finish(
        cov,
        vec![
            "coupons are injected through the add-only hook HllSketch::verif_update_with_coupon with values 1..=63 (what hashing can produce); C16 ties hashed items to coupons".into(),
            "state is read through the hook HllSketch::verif_state, not the serializer".into(),
            "E1 merges states with the same offered-coupon set; merging is validated by comparing full content fingerprints of every merged arrival".into(),
        ],
    )
}
