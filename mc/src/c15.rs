//! C15 — t-digest bounded size, structural invariants, tail-tight rank error.

use crate::c10::Acc;
use crate::common::{Ctx, Tier};
use crate::tdm::{self, Edges, GridCfg, LibMut, Op, Pair, Queries, RefDigest, Tree, Verdict};
use datasketches::tdigest::TDigestMut;
use rayon::prelude::*;
use serde_json::{Value, json};
use std::collections::{BTreeMap, BTreeSet};
use std::sync::Mutex;

pub type Observer = dyn Fn(&Ctx, &TDigestMut, &dyn Fn() -> Value) + Sync;
pub fn no_observer(_: &Ctx, _: &TDigestMut, _: &dyn Fn() -> Value) {}

pub const KS: [u16; 8] = [10, 20, 29, 30, 50, 100, 200, 500];

/// |rank(v) - true_rank(v)| <= a * q(1-q) * z/(2k) + add/n, z = 4 ln(n/2k) + 24;
/// at v = min / max (when that extreme value occurs once): <= extreme/n.
#[derive(Clone, Copy, Debug)]
pub struct Consts {
    pub a: f64,
    pub add: f64,
    pub extreme: f64,
}

impl Default for Consts {
    fn default() -> Self {
        Consts { a: A_CONST, add: 1.5, extreme: 1.0 }
    }
}

/// "a few multiples" of the k2 scale function's centroid-size limit. DESIGN fixes 4; the value
/// here is the result of the admissibility calibration (see the note written by `run`).
pub const A_CONST: f64 = 4.0;

#[derive(Default, Clone, Copy, Debug)]
pub struct Info {
    pub centroids: usize,
    pub image_len: usize,
    /// largest |err| / bound over the v grid (library rank)
    pub worst_ratio: f64,
    /// same for the reference formulas on the same centroid list
    pub worst_ratio_ref: f64,
    /// smallest constant `a` that would make the reference formulas pass (form: q = true rank)
    pub need_a_true_q: f64,
    /// same when q(1-q) is maximised over the interval between true and estimated rank
    pub need_a_interval: f64,
    /// largest centroid weight / (n z/(2k) min(q0(1-q0), q2(1-q2))) over non-unit centroids
    pub heaviest: f64,
    /// |sum w*mean - sum v| / sum |v|
    pub mean_drift: f64,
    /// v grid points at which the bound had to be raised to 1.05 x the reference's own error
    pub raised_points: u64,
    pub points: u64,
}

/// `t` = true rank, `r` = estimated rank; q(1-q) is maximised over the interval between them
/// (the k2 resolution that matters is the one at the rank positions of the centroids
/// bracketing v, and those lie between the true and the estimated rank).
pub fn bound(c: &Consts, t: f64, r: f64, n: f64, k: f64) -> f64 {
    let z = 4.0 * (n / (2.0 * k)).ln() + 24.0;
    let (lo, hi) = if t < r { (t, r) } else { (r, t) };
    let qq = if lo <= 0.5 && hi >= 0.5 { 0.25 } else { (lo * (1.0 - lo)).max(hi * (1.0 - hi)) };
    (c.a * qq * z / (2.0 * k)).max(0.0) + c.add / n
}

/// One observation of the C15 oracle on the state `p` (the live digest is not modified).
pub fn observe(p: &mut Pair, c: &Consts) -> (Verdict, Info) {
    let mut out = Verdict::default();
    let mut info = Info::default();
    let k = p.k as usize;
    let n = p.vals.len();
    if n == 0 {
        return (out, info);
    }
    p.vals.settle();
    let (bytes, img) = match p.image() {
        Ok(x) => x,
        Err(v) => {
            out.violations.push(v);
            return (out, info);
        }
    };
    info.centroids = img.centroids.len();
    info.image_len = bytes.len();
    let mut v = |k: &str, w: String| {
        if !out.violations.iter().any(|x| x.0 == k) {
            out.violations.push((k.to_string(), w));
        }
    };
    if img.centroids.len() > 2 * k + 30 {
        v("td.centroids.count", format!("{} centroids > 2k+30 = {} after {n} values", img.centroids.len(), 2 * k + 30));
    }
    if bytes.len() > 32 + 16 * (2 * k + 30) {
        v("td.image.size", format!("image of {} bytes > 32+16(2k+30) = {}", bytes.len(), 32 + 16 * (2 * k + 30)));
    }
    if !img.buffered.is_empty() {
        v("td.image.buffered", "serialize() left buffered values in the image".into());
    }
    let sum: u64 = img.centroids.iter().map(|c| c.1).sum();
    let mut lib = LibMut(p.td.clone());
    let tw = lib.total_weight().unwrap_or(u64::MAX);
    if sum != n as u64 {
        v("td.weights.sum", format!("centroid weights sum to {sum}, {n} finite values were offered"));
    }
    if tw != n as u64 {
        v("td.total_weight", format!("total_weight() = {tw}, {n} finite values were offered"));
    }
    if let Some(w) = img.centroids.windows(2).find(|w| w[0].0 > w[1].0) {
        v("td.means.unsorted", format!("centroid means decrease: {:?} then {:?}", w[0], w[1]));
    }
    let (mn, mx) = (p.vals.min(), p.vals.max());
    if let Some(cn) = img.centroids.iter().find(|c| c.0 < mn || c.0 > mx) {
        v("td.means.out_of_range", format!("centroid mean {:?} outside [min {mn:?}, max {mx:?}]", cn.0));
    }
    if img.min != mn || lib.min_value().ok().flatten() != Some(mn) {
        v("td.min_value", format!("min is {:?} (image {:?}), exact minimum {mn:?}", lib.min_value().ok().flatten(), img.min));
    }
    if img.max != mx || lib.max_value().ok().flatten() != Some(mx) {
        v("td.max_value", format!("max is {:?} (image {:?}), exact maximum {mx:?}", lib.max_value().ok().flatten(), img.max));
    }
    if sum != n as u64 || img.centroids.is_empty() {
        return (out, info);
    }
    {
        // Centroid::add keeps the weighted mean: sum of w_i * mean_i == sum of the values
        let ws: f64 = img.centroids.iter().map(|c| c.0 * c.1 as f64).sum();
        let dev = (ws - p.vals.sum()).abs();
        let scale = p.vals.abs_sum().max(f64::MIN_POSITIVE);
        info.mean_drift = dev / scale;
        if !(dev <= 1e-7 * scale) {
            out.violations.push(("td.means.weighted_sum".into(), format!("sum of weight*mean over the centroids = {ws:?}, sum of the {n} values offered = {:?} (relative to sum |v|: {:e})", p.vals.sum(), dev / scale)));
        }
    }
    let mut heavy: Option<String> = None;
    {
        let kk = p.k_eff as f64;
        let nf = n as f64;
        let z = 4.0 * (nf / (2.0 * kk)).ln() + 24.0;
        let mut cum = 0.0;
        for &(m, w) in &img.centroids {
            let wf = w as f64;
            let (q0, q2) = (cum / nf, (cum + wf) / nf);
            cum += wf;
            if w > 1 {
                let lim = nf * z / (2.0 * kk) * (q0 * (1.0 - q0)).min(q2 * (1.0 - q2));
                let r = if lim > 0.0 { wf / lim } else { f64::INFINITY };
                if r > info.heaviest {
                    info.heaviest = r;
                }
                if r > 1.0 + 1e-9 {
                    heavy.get_or_insert_with(|| format!("centroid (mean {m:?}, weight {w}) at q in [{q0:?}, {q2:?}] exceeds the k2 size limit n*z/(2k)*min(q0(1-q0), q2(1-q2)) = {lim:?} (n {n}, k_eff {kk}, ratio {r:.4})"));
                }
            }
        }
    }
    if let Some(h) = heavy {
        out.violations.push(("td.centroid.too_heavy".into(), h));
    }
    // rank error on the v grid, library and reference formulas on the same centroid list
    let g = tdm::make_grids(&img.centroids, mn, mx, GridCfg { qcap: 8, sp_pts: 2 });
    let refd = RefDigest::new(img.min, img.max, &img.centroids);
    let nf = n as f64;
    let (_, min_mult) = p.vals.counts(mn);
    let (_, max_mult) = p.vals.counts(mx);
    let mut ref_bad: BTreeSet<&'static str> = BTreeSet::new();
    let mut lib_bad: Vec<(&'static str, String)> = vec![];
    info.points = g.v.len() as u64;
    // calibration aid: apply the extreme clause whatever the multiplicity of min/max
    let any_mult = std::env::var("VERIF_EXTREME_ANY").is_ok();
    for &x in &g.v {
        let t = p.vals.true_rank(x);
        let extreme = (x == mn && (min_mult == 1 || any_mult)) || (x == mx && (max_mult == 1 || any_mult));
        let key: &'static str = if extreme { "td.rank_error.extreme" } else { "td.rank_error" };
        let bd = |r: f64| if extreme { c.extreme / nf + 1e-12 } else { bound(c, t, r, nf, p.k_eff as f64) + 1e-12 };
        let rr = refd.get_rank(x);
        let b = bd(rr);
        let er = (rr - t).abs();
        {
            let kk = p.k_eff as f64;
            let z = 4.0 * (nf / (2.0 * kk)).ln() + 24.0;
            let unit = z / (2.0 * kk);
            let excess = er - c.add / nf;
            if excess > 0.0 && unit > 0.0 {
                let (lo, hi) = if t < rr { (t, rr) } else { (rr, t) };
                let qq_i = if lo <= 0.5 && hi >= 0.5 { 0.25 } else { (lo * (1.0 - lo)).max(hi * (1.0 - hi)) };
                info.need_a_true_q = info.need_a_true_q.max(excess / (t * (1.0 - t) * unit));
                info.need_a_interval = info.need_a_interval.max(excess / (qq_i * unit));
            }
        }
        if er / b > info.worst_ratio_ref {
            info.worst_ratio_ref = er / b;
        }
        // ADMISSIBILITY: where the reference formulas on the same centroids exceed the bound, the
        // constant is raised for THIS grid point to what the reference needs (+5%); the extreme
        // clause is suspended for the digest instead (nothing sensible to scale there).
        let mut raised: Option<f64> = None;
        if !(er <= b) {
            if extreme {
                if ref_bad.insert(key) {
                    out.suspended.push((key.to_string(), format!("reference rank({x:?}) = {rr:?}, true rank {t:?}, error {er:?} > bound {b:?} (n {n}, k {k}, k_eff {}, {} centroids)", p.k_eff, img.centroids.len())));
                }
            } else {
                raised = Some(er * 1.05 + 1e-12);
                info.raised_points += 1;
            }
        }
        match lib.rank(x) {
            Err(pn) => {
                lib_bad.push(("panic", format!("panic|{}\u{1}rank({x:?}) panicked: {}", pn.site_key(), pn.message)));
                break;
            }
            Ok(None) => {
                lib_bad.push(("td.none_on_nonempty", format!("rank({x:?}) returned None")));
                break;
            }
            Ok(Some(r)) => {
                let b = raised.map(|x| x.max(bd(r))).unwrap_or_else(|| bd(r));
                let el = (r - t).abs();
                if el / b > info.worst_ratio {
                    info.worst_ratio = el / b;
                }
                if !(el <= b) && !lib_bad.iter().any(|y| y.0 == key) {
                    lib_bad.push((key, format!("rank({x:?}) = {r:?}, true rank {t:?}, error {el:?} > bound {b:?} (n {n}, k {k}, {} centroids; reference formulas give {rr:?})", img.centroids.len())));
                }
            }
        }
    }
    for (key, w) in lib_bad {
        if key == "panic" {
            let mut it = w.split('\u{1}');
            let (a, b) = (it.next().unwrap().to_string(), it.next().unwrap_or("").to_string());
            out.violations.push((a, b));
        } else if !ref_bad.contains(key) {
            out.violations.push((key.to_string(), w));
        }
    }
    (out, info)
}

#[derive(Default)]
pub struct PerK {
    pub max_centroids: usize,
    pub over_capacity: u64,
    pub observations: u64,
    pub worst: f64,
    pub worst_ref: f64,
    pub need_a_true_q: f64,
    pub need_a_interval: f64,
    pub heaviest: f64,
    pub mean_drift: f64,
    pub raised_points: u64,
    pub raised_obs: u64,
    pub points: u64,
}

pub struct Shared<'a> {
    pub ctx: &'a Ctx,
    pub acc: Acc,
    pub per_k: Mutex<BTreeMap<u16, PerK>>,
    /// family ("stream [shape]" / "merge trees") -> (grid points where the bound was raised, largest constant the reference needs)
    pub per_family: Mutex<BTreeMap<String, (u64, f64)>>,
    pub consts: Consts,
    pub obs: &'a Observer,
}

impl Shared<'_> {
    /// observation + reporting; `replay` describes how to rebuild the state
    fn look(&self, p: &mut Pair, replay: &dyn Fn() -> Value, what: &dyn Fn() -> String) {
        self.look_f(p, replay, what, "merge trees")
    }

    fn look_f(&self, p: &mut Pair, replay: &dyn Fn() -> Value, what: &dyn Fn() -> String, family: &str) {
        let (v, info) = observe(p, &self.consts);
        if std::env::var("VERIF_NEED").is_ok() && info.need_a_interval > 6.0 {
            eprintln!("NEED {:.2} {:.2} k={} n={} c={} {}", info.need_a_interval, info.need_a_true_q, p.k, p.vals.len(), info.centroids, what());
        }
        self.acc.verdict(&v, what);
        if !v.violations.is_empty() {
            let case = replay();
            self.acc.report(&v, crate::c10::case_size(&case), &|| format!("k={} {}", p.k, what()), &|| case.clone());
        }
        {
            let mut m = self.per_k.lock().unwrap();
            let e = m.entry(p.k).or_default();
            e.observations += 1;
            e.max_centroids = e.max_centroids.max(info.centroids);
            if info.centroids > tdm::derived_capacity(p.k) {
                e.over_capacity += 1;
            }
            e.worst = e.worst.max(info.worst_ratio);
            e.worst_ref = e.worst_ref.max(info.worst_ratio_ref);
            e.need_a_true_q = e.need_a_true_q.max(info.need_a_true_q);
            e.need_a_interval = e.need_a_interval.max(info.need_a_interval);
            e.heaviest = e.heaviest.max(info.heaviest);
            e.mean_drift = e.mean_drift.max(info.mean_drift);
            e.raised_points += info.raised_points;
            e.raised_obs += (info.raised_points > 0) as u64;
            e.points += info.points;
            let mut f = self.per_family.lock().unwrap();
            let g = f.entry(family.to_string()).or_insert((0, 0.0));
            g.0 += info.raised_points;
            g.1 = g.1.max(info.need_a_interval);
        }
        (self.obs)(self.ctx, &p.td, replay);
    }
}

pub fn deviation_alphabet() -> Vec<Op> {
    let mut d: Vec<Op> = (0..tdm::POOL_SIZE).map(Op::Merge).collect();
    d.extend([Op::Freeze, Op::Serde, Op::DupMin, Op::DupMax]);
    d
}

fn dev_positions(tier: Tier, k: u16, lmax: usize) -> BTreeSet<usize> {
    let cap4 = 4 * tdm::derived_capacity(k);
    let mut s = BTreeSet::new();
    s.extend([0usize, 1, 2]);
    let cycles = tier.pick(3, 6);
    for m in 1..=cycles {
        for d in [-1i64, 0, 1, 2] {
            s.insert((m as i64 * cap4 as i64 + d) as usize);
        }
    }
    let mut j = 4;
    while j <= tier.pick(1 << 14, 1 << 18).min(lmax) {
        s.insert(j);
        j *= 2;
    }
    match tier {
        Tier::Quick => {
            for i in 1..64 {
                s.insert(i * cap4 / 64);
            }
        }
        Tier::Thorough => {
            if k <= 100 {
                s.extend(0..=cap4 + 2);
            } else {
                for i in 1..256 {
                    s.insert(i * cap4 / 256);
                }
            }
        }
    }
    s.retain(|&p| p < lmax);
    s
}

fn run_stream(sh: &Shared, k: u16, shape: u8, lmax: usize) {
    let ctx = sh.ctx;
    let cap4 = 4 * tdm::derived_capacity(k);
    // digests with a huge k (thorough extra) are observed at buffer boundaries and powers of two
    // only, without deviations: one observation decodes up to 2k centroids
    let lean = k > 1000;
    let short = if lean { 64 } else { cap4 + 2 };
    let horizon = 2 * cap4 + 2;
    let devs = deviation_alphabet();
    let positions = if lean { BTreeSet::new() } else { dev_positions(ctx.tier, k, lmax) };
    let mut e = Edges::new();
    let mut p = Pair::new(k);
    let mut steps = 0u64;
    let mut execs = 1u64;
    let name = tdm::STREAM_SHAPES[shape as usize];
    let family = format!("stream [{name}]");
    for i in 0..lmax {
        if positions.contains(&i) {
            for d in &devs {
                execs += 1;
                let mut c = p.clone();
                let mut ops = vec![Op::Stream { shape, from: 0, to: i }, d.clone()];
                steps += 1;
                if let Err((key, what)) = c.apply(d, &mut e) {
                    let case = tdm::ops_json(k, &ops, "C15");
                    sh.acc.vio(&key, crate::c10::case_size(&case), &|| format!("k={k} stream [{name}] prefix {i} then {}: {what}", d.describe()), &|| case.clone());
                    continue;
                }
                sh.look_f(&mut c, &|| tdm::ops_json(k, &ops, "C15"), &|| format!("stream [{name}] prefix {i}, deviation {}", d.describe()), &family);
                let end = (i + horizon).min(lmax);
                let mut dead = false;
                for t in i..end {
                    steps += 1;
                    if let Err((key, what)) = c.apply(&Op::Value(tdm::stream_value(shape, t)), &mut e) {
                        ops.push(Op::Stream { shape, from: i, to: t + 1 });
                        let case = tdm::ops_json(k, &ops, "C15");
                        sh.acc.vio(&key, crate::c10::case_size(&case), &|| format!("k={k} stream [{name}] after deviation {} at {i}: {what}", d.describe()), &|| case.clone());
                        dead = true;
                        break;
                    }
                    if c.buf == cap4 || c.buf + 1 == cap4 || (c.buf == 1 && t > i) || t + 1 == end {
                        let mut o2 = ops.clone();
                        o2.push(Op::Stream { shape, from: i, to: t + 1 });
                        sh.look_f(&mut c, &|| tdm::ops_json(k, &o2, "C15"), &|| format!("stream [{name}] prefix {i}, deviation {}, then values {i}..{}", d.describe(), t + 1), &family);
                    }
                }
                let _ = dead;
            }
        }
        steps += 1;
        if let Err((key, what)) = p.apply(&Op::Value(tdm::stream_value(shape, i)), &mut e) {
            let case = tdm::ops_json(k, &[Op::Stream { shape, from: 0, to: i + 1 }], "C15");
            sh.acc.vio(&key, crate::c10::case_size(&case), &|| format!("k={k} stream [{name}] value {i}: {what}"), &|| case.clone());
            break;
        }
        let l = i + 1;
        let r = l % cap4;
        if l <= short || l.is_power_of_two() || r == 0 || r == 1 || r == cap4 - 1 || l == lmax {
            sh.look_f(&mut p, &|| tdm::ops_json(k, &[Op::Stream { shape, from: 0, to: l }], "C15"), &|| format!("stream [{name}] of length {l}"), &family);
        }
    }
    ctx.add_states(steps);
    ctx.add_transitions(steps);
    sh.acc.count("E2 executions (default runs + single deviations)", execs);
    sh.acc.edges(e);
}

fn leaf_specs(k: u16) -> Vec<(u8, usize)> {
    let c = 4 * tdm::derived_capacity(k);
    let lens = [1, 2, 5, 50, c - 1, c, c + 1, 1000, 3000, 10000, 7, c + 2, 20000, 333, 2 * c + 1, 30000];
    (0..16).map(|i| ((i % 8) as u8, lens[i])).collect()
}

fn pool6(k: u16) -> Vec<(u8, usize)> {
    let c = 4 * tdm::derived_capacity(k);
    vec![(0, 1), (1, 2), (4, 50), (7, c + 1), (5, 1000), (6, 333)]
}

fn balanced(ls: &[(u8, usize)]) -> Tree {
    if ls.len() == 1 {
        return Tree::Leaf(ls[0].0, ls[0].1);
    }
    let m = ls.len().div_ceil(2);
    Tree::Node(Box::new(balanced(&ls[..m])), Box::new(balanced(&ls[m..])))
}

fn left_deep(ls: &[(u8, usize)]) -> Tree {
    let mut t = Tree::Leaf(ls[0].0, ls[0].1);
    for l in &ls[1..] {
        t = Tree::Node(Box::new(t), Box::new(Tree::Leaf(l.0, l.1)));
    }
    t
}

/// all binary tree shapes with n leaves, leaves labelled by position 0..n
fn shapes(lo: usize, hi: usize) -> Vec<Tree> {
    if hi - lo == 1 {
        return vec![Tree::Leaf(0, lo)];
    }
    let mut out = vec![];
    for m in lo + 1..hi {
        for a in shapes(lo, m) {
            for b in shapes(m, hi) {
                out.push(Tree::Node(Box::new(a.clone()), Box::new(b)));
            }
        }
    }
    out
}

fn relabel(t: &Tree, leaves: &[(u8, usize)]) -> Tree {
    match t {
        Tree::Leaf(_, pos) => Tree::Leaf(leaves[*pos].0, leaves[*pos].1),
        Tree::Node(a, b) => Tree::Node(Box::new(relabel(a, leaves)), Box::new(relabel(b, leaves))),
    }
}

fn build_observing(sh: &Shared, t: &Tree, k: u16, e: &mut Edges, every_node: bool, steps: &mut u64) -> Option<Pair> {
    match t {
        Tree::Leaf(..) => t.build(k, e).ok(),
        Tree::Node(a, b) => {
            let mut l = build_observing(sh, a, k, e, every_node, steps)?;
            let r = build_observing(sh, b, k, e, every_node, steps)?;
            *steps += 1;
            if let Err(p) = l.merge_pair(&r, e) {
                let case = json!({"kind":"td_tree","k":k,"oracle":"C15","tree":t.json()});
                sh.acc.vio(&format!("panic|{}", p.site_key()), crate::c10::case_size(&case), &|| format!("k={k} merge in tree panicked: {}", p.message), &|| case.clone());
                return None;
            }
            if every_node {
                sh.look(&mut l, &|| json!({"kind":"td_tree","k":k,"oracle":"C15","tree":t.json()}), &|| format!("merge tree with {} leaves", t.leaves()));
            }
            Some(l)
        }
    }
}

fn run_trees(sh: &Shared, k: u16) {
    let ctx = sh.ctx;
    let mut e = Edges::new();
    let mut steps = 0u64;
    let ls = leaf_specs(k);
    let rev: Vec<(u8, usize)> = ls.iter().rev().copied().collect();
    let mut trees = 0u64;
    for order in [&ls, &rev] {
        // left-deep: every prefix is observed on the way (every_node)
        build_observing(sh, &left_deep(order), k, &mut e, true, &mut steps);
        trees += 15;
        for n in 2..=16 {
            build_observing(sh, &balanced(&order[..n]), k, &mut e, true, &mut steps);
            trees += 1;
        }
    }
    *e.entry("merge tree: left-deep, 16 leaves".into()).or_insert(0) += 2;
    *e.entry("merge tree: balanced, 2..=16 leaves".into()).or_insert(0) += 30;
    // all binary trees with <= 4 leaves over the pool of 6
    let pool = pool6(k);
    let mut all: Vec<Tree> = vec![];
    for n in 1..=4usize {
        let sh_n = shapes(0, n);
        let mut idx = vec![0usize; n];
        loop {
            let leaves: Vec<(u8, usize)> = idx.iter().map(|&i| pool[i]).collect();
            for s in &sh_n {
                all.push(relabel(s, &leaves));
            }
            let mut d = 0;
            while d < n {
                idx[d] += 1;
                if idx[d] < pool.len() {
                    break;
                }
                idx[d] = 0;
                d += 1;
            }
            if d == n {
                break;
            }
        }
    }
    trees += all.len() as u64;
    let st: u64 = all
        .par_iter()
        .map(|t| {
            let mut e = Edges::new();
            let mut steps = 0u64;
            if let Some(mut p) = build_observing(sh, t, k, &mut e, false, &mut steps) {
                sh.look(&mut p, &|| json!({"kind":"td_tree","k":k,"oracle":"C15","tree":t.json()}), &|| format!("merge tree with {} leaves over the pool of 6", t.leaves()));
            }
            sh.acc.edges(e);
            steps + 1
        })
        .sum();
    *e.entry("merge tree: all binary trees with <= 4 leaves over a pool of 6".into()).or_insert(0) += all.len() as u64;
    ctx.add_states(steps + st);
    ctx.add_transitions(steps + st);
    sh.acc.count("merge trees built and observed", trees);
    sh.acc.edges(e);
}

/// Merges between digests of DIFFERENT k: every receiver preparation x donor k x donor data x
/// donor preparation, observed right after the merge (before any flush of the receiver) and
/// again after a few more updates.
fn run_mixed_k(sh: &Shared, k: u16) {
    let ctx = sh.ctx;
    let cap4 = 4 * tdm::derived_capacity(k);
    let recv_preps: Vec<Vec<Op>> = vec![
        vec![],
        vec![Op::Value(3.0)],
        vec![Op::Stream { shape: 0, from: 0, to: 50 }],
        vec![Op::Stream { shape: 1, from: 0, to: cap4 + 1 }],
        vec![Op::Stream { shape: 2, from: 0, to: 300 }, Op::Query],
        vec![Op::Stream { shape: 0, from: 0, to: 40 }, Op::Serde],
    ];
    let donor_data: [(u8, usize); 4] = [(0, 1), (0, 50), (5, 3000), (2, 20000)];
    let donor_preps: [Vec<Op>; 3] = [vec![], vec![Op::Query], vec![Op::Serde]];
    let mut jobs: Vec<Vec<Op>> = vec![];
    for kd in KS.iter().copied().chain([1000u16, 5000]) {
        if kd == k {
            continue;
        }
        for rp in &recv_preps {
            for &(shape, len) in &donor_data {
                for dp in &donor_preps {
                    let mut dops = vec![Op::Stream { shape, from: 0, to: len }];
                    dops.extend(dp.iter().cloned());
                    let mut ops = rp.clone();
                    ops.push(Op::MergeOps { k: kd, ops: dops });
                    jobs.push(ops);
                }
            }
        }
    }
    let n: u64 = jobs
        .par_iter()
        .map(|ops| {
            let mut e = Edges::new();
            let mut p = Pair::new(k);
            let mut ok = true;
            for o in ops {
                if let Err((key, w)) = p.apply(o, &mut e) {
                    let case = tdm::ops_json(k, ops, "C15");
                    sh.acc.vio(&key, crate::c10::case_size(&case), &|| format!("k={k}: {w}"), &|| case.clone());
                    ok = false;
                    break;
                }
            }
            if ok {
                sh.look_f(&mut p, &|| tdm::ops_json(k, ops, "C15"), &|| format!("mixed-k merge: {}", ops.last().unwrap().describe()), "mixed-k merge");
                let mut more = ops.clone();
                more.push(Op::Stream { shape: 3, from: 0, to: 10 });
                if p.apply(more.last().unwrap(), &mut e).is_ok() {
                    sh.look_f(&mut p, &|| tdm::ops_json(k, &more, "C15"), &|| "mixed-k merge, then 10 updates".to_string(), "mixed-k merge");
                }
            }
            *e.entry("mixed-k merge family".into()).or_insert(0) += 1;
            sh.acc.edges(e);
            2
        })
        .sum();
    ctx.add_states(n);
    ctx.add_transitions(n);
    sh.acc.count("mixed-k merges observed (after the merge and after 10 more updates)", n);
}

pub fn explore(ctx: &Ctx, obs: &Observer) {
    let sh = Shared { ctx, acc: Acc::default(), per_k: Mutex::new(BTreeMap::new()), per_family: Mutex::new(BTreeMap::new()), consts: Consts::default(), obs };
    let lmax = ctx.tier.pick(1usize << 16, 1usize << 20);
    let mut tasks: Vec<(u16, Option<u8>)> = vec![];
    for k in KS.iter().rev() {
        if let Ok(f) = std::env::var("VERIF_ONLY_K") {
            if f.parse::<u16>().unwrap() != *k {
                continue;
            }
        }
        for s in 0..8u8 {
            tasks.push((*k, Some(s)));
        }
        tasks.push((*k, None));
    }
    // thorough: two k above the u16 midpoint (2k does not fit u16), streams only: with 2^20
    // values the buffer of a k = 40000 digest flushes three times
    if ctx.tier == Tier::Thorough && std::env::var("VERIF_ONLY_K").is_err() {
        for k in [32768u16, 40000] {
            for s in [0u8, 1, 2, 5] {
                tasks.push((k, Some(s)));
            }
        }
    }
    tasks.par_iter().for_each(|(k, s)| {
        let t0 = std::time::Instant::now();
        match s {
            Some(s) => run_stream(&sh, *k, *s, lmax),
            None => {
                run_trees(&sh, *k);
                run_mixed_k(&sh, *k);
            }
        }
        if std::env::var("VERIF_DEBUG").is_ok() {
            eprintln!("k={k} {:?}: {:.1}s", s.map(|s| tdm::STREAM_SHAPES[s as usize]).unwrap_or("merge trees"), t0.elapsed().as_secs_f64());
        }
    });
    sh.acc.flush(ctx);
    let m = sh.per_k.lock().unwrap();
    for (k, p) in m.iter() {
        ctx.count(&format!("k={k}: observations"), p.observations);
        ctx.count(&format!("k={k}: max centroid count (2k+30 = {}, derived capacity {})", 2 * *k as usize + 30, tdm::derived_capacity(*k)), p.max_centroids as u64);
        ctx.count(&format!("k={k}: observations with more centroids than the derived capacity"), p.over_capacity);
        ctx.note(format!(
            "k={k}: {} observations, {} rank-error grid points; worst |error|/bound: library {:.3}, reference formulas on the same centroids {:.3}; ADMISSIBILITY: the reference exceeds the a={} bound at {} grid points in {} observations (there the bound is raised to 1.05 x the reference's own error for that point); a single global constant would have to be {:.2} (or {:.2} with q fixed at the true rank, the form in DESIGN); heaviest non-unit centroid / k2 size limit {:.4}; largest |sum w*mean - sum v|/sum|v| {:.1e}",
            p.observations, p.points, p.worst, p.worst_ref, A_CONST, p.raised_points, p.raised_obs, p.need_a_interval, p.need_a_true_q, p.heaviest, p.mean_drift
        ));
    }
    let f = sh.per_family.lock().unwrap();
    let list: Vec<String> = f.iter().map(|(k, v)| format!("{k}: {} points, reference needs a <= {:.2}", v.0, v.1)).collect();
    ctx.note(format!("ADMISSIBILITY per family (grid points where the a={} bound had to be raised; largest constant the reference formulas need): {}", A_CONST, list.join("; ")));
}

pub fn run(ctx: &Ctx) -> i32 {
    if let Err(e) = tdm::codec_self_test() {
        eprintln!("machinery error: t-digest spec codec self-test failed: {e}");
        return 2;
    }
    explore(ctx, &no_observer);
    let c = Consts::default();
    ctx.note(format!(
        "ORACLE CORRECTIONS made by the admissibility check (reference formulas applied to the library's own centroid lists): (1) DESIGN's bound {a}*q(1-q)*z/(2k)+{add}/n with q = true rank is NOT admissible (the reference formulas need the constants listed per k above, because the centroids bracketing v sit at rank positions between the true and the estimated rank); bound in force: |rank(v)-true_rank(v)| <= {a}*max_q q(1-q)*z/(2k) + {add}/n with q ranging over [min(true,estimated), max(true,estimated)], z = 4 ln(n/2k)+24, true rank = (count_less + count_equal/2)/n (the digest's own midpoint convention for ties). (2) k in the bound is the smallest k of any digest merged in (a k=10 partner limits the resolution of its centroids). (3) with this form a = {a} is admissible except on the families listed in the per-family note (essentially the geometric-magnitudes stream: values over 600 decades, linear interpolation between centroid means); instead of raising the constant for every shape the bound is raised per grid point to 1.05 x the reference's own error where the reference exceeds it (counts per k and per family above). (4) the exact-to-one-sample clause at v=min / v=max (<= {ex}/n) applies when that extreme occurs once in the data (with m duplicates the midpoint rank of the extreme is m/2n and the digest's tie handling is governed by the general bound). ADDED structural clauses (hold with margin on the unchanged tree): every non-unit centroid obeys the k2 size limit n*z/(2k)*min(q0(1-q0), q2(1-q2)) (ratio <= 1.0000 observed); sum of weight*mean equals the sum of the values (relative 1e-7; observed <= 1e-14).",
        a = c.a, add = c.add, ex = c.extreme
    ));
    ctx.sample(json!({"E2":{"k":29,"stream":"alternating extremes","length":353,"deviation":{"before_value":352,"op":"merge(pool[1])"},"oracle":"centroids<=2k+30, image<=32+16(2k+30), sum of weights==total_weight==finite values offered, means sorted within [min,max], min/max exact, rank error bound on the v grid, exact-to-one-sample at the extremes"}}));
    ctx.sample(json!({"merge_tree":{"k":100,"shape":"balanced","leaves":"16 stream digests (8 shapes x lengths 1..30000)","observed":"every internal node"}}));
    {
        let e = ctx.edges.lock().unwrap();
        let need = [
            "compress on full buffer, forward direction",
            "compress on full buffer, reverse direction",
            "buffer boundary: buffer full (4*capacity)",
            "merge, forward direction",
            "merge, reverse direction",
            "freeze->unfreeze",
            "serialize->deserialize, multi form (native f64)",
            "update: duplicate of the current min",
            "update: duplicate of the current max",
            "merge tree: left-deep, 16 leaves",
            "mixed-k merge family",
            "merge: other has a different k",
            "merge: into an empty digest",
        ];
        let missing: Vec<&str> = need.iter().copied().filter(|n| !e.contains_key(*n)).collect();
        if !missing.is_empty() {
            eprintln!("machinery error: exploration is vacuous, edges not covered: {:?}", missing);
            if ctx.num_violations() == 0 {
                return 2;
            }
        }
    }
    let lmax = ctx.tier.pick(16, 20);
    let cov = json!({
        "exhaustive": true,
        "bounds": {
            "k": KS, "k_thorough_extra": "32768 and 40000 (streams sorted, reversed, sawtooth, far clusters)",
            "default_runs": format!("8 stream shapes (sorted, reversed, sawtooth, constant, heavy duplicates, two far clusters, geometric magnitudes 1e-300..1e300, alternating extremes), one run of 2^{lmax} values each; since stream(L) is a prefix of stream(L+1) the run visits EVERY length: observed (on a clone, which forces the compress) at every length 1..=4cap+2, at every length = -1,0,+1 mod 4cap (every buffer boundary; the observation at m*4cap is exactly the state the next update's compress produces), at every power of two and at the end"),
            "deviations": "bound 1; D = {merge(pool[0..4]), freeze->unfreeze, serialize->deserialize, duplicate of min, duplicate of max}; positions: 0,1,2, m*4cap+{-1,0,1,2} for m<=3 (quick)/6 (thorough), powers of two <= 2^14 (2^18), plus 63 evenly spaced in the first buffer (quick) / every position <= 4cap+2 for k<=100 and 255 evenly spaced otherwise (thorough); after the deviation the run continues for 2*4cap+2 values with an observation right after the deviation, at every buffer boundary and at the end",
            "merge_trees": "16 leaves (shape i%8, lengths 1,2,5,50,4cap-1,4cap,4cap+1,1000,3000,10000,7,4cap+2,20000,333,2*4cap+1,30000): left-deep over the fixed order and its reverse observed after every merge; balanced trees over the first n leaves, n=2..=16, both orders, observed at every internal node; all 6954 binary trees with <= 4 leaves over a pool of 6 observed at the root",
            "mixed_k": "per receiver k: 6 receiver preparations (empty, 1 value, 50 buffered, one flush, queried, round-tripped) x 9 donor k (the other members of the k list, 1000, 5000) x 4 donor streams (1, 50, 3000, 20000 values) x 3 donor preparations (buffered, queried = empty buffer, round-tripped); observed right after the merge and after 10 more updates",
        },
    });
    ctx.finish(
        cov,
        vec![
            "centroid lists are read from serialize() of a clone through the harness's own decoder".into(),
            "accuracy is checked on this written-down finite family of streams and merge trees only; t-digest has no worst-case guarantee".into(),
            "the rank-error constants are validated per observation by the reference formulas on the library's own centroid list (clause suspended where those fail)".into(),
        ],
    )
}
