//! C03 — HLL union equals the sketch of the combined streams, whatever the input shapes.

use crate::common::{Ctx, Tier, catch, hex};
use crate::engine::{self, Step};
use crate::hllm::{self, NSD, TYPES, coupon};
use crate::spec_hll;
use datasketches::hll::{HllSketch, HllType, HllUnion};
use rayon::prelude::*;
use serde_json::{Value, json};
use std::collections::{BTreeMap, BTreeSet};
use std::sync::Mutex;

#[derive(Clone)]
pub struct Member {
    pub label: String,
    pub sk: HllSketch,
    pub lg_k: u8,
    /// Some(registers at lg_k) when the member is in array mode
    pub regs: Option<Vec<u8>>,
    /// coupons when the member is in list/set mode
    pub coupons: BTreeSet<u32>,
    /// how to rebuild it (for replay): coupon list + recipe
    pub recipe: Value,
}

fn fold(regs: &[u8], to_lg: u8) -> Vec<u8> {
    let n = 1usize << to_lg;
    let mut out = vec![0u8; n];
    for (s, &v) in regs.iter().enumerate() {
        let d = s & (n - 1);
        out[d] = out[d].max(v);
    }
    out
}

fn ty(i: usize) -> HllType {
    TYPES[i]
}
fn tyn(i: usize) -> u8 {
    [4, 6, 8][i]
}

fn build_from_coupons(lg_k: u8, t: usize, cs: &[u32]) -> HllSketch {
    let mut s = HllSketch::new(lg_k, ty(t));
    for &c in cs {
        s.verif_update_with_coupon(c);
    }
    s
}

/// The content shapes of pool members, as coupon lists.
fn shapes(lg_k: u8) -> Vec<(&'static str, Vec<u32>)> {
    let k = 1u32 << lg_k;
    let mut v: Vec<(&'static str, Vec<u32>)> = vec![("empty", vec![])];
    v.push(("list(3)", vec![coupon(1, 3), coupon(k + 2, 1), coupon(5 * k + 1, 7)]));
    if lg_k >= 8 {
        v.push(("set(20)", (0..20).map(|i| coupon(i * 37 + 3 + ((i % 3) << 22), 1 + (i % 6) as u8)).collect()));
    }
    if lg_k >= 10 {
        // the largest set the configuration allows (one below the promotion to an array)
        let n = 3 * (1u32 << (lg_k - 3)) / 4 - 1;
        v.push(("set(max)", (0..n).map(|i| coupon(i * 37 + 3 + ((i % 3) << 22), 1 + (i % 6) as u8)).collect()));
    }
    // dense array: every slot gets value 1 + (slot % 5), some slots a second higher value
    let mut dense: Vec<u32> = (0..k).map(|s| coupon(s, 1 + (s % 5) as u8)).collect();
    dense.push(coupon(3, 9));
    v.push(("array(dense)", dense));
    // array with exceptions: a few registers far above the rest, incl. 63 and the kxq boundary 31/32
    let mut exc: Vec<u32> = (0..k).step_by(2).map(|s| coupon(s, 2)).collect();
    exc.extend([coupon(0, 63), coupon(1, 31), coupon(2, 32), coupon(k - 1, 17), coupon(k / 2, 15)]);
    v.push(("array(exceptions)", exc));
    // high base: every register at 3..=5, so that a conversion to Hll4 (filled slot by slot from
    // cur_min 0) jumps cur_min by three levels at the last slot; 15 and 16 are exceptions before
    // the jump and fit four bits after it, 18 and 40 stay exceptions
    let mut jump: Vec<u32> = (0..k).map(|s| coupon(s, 3 + (s % 3) as u8)).collect();
    jump.extend([coupon(1, 15), coupon(2, 16), coupon(5, 18), coupon(k - 2, 40)]);
    v.push(("array(high base)", jump));
    // sparse array: only 9 registers set (forces array mode at lg_k < 8; at lg_k >= 8 it stays a set)
    v
}

pub fn build_pool(lgs: &[u8]) -> Vec<Member> {
    let mut pool = vec![];
    for &lg_k in lgs {
        for (sname, cs) in shapes(lg_k) {
            for t in 0..3 {
                let s = build_from_coupons(lg_k, t, &cs);
                let st = s.verif_state();
                let is_array = st.mode == 2;
                let r = hllm::RefHll { coupons: cs.iter().copied().collect() };
                let base = Member {
                    label: format!("lg{lg_k}/Hll{}/{sname}/fresh", tyn(t)),
                    sk: s.clone(),
                    lg_k,
                    regs: if is_array { Some(r.registers(lg_k)) } else { None },
                    coupons: if is_array { BTreeSet::new() } else { r.coupons.clone() },
                    recipe: json!({"lg_k":lg_k,"tgt":tyn(t),"coupons":cs,"via":"fresh"}),
                };
                // deserialize(serialize(.)) twin
                if let Ok(Ok(d)) = catch(|| HllSketch::deserialize(&s.serialize())) {
                    let mut m = base.clone();
                    m.label = format!("lg{lg_k}/Hll{}/{sname}/roundtrip", tyn(t));
                    m.sk = d;
                    m.recipe["via"] = json!("roundtrip");
                    // only keep the twin for a subset to bound the pool size
                    if t == 0 || sname == "array(exceptions)" || sname == "list(3)" {
                        pool.push(m);
                    }
                }
                if is_array {
                    // out-of-order, produced by a previous union
                    let mut u = HllUnion::new(lg_k);
                    u.update(&s);
                    u.update(&s);
                    let mut m = base.clone();
                    m.label = format!("lg{lg_k}/Hll{}/{sname}/ooo-via-union", tyn(t));
                    m.sk = u.to_sketch(ty(t));
                    m.recipe["via"] = json!("union_twice_to_sketch");
                    pool.push(m);
                    // out-of-order, produced by a foreign writer (spec encoder sets the flag)
                    let regs = r.registers(lg_k);
                    let (a, b) = hllm::kxq_of(&regs);
                    let cur_min = regs.iter().copied().min().unwrap_or(0);
                    let img = spec_hll::encode_array(lg_k, tyn(t), &regs, cur_min, 0.0, a, b, spec_hll::EncOpts { compact: false, ooo: true, lg_arr: 8, extra_flags: 0 });
                    if let Ok(Ok(d)) = catch(|| HllSketch::deserialize(&img)) {
                        // only usable as a pool member if the reader really restored the registers
                        if d.verif_state().registers == regs {
                            let mut m = base.clone();
                            m.label = format!("lg{lg_k}/Hll{}/{sname}/ooo-via-image", tyn(t));
                            m.sk = d;
                            m.recipe = json!({"lg_k":lg_k,"tgt":tyn(t),"coupons":cs,"via":"spec_image_ooo","image":hex(&img)});
                            pool.push(m);
                        }
                    }
                }
                pool.push(base);
            }
        }
    }
    pool
}

#[derive(Clone, Debug, PartialEq, Eq, Hash)]
pub enum Op {
    Update(usize),
    Value(u64),
    Reset,
}

pub fn value_coupon(x: u64) -> u32 {
    let (h1, h2) = crate::refhash::murmur3_x64_128(&x.to_le_bytes(), 9001);
    (((h2.leading_zeros().min(62) + 1) as u32) << 26) | (h1 as u32 & 0x3FF_FFFF)
}

#[derive(Clone)]
pub struct UState {
    pub lg_max_k: u8,
    pub u: HllUnion,
    /// reference: current lg, registers contributed by array inputs (at ref_lg), coupons from sparse inputs
    pub ref_lg: u8,
    pub ref_regs: Option<Vec<u8>>,
    pub ref_coupons: BTreeSet<u32>,
    pub nonempty_inputs: u64,
}

impl UState {
    pub fn new(lg_max_k: u8) -> Self {
        UState { lg_max_k, u: HllUnion::new(lg_max_k), ref_lg: lg_max_k, ref_regs: None, ref_coupons: BTreeSet::new(), nonempty_inputs: 0 }
    }

    pub fn expected_regs(&self, lg: u8) -> Vec<u8> {
        let mut r = match &self.ref_regs {
            Some(x) => fold(x, lg),
            None => vec![0u8; 1 << lg],
        };
        let n = 1usize << lg;
        for &c in &self.ref_coupons {
            let s = (hllm::c_slot(c) as usize) & (n - 1);
            r[s] = r[s].max(hllm::c_val(c));
        }
        r
    }

    pub fn apply(&mut self, op: &Op, pool: &[Member], edges: &mut BTreeMap<String, u64>) -> Vec<(String, String)> {
        match catch(|| self.apply_inner(op, pool, edges)) {
            Ok(v) => v,
            Err(p) => vec![(format!("panic|{}", p.site_key()), format!("{:?} or a following accessor panicked: {} at {}:{}", op, p.message, p.file, p.line))],
        }
    }

    fn apply_inner(&mut self, op: &Op, pool: &[Member], edges: &mut BTreeMap<String, u64>) -> Vec<(String, String)> {
        let mut out = vec![];
        let before_mode = self.u.to_sketch(HllType::Hll8).verif_state().mode;
        let before_lg = self.u.lg_config_k();
        let r = match op {
            Op::Update(i) => {
                let m = &pool[*i];
                if m.regs.is_some() || !m.coupons.is_empty() {
                    self.nonempty_inputs += 1;
                }
                if let Some(regs) = &m.regs {
                    let new_lg = self.ref_lg.min(m.lg_k);
                    let cur = match &self.ref_regs {
                        Some(x) => fold(x, new_lg),
                        None => vec![0u8; 1 << new_lg],
                    };
                    let inc = fold(regs, new_lg);
                    self.ref_regs = Some(cur.iter().zip(inc.iter()).map(|(a, b)| *a.max(b)).collect());
                    self.ref_lg = new_lg;
                } else {
                    self.ref_coupons.extend(m.coupons.iter().copied());
                }
                catch(|| self.u.update(&m.sk))
            }
            Op::Value(x) => {
                self.ref_coupons.insert(value_coupon(*x));
                self.nonempty_inputs += 1;
                catch(|| self.u.update_value(*x))
            }
            Op::Reset => {
                self.ref_lg = self.lg_max_k;
                self.ref_regs = None;
                self.ref_coupons.clear();
                self.nonempty_inputs = 0;
                catch(|| self.u.reset())
            }
        };
        if let Err(p) = r {
            out.push((format!("panic|{}", p.site_key()), format!("{:?} panicked: {} at {}:{}", op, p.message, p.file, p.line)));
            return out;
        }
        out.extend(self.check());
        // edges
        let after = self.u.to_sketch(HllType::Hll8).verif_state();
        let mut e = |s: String| *edges.entry(s).or_insert(0) += 1;
        if let Op::Update(i) = op {
            let m = &pool[*i];
            let src = if m.regs.is_some() { "array" } else if m.coupons.is_empty() { "empty" } else { "sparse" };
            let gad = ["list", "set", "array"][before_mode as usize];
            let rel = if m.lg_k < before_lg { "src<gadget" } else if m.lg_k == before_lg { "src=gadget" } else { "src>gadget" };
            let ooo = m.sk.verif_state().ooo;
            e(format!("update: gadget {gad} <- {src} {} ({rel}{})", m.sk.verif_state().tgt, if ooo { ", src out-of-order" } else { "" }));
        }
        if after.mode != before_mode {
            e(format!("gadget mode {} -> {}", before_mode, after.mode));
        }
        if self.u.lg_config_k() != before_lg {
            e("gadget lg_k reduced".to_string());
        }
        out
    }

    pub fn check(&self) -> Vec<(String, String)> {
        let mut out = vec![];
        let sk: Vec<HllSketch> = match catch(|| TYPES.iter().map(|&t| self.u.to_sketch(t)).collect::<Vec<_>>()) {
            Ok(v) => v,
            Err(p) => {
                out.push((format!("panic|{}", p.site_key()), format!("to_sketch panicked: {} at {}:{}", p.message, p.file, p.line)));
                return out;
            }
        };
        let sts: Vec<_> = sk.iter().map(|s| s.verif_state()).collect();
        let lg = self.u.lg_config_k();
        let sparse_expected = self.ref_regs.is_none();
        // lg_config_k: the smallest lg among lg_max_k and the array-mode inputs
        if lg != self.ref_lg {
            out.push(("union.lg_config_k".into(), format!("lg_config_k {} but min(lg_max_k, array-mode inputs) = {}", lg, self.ref_lg)));
        }
        for (i, st) in sts.iter().enumerate() {
            let t = tyn(i);
            if st.tgt != t {
                out.push(("union.to_sketch.type".into(), format!("to_sketch(Hll{t}) returned target type {}", st.tgt)));
            }
            if st.lg_k != lg {
                out.push(("union.to_sketch.lg_k".into(), format!("to_sketch(Hll{t}) has lg_k {} but the union reports {}", st.lg_k, lg)));
                continue;
            }
            if st.mode < 2 {
                let got: BTreeSet<u32> = st.table.iter().copied().filter(|&c| c != 0).collect();
                if !sparse_expected {
                    out.push(("union.sparse_after_array_input".into(), "result is still in coupon mode although an array-mode input was merged".into()));
                } else if got != self.ref_coupons {
                    out.push((format!("union.coupons.hll{t}"), format!("coupon set differs from the union of the inputs' coupons ({} vs {})", got.len(), self.ref_coupons.len())));
                }
            } else {
                let want = self.expected_regs(lg);
                if st.registers != want {
                    let idx = st.registers.iter().zip(want.iter()).position(|(a, b)| a != b).unwrap_or(0);
                    out.push((
                        format!("union.registers.hll{t}"),
                        format!("register[{idx}] = {} but the folded register-wise maximum is {} (lg {lg})", st.registers.get(idx).copied().unwrap_or(0), want.get(idx).copied().unwrap_or(0)),
                    ));
                }
                // internal bookkeeping of the converted sketches
                let r = hllm::RefHll::default();
                for (k, w) in hllm::check_state_with(st, &r, &want, lg) {
                    if !k.contains("registers") {
                        out.push((format!("union.result.{k}"), w));
                    }
                }
            }
            for (k, w) in hllm::check_bounds(&sk[i]) {
                out.push((format!("union.{k}"), w));
            }
        }
        // estimate and bounds independent of the requested type
        let o: Vec<[u64; 7]> = sk.iter().map(hllm::obs_est).collect();
        if o[0] != o[2] || o[1] != o[2] {
            let f = |x: &[u64; 7]| x.iter().map(|b| f64::from_bits(*b)).collect::<Vec<_>>();
            let which = if o[0][0] != o[2][0] || o[1][0] != o[2][0] { "union.type_dependent.estimate" } else { "union.type_dependent.bounds" };
            out.push((which.into(), format!("to_sketch estimate/bounds depend on the type: Hll4 {:?} Hll6 {:?} Hll8 {:?} (result out-of-order: {})", f(&o[0]), f(&o[1]), f(&o[2]), sts[2].ooo)));
        }
        // the union's own accessors agree with its Hll8 result
        let own = [
            self.u.estimate().to_bits(),
            self.u.lower_bound(NSD[0]).to_bits(),
            self.u.lower_bound(NSD[1]).to_bits(),
            self.u.lower_bound(NSD[2]).to_bits(),
            self.u.upper_bound(NSD[0]).to_bits(),
            self.u.upper_bound(NSD[1]).to_bits(),
            self.u.upper_bound(NSD[2]).to_bits(),
        ];
        if own != o[2] {
            out.push(("union.accessors_vs_to_sketch".into(), "union.estimate()/bounds differ from to_sketch(Hll8)".into()));
        }
        if self.nonempty_inputs > 0 {
            for (i, x) in o.iter().enumerate() {
                if f64::from_bits(x[0]) <= 0.0 {
                    out.push(("union.zero_estimate".into(), format!("union of {} non-empty inputs: to_sketch(Hll{}) estimate {}", self.nonempty_inputs, tyn(i), f64::from_bits(x[0]))));
                }
            }
            if self.u.is_empty() {
                out.push(("union.is_empty".into(), "union of non-empty inputs reports is_empty".into()));
            }
        }
        out
    }

    pub fn key(&self) -> (u8, Option<Vec<u8>>, Vec<u32>) {
        (self.ref_lg, self.ref_regs.clone(), self.ref_coupons.iter().copied().collect())
    }

    pub fn fingerprint(&self) -> Vec<u8> {
        let mut v = vec![self.u.lg_config_k()];
        let st = self.u.to_sketch(HllType::Hll8).verif_state();
        v.push(st.mode);
        if st.mode < 2 {
            let mut cs: Vec<u32> = st.table.iter().copied().filter(|&c| c != 0).collect();
            cs.sort_unstable();
            for c in cs {
                v.extend(c.to_le_bytes());
            }
        } else {
            v.extend(&st.registers);
        }
        v
    }
}

fn op_json(op: &Op, pool: &[Member]) -> Value {
    match op {
        Op::Update(i) => json!({"update": pool[*i].recipe, "label": pool[*i].label}),
        Op::Value(x) => json!({"value": x}),
        Op::Reset => json!("reset"),
    }
}

pub fn replay_json(lg_max_k: u8, ops: &[Op], pool: &[Member]) -> Value {
    json!({"kind":"hll_union_ops","lg_max_k":lg_max_k,"ops":ops.iter().map(|o| op_json(o, pool)).collect::<Vec<_>>()})
}

fn member_from_recipe(r: &Value) -> Member {
    let lg_k = r["lg_k"].as_u64().unwrap() as u8;
    let tgt = r["tgt"].as_u64().unwrap();
    let t = match tgt {
        4 => 0,
        6 => 1,
        _ => 2,
    };
    let cs: Vec<u32> = r["coupons"].as_array().unwrap().iter().map(|v| v.as_u64().unwrap() as u32).collect();
    let s = build_from_coupons(lg_k, t, &cs);
    let rr = hllm::RefHll { coupons: cs.iter().copied().collect() };
    let is_array = s.verif_state().mode == 2;
    let sk = match r["via"].as_str().unwrap_or("fresh") {
        "roundtrip" => HllSketch::deserialize(&s.serialize()).unwrap(),
        "union_twice_to_sketch" => {
            let mut u = HllUnion::new(lg_k);
            u.update(&s);
            u.update(&s);
            u.to_sketch(ty(t))
        }
        "spec_image_ooo" => HllSketch::deserialize(&crate::common::unhex(r["image"].as_str().unwrap())).unwrap(),
        _ => s,
    };
    Member { label: String::new(), sk, lg_k, regs: if is_array { Some(rr.registers(lg_k)) } else { None }, coupons: if is_array { BTreeSet::new() } else { rr.coupons }, recipe: r.clone() }
}

pub fn replay(case: &Value) -> String {
    let lg_max_k = case["lg_max_k"].as_u64().unwrap() as u8;
    let mut pool = vec![];
    let mut ops = vec![];
    for o in case["ops"].as_array().unwrap() {
        if let Some(r) = o.get("update") {
            pool.push(member_from_recipe(r));
            ops.push(Op::Update(pool.len() - 1));
        } else if let Some(x) = o.get("value") {
            ops.push(Op::Value(x.as_u64().unwrap()));
        } else {
            ops.push(Op::Reset);
        }
    }
    let mut s = UState::new(lg_max_k);
    let mut e = BTreeMap::new();
    let mut log = String::new();
    for (i, op) in ops.iter().enumerate() {
        for (k, w) in s.apply(op, &pool, &mut e) {
            log.push_str(&format!("step {i} {:?}: VIOLATES {k}: {w}\n", op));
        }
    }
    log.push_str(&format!("final: lg_config_k={} estimate={}\n", s.u.lg_config_k(), s.u.estimate()));
    log
}

fn report(ctx: &Ctx, vs: Vec<(String, String)>, lg_max_k: u8, ops: &[Op], pool: &[Member]) -> bool {
    let mut new = false;
    for (k, w) in vs {
        new |= k.starts_with("panic|");
        new |= ctx.violation(&k, &format!("lg_max_k={lg_max_k}: {w}"), replay_json(lg_max_k, ops, pool));
    }
    new
}

pub type Observer = dyn Fn(&Ctx, &UState, &dyn Fn() -> Value) + Sync;
pub fn no_observer(_: &Ctx, _: &UState, _: &dyn Fn() -> Value) {}

pub fn explore(ctx: &Ctx, obs: &Observer) {
    let (lgs, lg_maxs): (Vec<u8>, Vec<u8>) = match ctx.tier {
        Tier::Quick => (vec![4, 5, 8, 10, 12], vec![4, 7, 8, 10, 12, 21]),
        Tier::Thorough => (vec![4, 5, 6, 7, 8, 9, 10, 12, 14], vec![4, 5, 7, 8, 9, 10, 12, 14, 21]),
    };
    let (lgs, lg_maxs) = if ctx.reduced { (vec![4u8, 8, 10], if ctx.tier == Tier::Quick { vec![8u8] } else { vec![4u8, 8, 12] }) } else { (lgs, lg_maxs) };
    let pool = build_pool(&lgs);
    ctx.count("pool members", pool.len() as u64);
    ctx.note(format!("pool: {}", pool.iter().map(|m| m.label.clone()).collect::<Vec<_>>().join(", ")));
    let edges = Mutex::new(BTreeMap::new());
    // depth 2 over the full pool: all ordered pairs, plus update_value/reset around them
    let n = pool.len();
    let jobs: Vec<(u8, usize)> = lg_maxs.iter().flat_map(|&l| (0..n).map(move |i| (l, i))).collect();
    jobs.par_iter().for_each(|&(lg_max_k, i)| {
        let mut e = BTreeMap::new();
        let mut s0 = UState::new(lg_max_k);
        let op0 = Op::Update(i);
        let vs = s0.apply(&op0, &pool, &mut e);
        ctx.add_transitions(1);
        ctx.add_states(1);
        if !vs.is_empty() && report(ctx, vs, lg_max_k, &[op0.clone()], &pool) {
            return;
        }
        obs(ctx, &s0, &|| replay_json(lg_max_k, &[op0.clone()], &pool));
        for j in 0..n {
            let mut s1 = s0.clone();
            let op1 = Op::Update(j);
            let vs = s1.apply(&op1, &pool, &mut e);
            ctx.add_transitions(1);
            ctx.add_states(1);
            if !vs.is_empty() && report(ctx, vs, lg_max_k, &[op0.clone(), op1.clone()], &pool) {
                continue;
            }
            obs(ctx, &s1, &|| replay_json(lg_max_k, &[op0.clone(), op1.clone()], &pool));
            // thorough: depth 3 over the full pool (every ordered triple), unobserved runs only
            if ctx.tier == Tier::Thorough && !ctx.reduced {
                for l in 0..n {
                    let mut s2 = s1.clone();
                    let op2 = Op::Update(l);
                    let vs = s2.apply(&op2, &pool, &mut e);
                    ctx.add_transitions(1);
                    ctx.add_states(1);
                    if !vs.is_empty() {
                        report(ctx, vs, lg_max_k, &[op0.clone(), op1.clone(), op2.clone()], &pool);
                    }
                }
            }
        }
        let mut g = edges.lock().unwrap();
        for (k, v) in e {
            *g.entry(k).or_insert(0) += v;
        }
    });
    // deeper BFS over a reduced pool (one member per cell), merged by reference content
    let pick = |pred: &dyn Fn(&Member) -> bool| pool.iter().position(|m| pred(m));
    let lo = lgs[0];
    let mid = lgs[1];
    let mut reduced: Vec<usize> = vec![];
    for f in [
        &(|m: &Member| m.lg_k == lo && m.label.contains("array(dense)/fresh") && m.label.contains("Hll4")) as &dyn Fn(&Member) -> bool,
        &|m: &Member| m.lg_k == lo && m.label.contains("array(exceptions)/ooo-via-union") && m.label.contains("Hll6"),
        &|m: &Member| m.lg_k == mid && m.label.contains("list(3)/fresh") && m.label.contains("Hll8"),
        &|m: &Member| m.lg_k == mid && m.label.contains("set(20)/fresh") && m.label.contains("Hll4"),
        &|m: &Member| m.lg_k == mid && m.label.contains("array(exceptions)/fresh") && m.label.contains("Hll4"),
        &|m: &Member| m.lg_k == mid && m.label.contains("array(dense)/ooo-via-image") && m.label.contains("Hll6"),
        &|m: &Member| m.lg_k == mid && m.label.contains("array(dense)/roundtrip") && m.label.contains("Hll8"),
        &|m: &Member| m.label.contains("empty/fresh") && m.label.contains("Hll8"),
    ] {
        if let Some(i) = pick(f) {
            reduced.push(i);
        }
    }
    let mut alphabet: Vec<Op> = reduced.iter().map(|&i| Op::Update(i)).collect();
    alphabet.extend([Op::Value(0), Op::Value(1), Op::Value(2), Op::Reset]);
    let depth = ctx.tier.pick(5, 7);
    lg_maxs.par_iter().for_each(|&lg_max_k| {
        let alphabet = &alphabet;
        let pool = &pool;
        let stats = engine::bfs(
            vec![(UState::new(lg_max_k), vec![])],
            alphabet,
            depth,
            300_000,
            |s: &UState, op: &Op, path: &[u16]| {
                let mut n = s.clone();
                let mut e = BTreeMap::new();
                let vs = n.apply(op, pool, &mut e);
                {
                    let mut g = edges.lock().unwrap();
                    for (k, v) in e {
                        *g.entry(k).or_insert(0) += v;
                    }
                }
                let ops = || -> Vec<Op> { path.iter().map(|&i| alphabet[i as usize].clone()).chain([op.clone()]).collect() };
                if !vs.is_empty() && report(ctx, vs, lg_max_k, &ops(), pool) {
                    return Step::Stop;
                }
                Step::Next(n)
            },
            |s: &UState| s.key(),
            |s: &UState| s.fingerprint(),
            |p0: &[u16], p1: &[u16]| {
                let a: Vec<Op> = p0.iter().map(|&i| alphabet[i as usize].clone()).collect();
                let b: Vec<Op> = p1.iter().map(|&i| alphabet[i as usize].clone()).collect();
                ctx.violation(
                    "union.order_dependence",
                    &format!("lg_max_k={lg_max_k}: the same multiset of inputs in two orders (or with repetition) gives different results"),
                    json!({"kind":"hll_union_two_orders","lg_max_k":lg_max_k,"a":replay_json(lg_max_k,&a,pool),"b":replay_json(lg_max_k,&b,pool)}),
                );
            },
            |s: &UState, path: &[u16]| {
                obs(ctx, s, &|| replay_json(lg_max_k, &path.iter().map(|&i| alphabet[i as usize].clone()).collect::<Vec<Op>>(), pool));
            },
        );
        ctx.add_states(stats.states);
        ctx.add_transitions(stats.transitions);
        ctx.count("E1 reduced-pool states", stats.states);
        ctx.count("E1 reduced-pool merged arrivals compared", stats.merged);
    });
    ctx.edges_merge(&edges.lock().unwrap());
}

pub fn run(ctx: &Ctx) -> i32 {
    explore(ctx, &no_observer);
    ctx.sample(json!({"depth2":{"lg_max_k":8,"ops":["update(lg10/Hll4/array(exceptions)/ooo-via-image)","update(lg4/Hll6/array(dense)/fresh)"],"oracle":"lg_config_k==min; to_sketch(4|6|8) registers == folded register-wise max; estimate+6 bounds identical across types and equal to the union's own; estimate>0; bounds ordered"}}));
    ctx.sample(json!({"bfs":{"lg_max_k":10,"alphabet":"8 pool members (one per gadget/source/lg cell) + update_value(0|1|2) + reset","merge":"by reference content; arrivals compared on registers/coupons"}}));
    let cov = json!({
        "exhaustive": true,
        "bounds": {
            "pool": "lg_k x {Hll4,Hll6,Hll8} x {empty, list(3), set(20), set(max) for lg_k>=10, array(dense), array(exceptions incl. 63,31,32)} x {fresh, serialize round trip, out-of-order via a previous union, out-of-order via a foreign image}",
            "depth2": "all ordered pairs of pool members for every lg_max_k (thorough: all ordered triples)",
            "bfs": "depth 5 (quick) / 7 (thorough) over a reduced pool of 8 + update_value x3 + reset",
        },
    });
    ctx.finish(
        cov,
        vec![
            "pool members are built through the coupon hook, so their contents are known exactly to the reference".into(),
            "results are read through HllSketch::verif_state of to_sketch(t)".into(),
        ],
    )
}
