//! `mcx replay <path>`: re-executes a recorded case on the real library without any
//! explorer, twice, and requires identical observations (determinism guard).

use serde_json::Value;

fn run_case(case: &Value) -> Result<String, String> {
    let kind = case["kind"].as_str().unwrap_or("");
    match kind {
        "hll_coupons" => Ok(crate::hllm::replay(case)),
        "cpc_pairs" => Ok(crate::cpcm::replay(case)),
        "theta_ops" => Ok(crate::thetam::replay(case)),
        "hll_union_ops" => Ok(crate::c03::replay(case)),
        "hll_union_two_orders" => Ok(format!("a:\n{}b:\n{}", crate::c03::replay(&case["a"]), crate::c03::replay(&case["b"]))),
        "cpc_union_ops" => Ok(crate::c06::replay(case)),
        "cpc_union_two_orders" => Ok(format!("a:\n{}b:\n{}", crate::c06::replay(&case["a"]), crate::c06::replay(&case["b"]))),
        "bytes" => Ok(crate::c14::replay(case)),
        "cm_ops" => Ok(crate::cmm::replay(case)),
        "cm_confidence" => Ok(crate::c08::replay_confidence(case)),
        "bloom_ops" => Ok(crate::bloomm::replay(case)),
        "bloom_item_shape" => Err("bloom_item_shape cases are self-describing (item, hashed bytes, configuration)".to_string()),
        "bloom_fpp" | "bloom_builder" => Ok(crate::c09::replay_e3(case)),
        "fi_ops" => Ok(crate::fim::replay(case)),
        "td_image" | "td_ops" | "td_tree" => Ok(crate::tdm::replay(case)),
        "hll_two_orders" => {
            let lg_k = case["lg_k"].clone();
            let start: Vec<Value> = case["start"].as_array().cloned().unwrap_or_default();
            let mut out = String::new();
            for ord in ["order_a", "order_b"] {
                let mut cs = start.clone();
                cs.extend(case[ord].as_array().cloned().unwrap_or_default());
                let c = serde_json::json!({"lg_k": lg_k, "coupons": cs});
                out.push_str(&format!("{ord}:\n{}", crate::hllm::replay(&c)));
            }
            Ok(out)
        }
        k => Err(format!("replay for case kind {k:?} is not implemented; the case file is self-describing")),
    }
}

pub fn run(path: &str) -> i32 {
    let txt = match std::fs::read_to_string(path) {
        Ok(t) => t,
        Err(e) => {
            eprintln!("machinery error: cannot read {path}: {e}");
            return 2;
        }
    };
    let v: Value = match serde_json::from_str(&txt) {
        Ok(v) => v,
        Err(e) => {
            eprintln!("machinery error: cannot parse {path}: {e}");
            return 2;
        }
    };
    println!("replaying property={} key={}", v["property"], v["key"]);
    println!("recorded: {}", v["what"]);
    let a = run_case(&v["case"]);
    let b = run_case(&v["case"]);
    match (a, b) {
        (Ok(a), Ok(b)) => {
            if a != b {
                eprintln!("machinery error: replay is not deterministic:\n--- first\n{a}\n--- second\n{b}");
                return 2;
            }
            print!("{a}");
            if a.contains("VIOLATES") {
                println!("VIOLATION property={} replay={}", v["property"].as_str().unwrap_or("?"), path);
                1
            } else {
                println!("replay: no violation observed on the current tree");
                0
            }
        }
        (Err(e), _) | (_, Err(e)) => {
            eprintln!("{e}");
            2
        }
    }
}
