//! One-shot reference hashes written from the published algorithms
//! (Appleby's MurmurHash3_x64_128 with a 64-bit seed as used by DataSketches, and
//! Collet's XXH64), independent of /repo. Self-tested against published vectors.

fn rd64(b: &[u8]) -> u64 {
    u64::from_le_bytes([b[0], b[1], b[2], b[3], b[4], b[5], b[6], b[7]])
}
fn rd32(b: &[u8]) -> u32 {
    u32::from_le_bytes([b[0], b[1], b[2], b[3]])
}

fn fmix64(mut k: u64) -> u64 {
    k ^= k >> 33;
    k = k.wrapping_mul(0xff51afd7ed558ccd);
    k ^= k >> 33;
    k = k.wrapping_mul(0xc4ceb9fe1a85ec53);
    k ^= k >> 33;
    k
}

/// MurmurHash3_x64_128(key, len, seed) -> (h1, h2); both lanes start at `seed`.
pub fn murmur3_x64_128(data: &[u8], seed: u64) -> (u64, u64) {
    const C1: u64 = 0x87c37b91114253d5;
    const C2: u64 = 0x4cf5ad432745937f;
    let len = data.len();
    let nblocks = len / 16;
    let mut h1 = seed;
    let mut h2 = seed;
    for i in 0..nblocks {
        let mut k1 = rd64(&data[i * 16..]);
        let mut k2 = rd64(&data[i * 16 + 8..]);
        k1 = k1.wrapping_mul(C1);
        k1 = k1.rotate_left(31);
        k1 = k1.wrapping_mul(C2);
        h1 ^= k1;
        h1 = h1.rotate_left(27);
        h1 = h1.wrapping_add(h2);
        h1 = h1.wrapping_mul(5).wrapping_add(0x52dce729);
        k2 = k2.wrapping_mul(C2);
        k2 = k2.rotate_left(33);
        k2 = k2.wrapping_mul(C1);
        h2 ^= k2;
        h2 = h2.rotate_left(31);
        h2 = h2.wrapping_add(h1);
        h2 = h2.wrapping_mul(5).wrapping_add(0x38495ab5);
    }
    let tail = &data[nblocks * 16..];
    let mut k1 = 0u64;
    let mut k2 = 0u64;
    let t = len & 15;
    // the reference `switch` with fallthrough, written out
    if t >= 15 { k2 ^= (tail[14] as u64) << 48; }
    if t >= 14 { k2 ^= (tail[13] as u64) << 40; }
    if t >= 13 { k2 ^= (tail[12] as u64) << 32; }
    if t >= 12 { k2 ^= (tail[11] as u64) << 24; }
    if t >= 11 { k2 ^= (tail[10] as u64) << 16; }
    if t >= 10 { k2 ^= (tail[9] as u64) << 8; }
    if t >= 9 {
        k2 ^= tail[8] as u64;
        k2 = k2.wrapping_mul(C2);
        k2 = k2.rotate_left(33);
        k2 = k2.wrapping_mul(C1);
        h2 ^= k2;
    }
    if t >= 8 { k1 ^= (tail[7] as u64) << 56; }
    if t >= 7 { k1 ^= (tail[6] as u64) << 48; }
    if t >= 6 { k1 ^= (tail[5] as u64) << 40; }
    if t >= 5 { k1 ^= (tail[4] as u64) << 32; }
    if t >= 4 { k1 ^= (tail[3] as u64) << 24; }
    if t >= 3 { k1 ^= (tail[2] as u64) << 16; }
    if t >= 2 { k1 ^= (tail[1] as u64) << 8; }
    if t >= 1 {
        k1 ^= tail[0] as u64;
        k1 = k1.wrapping_mul(C1);
        k1 = k1.rotate_left(31);
        k1 = k1.wrapping_mul(C2);
        h1 ^= k1;
    }
    h1 ^= len as u64;
    h2 ^= len as u64;
    h1 = h1.wrapping_add(h2);
    h2 = h2.wrapping_add(h1);
    h1 = fmix64(h1);
    h2 = fmix64(h2);
    h1 = h1.wrapping_add(h2);
    h2 = h2.wrapping_add(h1);
    (h1, h2)
}

fn inv64(a: u64) -> u64 {
    // multiplicative inverse of an odd number modulo 2^64 (Newton iteration)
    let mut x = a;
    for _ in 0..6 {
        x = x.wrapping_mul(2u64.wrapping_sub(a.wrapping_mul(x)));
    }
    x
}

fn unfmix64(mut k: u64) -> u64 {
    k ^= k >> 33;
    k = k.wrapping_mul(inv64(0xc4ceb9fe1a85ec53));
    k ^= k >> 33;
    k = k.wrapping_mul(inv64(0xff51afd7ed558ccd));
    k ^= k >> 33;
    k
}

/// The 16-byte input whose MurmurHash3_x64_128 digest under `seed` is exactly `(h1, h2)`
/// (the one-block algorithm is a bijection). Verified by hashing it forward.
pub fn murmur3_preimage16(h1: u64, h2: u64, seed: u64) -> [u8; 16] {
    const C1: u64 = 0x87c37b91114253d5;
    const C2: u64 = 0x4cf5ad432745937f;
    // undo the final additions and the finalization mix
    let f2 = h2.wrapping_sub(h1);
    let f1 = h1.wrapping_sub(f2);
    let b1 = unfmix64(f1);
    let b2 = unfmix64(f2);
    // undo h1 += h2; h2 += h1 and the length xor
    let g2 = b2.wrapping_sub(b1);
    let g1 = b1.wrapping_sub(g2);
    let e1 = g1 ^ 16;
    let e2 = g2 ^ 16;
    // undo the block: h2 = (rotl(seed ^ k2', 31) + h1) * 5 + c
    let m2 = e2.wrapping_sub(0x38495ab5).wrapping_mul(inv64(5)).wrapping_sub(e1).rotate_right(31);
    let k2p = m2 ^ seed;
    let k2 = k2p.wrapping_mul(inv64(C1)).rotate_right(33).wrapping_mul(inv64(C2));
    // h1 = (rotl(seed ^ k1', 27) + seed) * 5 + c
    let m1 = e1.wrapping_sub(0x52dce729).wrapping_mul(inv64(5)).wrapping_sub(seed).rotate_right(27);
    let k1p = m1 ^ seed;
    let k1 = k1p.wrapping_mul(inv64(C2)).rotate_right(31).wrapping_mul(inv64(C1));
    let mut out = [0u8; 16];
    out[..8].copy_from_slice(&k1.to_le_bytes());
    out[8..].copy_from_slice(&k2.to_le_bytes());
    assert_eq!(murmur3_x64_128(&out, seed), (h1, h2), "preimage construction is wrong");
    out
}

const P1: u64 = 11400714785074694791;
const P2: u64 = 14029467366897019727;
const P3: u64 = 1609587929392839161;
const P4: u64 = 9650029242287828579;
const P5: u64 = 2870177450012600261;

fn xxh_round(acc: u64, input: u64) -> u64 {
    acc.wrapping_add(input.wrapping_mul(P2))
        .rotate_left(31)
        .wrapping_mul(P1)
}
fn xxh_merge(acc: u64, val: u64) -> u64 {
    (acc ^ xxh_round(0, val)).wrapping_mul(P1).wrapping_add(P4)
}

/// XXH64(data, seed).
pub fn xxh64(data: &[u8], seed: u64) -> u64 {
    let len = data.len();
    let mut p = 0usize;
    let mut h: u64;
    if len >= 32 {
        let mut v1 = seed.wrapping_add(P1).wrapping_add(P2);
        let mut v2 = seed.wrapping_add(P2);
        let mut v3 = seed;
        let mut v4 = seed.wrapping_sub(P1);
        while p + 32 <= len {
            v1 = xxh_round(v1, rd64(&data[p..]));
            v2 = xxh_round(v2, rd64(&data[p + 8..]));
            v3 = xxh_round(v3, rd64(&data[p + 16..]));
            v4 = xxh_round(v4, rd64(&data[p + 24..]));
            p += 32;
        }
        h = v1
            .rotate_left(1)
            .wrapping_add(v2.rotate_left(7))
            .wrapping_add(v3.rotate_left(12))
            .wrapping_add(v4.rotate_left(18));
        h = xxh_merge(h, v1);
        h = xxh_merge(h, v2);
        h = xxh_merge(h, v3);
        h = xxh_merge(h, v4);
    } else {
        h = seed.wrapping_add(P5);
    }
    h = h.wrapping_add(len as u64);
    while p + 8 <= len {
        let k1 = xxh_round(0, rd64(&data[p..]));
        h ^= k1;
        h = h.rotate_left(27).wrapping_mul(P1).wrapping_add(P4);
        p += 8;
    }
    if p + 4 <= len {
        h ^= (rd32(&data[p..]) as u64).wrapping_mul(P1);
        h = h.rotate_left(23).wrapping_mul(P2).wrapping_add(P3);
        p += 4;
    }
    while p < len {
        h ^= (data[p] as u64).wrapping_mul(P5);
        h = h.rotate_left(11).wrapping_mul(P1);
        p += 1;
    }
    h ^= h >> 33;
    h = h.wrapping_mul(P2);
    h ^= h >> 29;
    h = h.wrapping_mul(P3);
    h ^= h >> 32;
    h
}

/// Published vectors; returns a description of the first mismatch, if any.
pub fn self_test() -> Result<usize, String> {
    let mut n = 0;
    // MurmurHash3 x64 128, seed 0 (vectors widely published, e.g. Guava / DataSketches tests)
    let fox = b"The quick brown fox jumps over the lazy dog";
    let v = murmur3_x64_128(fox, 0);
    if v != (0xe34bbc7bbc071b6c, 0x7a433ca9c49a9347) {
        return Err(format!("murmur fox: {:x?}", v));
    }
    n += 1;
    let v = murmur3_x64_128(b"", 0);
    if v != (0, 0) {
        return Err(format!("murmur empty: {:x?}", v));
    }
    n += 1;
    // SMHasher-style check: "hello" seed 0 -> cbd8a7b341bd9b02 5b1e906a48ae1d19
    let v = murmur3_x64_128(b"hello", 0);
    if v != (0xcbd8a7b341bd9b02, 0x5b1e906a48ae1d19) {
        return Err(format!("murmur hello: {:x?}", v));
    }
    n += 1;
    // XXH64 published vectors
    let cases: [(&[u8], u64, u64); 4] = [
        (b"", 0, 0xEF46DB3751D8E999),
        (b"a", 0, 0xD24EC4F1A98C6E5B),
        (b"abc", 0, 0x44BC2CF5AD770999),
        (b"Nobody inspects the spammish repetition", 0, 0xFBCEA83C8A378BF1),
    ];
    for (d, s, want) in cases {
        let got = xxh64(d, s);
        if got != want {
            return Err(format!("xxh64({:?},{s}) = {:x}, want {:x}", d, got, want));
        }
        n += 1;
    }
    // XXH sanity buffer (xxhash's own self-test): PRIME32-generated bytes.
    let mut buf = vec![0u8; 2367];
    let mut gen_: u64 = 2654435761;
    for b in buf.iter_mut() {
        *b = (gen_ >> 56) as u8;
        gen_ = gen_.wrapping_mul(11400714785074694797);
    }
    let sane: [(usize, u64, u64); 6] = [
        (0, 0, 0xEF46DB3751D8E999),
        (0, 2654435761, 0xAC75FDA2929B17EF),
        (1, 0, 0xE934A84ADB052768),
        (1, 2654435761, 0x5014607643A9B4C3),
        (14, 0, 0x8282DCC4994E35C8),
        (222, 0, 0xB641AE8CB691C174),
    ];
    for (len, seed, want) in sane {
        let got = xxh64(&buf[..len], seed);
        if got != want {
            return Err(format!("xxh64 sanity len={len} seed={seed}: {:x} want {:x}", got, want));
        }
        n += 1;
    }
    Ok(n)
}
