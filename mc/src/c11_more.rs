//! C11 for the hook-less families (Bloom, Count-Min, Frequent Items, t-digest): attached
//! when those explorers are merged in.
use crate::common::Ctx;
pub fn run(_ctx: &Ctx) {}
