#!/bin/bash
# usage: bin/seeded.sh <seeded-id> [check ...]
# Applies /verif/seeded/<id>/patch.diff to /repo, runs the given quick checks (default: the
# checks listed in meta.json "checks"), prints which of them report a VIOLATION, and undoes
# the change. /repo must be clean before.
set -u
id=$1; shift
dir=/verif/seeded/$id
[ -f "$dir/patch.diff" ] || { echo "no $dir/patch.diff" >&2; exit 2; }
if [ -n "$(git -C /repo status --porcelain)" ]; then echo "/repo is not clean" >&2; exit 2; fi
checks="$*"
if [ -z "$checks" ]; then checks=$(python3 -c "import json,sys; print(' '.join(json.load(open('$dir/meta.json')).get('checks',[])))"); fi
git -C /repo apply "$dir/patch.diff" || { echo "patch does not apply" >&2; exit 2; }
trap 'git -C /repo checkout -- . ; (cd /verif/mc && cargo build --release --offline >/dev/null 2>&1; cargo build --profile chk --offline >/dev/null 2>&1)' EXIT
for c in $checks; do
  out=$(/verif/bin/check $c --tier quick 2>&1); code=$?
  keys=$(echo "$out" | grep -E "^  key:" | sed 's/^  key: //' | head -4 | tr '\n' ';')
  if echo "$out" | grep -q "^VIOLATION"; then echo "$id $c CAUGHT exit=$code keys: $keys"; else echo "$id $c MISSED exit=$code $(echo "$out" | tail -1 | cut -c1-120)"; fi
done
