//! Independent CPC payload decompressor, written from the algorithm description (FM85 /
//! CPC compression: Huffman-coded window bytes per pseudo-phase, pairs as length-limited-unary
//! x-delta + Golomb y-delta, Pinned pairs shifted by 8 columns, Sliding pairs rotated and
//! permuted by phase). It shares NO code with the library's reader. The code TABLES cannot be
//! re-derived offline: the ENCODING tables are obtained through the hook
//! `datasketches::cpc::verif_cpc_tables()` and are a trusted input whose self-consistency is
//! checked (prefix-free, <= 12 bits, permutations are bijections).

use crate::obs::CpcPreamble;
use std::sync::OnceLock;

struct Tables {
    /// for each pseudo-phase: (code, len) -> byte, as a 4096-entry peek table built from the
    /// ENCODING table by this module
    byte_dec: Vec<Vec<(u8, u8)>>,
    /// x-delta: 4096-entry peek table
    unary_dec: Vec<(u8, u8)>,
    /// inverse of the encoding column permutation per phase
    perm_inv: Vec<[u8; 56]>,
    /// x-delta encoding table: (code, length) per symbol
    unary_codes: Vec<(u16, u8)>,
    pub problems: Vec<String>,
}

fn build_peek(codes: &[(u16, u8)], what: &str, problems: &mut Vec<String>) -> Vec<(u8, u8)> {
    // codes[sym] = (code value, code length); bits are emitted LSB first
    let mut t = vec![(0u8, 0u8); 4096];
    let mut filled = vec![false; 4096];
    for (sym, &(code, len)) in codes.iter().enumerate() {
        if len == 0 || len > 12 {
            problems.push(format!("{what}: symbol {sym} has code length {len}"));
            continue;
        }
        if (code as u32) >> len != 0 {
            problems.push(format!("{what}: symbol {sym} code {code:#x} wider than its length {len}"));
        }
        let step = 1usize << len;
        let mut i = code as usize;
        while i < 4096 {
            if filled[i] {
                problems.push(format!("{what}: codes are not prefix-free (symbol {sym})"));
                break;
            }
            filled[i] = true;
            t[i] = (sym as u8, len);
            i += step;
        }
    }
    if filled.iter().any(|f| !f) {
        problems.push(format!("{what}: code is not complete (some 12-bit peeks decode to nothing)"));
    }
    t
}

fn tables() -> &'static Tables {
    static T: OnceLock<Tables> = OnceLock::new();
    T.get_or_init(|| {
        let (unary, bytes, perms) = datasketches::cpc::verif_cpc_tables();
        let mut problems = vec![];
        let split = |v: u16| -> (u16, u8) { (v & 0xfff, (v >> 12) as u8) };
        let unary_codes: Vec<(u16, u8)> = unary.iter().map(|&v| split(v)).collect();
        let unary_dec = build_peek(&unary_codes, "length-limited unary table", &mut problems);
        let mut byte_dec = vec![];
        for (ph, tab) in bytes.iter().enumerate() {
            let codes: Vec<(u16, u8)> = tab.iter().map(|&v| split(v)).collect();
            byte_dec.push(build_peek(&codes, &format!("byte table {ph}"), &mut problems));
        }
        let mut perm_inv = vec![];
        for (ph, p) in perms.iter().enumerate() {
            let mut inv = [255u8; 56];
            for (i, &c) in p.iter().enumerate() {
                if c as usize >= 56 || inv[c as usize] != 255 {
                    problems.push(format!("column permutation {ph} is not a bijection on 0..56"));
                } else {
                    inv[c as usize] = i as u8;
                }
            }
            perm_inv.push(inv);
        }
        Tables { byte_dec, unary_dec, perm_inv, unary_codes, problems }
    })
}

/// Encodes a pair stream exactly as `decode_pairs` reads it (x-delta through the length-limited
/// unary table, y-delta as Golomb code with the base chosen from (k, number of pairs)). The
/// pairs are taken in the given order; a pair that cannot follow its predecessor (row going
/// down, or a column below the predicted one in the same row) makes the stream unencodable.
/// Used by C14 to craft images whose DECODED pairs take chosen values (columns 56..63, rows
/// at and beyond k, the reserved value u32::MAX), which byte-level mutations rarely reach.
pub fn encode_pairs(pairs: &[(u32, u8)], lg_k: u8) -> Option<Vec<u8>> {
    let t = tables();
    if !t.problems.is_empty() || pairs.is_empty() {
        return None;
    }
    let k = 1u64 << lg_k;
    let b = golomb_base_bits(k, pairs.len() as u64);
    let mut bits: Vec<bool> = vec![];
    let mut put = |v: u64, n: u8| {
        for i in 0..n {
            bits.push((v >> i) & 1 == 1);
        }
    };
    let mut row = 0u64;
    let mut col_pred = 0u32;
    for &(r, c) in pairs {
        let r = r as u64;
        if r < row {
            return None;
        }
        let yd = r - row;
        if yd > 0 {
            col_pred = 0;
        }
        if (c as u32) < col_pred {
            return None;
        }
        let xd = (c as u32 - col_pred) as usize;
        let &(code, len) = t.unary_codes.get(xd)?;
        put(code as u64, len);
        let hi = yd >> b;
        if hi > 4096 {
            return None;
        }
        for _ in 0..hi {
            put(0, 1);
        }
        put(1, 1);
        put(yd & ((1u64 << b) - 1), b);
        row = r;
        col_pred = c as u32 + 1;
    }
    // pad to whole 32-bit words (plus one spare word the readers may peek into)
    let mut bytes = vec![0u8; bits.len().div_ceil(32) * 4];
    for (i, &bit) in bits.iter().enumerate() {
        if bit {
            bytes[i / 8] |= 1 << (i % 8);
        }
    }
    Some(bytes)
}

pub fn table_problems() -> Vec<String> {
    tables().problems.clone()
}

struct Bits<'a> {
    words: Vec<u32>,
    pos: usize,
    _p: std::marker::PhantomData<&'a ()>,
}

impl Bits<'_> {
    fn new(b: &[u8]) -> Self {
        Bits { words: b.chunks(4).map(|c| u32::from_le_bytes([c[0], *c.get(1).unwrap_or(&0), *c.get(2).unwrap_or(&0), *c.get(3).unwrap_or(&0)])).collect(), pos: 0, _p: std::marker::PhantomData }
    }
    fn bit(&self, i: usize) -> Option<u32> {
        self.words.get(i / 32).map(|w| (w >> (i % 32)) & 1)
    }
    /// next 12 bits (missing bits beyond the stream read as zero, like the writer's padding)
    fn peek12(&self) -> u32 {
        let mut v = 0;
        for i in 0..12 {
            v |= self.bit(self.pos + i).unwrap_or(0) << i;
        }
        v
    }
    fn take(&mut self, n: u8) -> Result<u64, String> {
        let mut v = 0u64;
        for i in 0..n as usize {
            v |= (self.bit(self.pos + i).ok_or("pair stream ends early")? as u64) << i;
        }
        self.pos += n as usize;
        Ok(v)
    }
    fn unary(&mut self) -> Result<u64, String> {
        let mut n = 0;
        loop {
            match self.bit(self.pos) {
                None => return Err("pair stream ends inside a unary code".into()),
                Some(1) => {
                    self.pos += 1;
                    return Ok(n);
                }
                Some(_) => {
                    n += 1;
                    self.pos += 1;
                }
            }
        }
    }
}

/// Pseudo-phase from the documented thresholds (in exact integer arithmetic).
fn pseudo_phase(lg_k: u8, c: u64) -> usize {
    let k = 1u64 << lg_k;
    if 1000 * c < 2375 * k {
        if 4 * c < 3 * k {
            16
        } else if 10 * c < 11 * k {
            17
        } else if 100 * c < 132 * k {
            18
        } else if 3 * c < 5 * k {
            19
        } else if 1000 * c < 1965 * k {
            20
        } else if 1000 * c < 2275 * k {
            21
        } else {
            6
        }
    } else {
        ((c >> (lg_k - 4)) & 15) as usize
    }
}

fn golomb_base_bits(k: u64, pairs: u64) -> u8 {
    // floor(log2((k + pairs - pairs) / pairs)) = floor(log2(k / pairs)), 0 when the quotient is 0
    let q = k / pairs;
    if q == 0 { 0 } else { 63 - q.leading_zeros() as u8 }
}

fn decode_pairs(stream: &[u8], num_pairs: usize, lg_k: u8) -> Result<Vec<(u32, u8)>, String> {
    let t = tables();
    let k = 1u64 << lg_k;
    let b = golomb_base_bits(k, num_pairs as u64);
    let mut bits = Bits::new(stream);
    let mut out = Vec::with_capacity(num_pairs);
    let mut row = 0u64;
    let mut col_pred = 0u32;
    for _ in 0..num_pairs {
        let (xd, len) = t.unary_dec[bits.peek12() as usize];
        bits.pos += len as usize;
        let hi = bits.unary()?;
        let lo = bits.take(b)?;
        let yd = (hi << b) | lo;
        if yd > 0 {
            col_pred = 0;
        }
        row += yd;
        let col = col_pred + xd as u32;
        if row >= k || col > 63 {
            return Err(format!("pair (row {row}, col {col}) outside the matrix"));
        }
        out.push((row as u32, col as u8));
        col_pred = col + 1;
    }
    Ok(out)
}

fn decode_window(stream: &[u8], lg_k: u8, phase: usize) -> Vec<u8> {
    let t = tables();
    let mut bits = Bits::new(stream);
    let k = 1usize << lg_k;
    let mut w = Vec::with_capacity(k);
    for _ in 0..k {
        let (byte, len) = t.byte_dec[phase][bits.peek12() as usize];
        bits.pos += len as usize;
        w.push(byte);
    }
    w
}

/// Rebuilds the k x 64 bit matrix from the image alone.
pub fn decode_matrix(img: &[u8], p: &CpcPreamble) -> Option<Result<Vec<u64>, String>> {
    if !tables().problems.is_empty() {
        return Some(Err(format!("CPC tables are not self-consistent: {}", tables().problems[0])));
    }
    Some(decode_inner(img, p))
}

fn decode_inner(img: &[u8], p: &CpcPreamble) -> Result<Vec<u64>, String> {
    let lg_k = p.lg_k;
    let k = 1usize << lg_k;
    let c = p.num_coupons as u64;
    let mut m = vec![0u64; k];
    let has_sv = p.flags & 8 != 0;
    let has_w = p.flags & 16 != 0;
    if !has_sv && !has_w {
        return if c == 0 { Ok(m) } else { Err("no sections but a non-zero coupon count".into()) };
    }
    let wbytes = img.get(p.w_off..p.w_off + 4 * p.w_len_ints as usize).ok_or("window stream outside the image")?;
    let svbytes = img.get(p.sv_off..p.sv_off + 4 * p.sv_len_ints as usize).ok_or("pair stream outside the image")?;
    if !has_w {
        // Sparse or Hybrid: every coupon is a pair
        let pairs = decode_pairs(svbytes, c as usize, lg_k)?;
        for (r, col) in pairs {
            if m[r as usize] >> col & 1 == 1 {
                return Err("duplicate pair".into());
            }
            m[r as usize] |= 1 << col;
        }
        return Ok(m);
    }
    // Pinned or Sliding: window at the offset implied by the coupon count
    let kk = k as i64;
    let tmp = 8 * c as i64 - 19 * kk;
    let offset = if tmp < 0 { 0 } else { (tmp >> (lg_k + 3)) as u32 };
    let phase = pseudo_phase(lg_k, c);
    let window = decode_window(wbytes, lg_k, phase);
    // default: early zone all ones
    let early = if offset == 0 { 0 } else { (1u64 << offset) - 1 };
    for (r, w) in window.iter().enumerate() {
        m[r] = early | ((*w as u64) << offset);
    }
    if has_sv {
        let pairs = decode_pairs(svbytes, p.num_sv as usize, lg_k)?;
        for (r, col) in pairs {
            let col = if offset == 0 {
                // Pinned: columns were shifted down by 8
                if col >= 56 {
                    return Err("pinned pair column >= 56".into());
                }
                col + 8
            } else {
                // Sliding: undo the phase permutation, then the rotation by offset+8
                if col >= 56 {
                    return Err("sliding pair column >= 56".into());
                }
                let un = tables().perm_inv[phase & 15][col as usize];
                ((un as u32 + offset + 8) & 63) as u8
            };
            // a pair flips the default of its cell: 0 in the early zone, 1 beyond the window
            if (col as u32) >= offset && (col as u32) < offset + 8 {
                return Err("pair inside the window".into());
            }
            m[r as usize] ^= 1 << col;
        }
    }
    Ok(m)
}
