//! C18 for Frequent Items (num_active_items <= maximum_map_capacity, image size) and t-digest
//! image size, in every state of their explorations.
use crate::common::Ctx;
use crate::obs;
use rayon::prelude::*;

pub fn run(ctx: &Ctx) {
    let jobs: Vec<Box<dyn Fn() + Sync + Send>> = vec![
        Box::new(|| crate::c07::explore(ctx, &obs::fi_spec)),
        Box::new(|| crate::c10::explore(ctx, &obs::td_spec)),
    ];
    jobs.par_iter().for_each(|j| j());
}
