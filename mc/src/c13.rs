//! C13 — every image variant Java/C++ can emit is read back to the state it encodes.
//! Finite-domain enumeration: the complete product of format variants x small abstract
//! states goes through the harness's independent spec ENCODER and then the real deserialize.

use crate::common::{Ctx, Tier, catch, hex};
use crate::hllm::{self, RefHll, coupon};
use crate::spec_hll::{self, EncOpts, HllBody};
use crate::spec_misc::{self, FiItems, MAX_THETA};
use datasketches::bloom::BloomFilter;
use datasketches::countmin::CountMinSketch;
use datasketches::frequencies::FrequentItemsSketch;
use datasketches::hll::{HllSketch, HllType, HllUnion};
use datasketches::theta::CompactThetaSketch;
use rayon::prelude::*;
use serde_json::{Value, json};
use std::collections::BTreeSet;

fn ty(t: u8) -> HllType {
    match t {
        4 => HllType::Hll4,
        6 => HllType::Hll6,
        _ => HllType::Hll8,
    }
}

fn vio(ctx: &Ctx, key: &str, what: &str, variant: &Value, img: &[u8]) {
    let mut v = variant.clone();
    v["kind"] = json!("image");
    if img.len() <= 8192 {
        v["image_hex"] = json!(hex(img));
    }
    ctx.violation(key, what, v);
}

// ----------------------------------------------------------------------------------- HLL

fn hll_coupon_case(ctx: &Ctx, lg_k: u8, tgt: u8, set_mode: bool, coupons: &[u32], o: EncOpts) -> u64 {
    let img = if set_mode { spec_hll::encode_set(lg_k, tgt, coupons, o) } else { spec_hll::encode_list(lg_k, tgt, coupons, o) };
    let variant = json!({"family":"hll","mode": if set_mode {"set"} else {"list"},"lg_k":lg_k,"tgt":tgt,"n":coupons.len(),"compact":o.compact,"lg_arr":o.lg_arr,"extra_flags":o.extra_flags});
    let tag = format!("hll.{}.{}", if set_mode { "set" } else { "list" }, if o.compact { "compact" } else { "updatable" });
    let d = match catch(|| HllSketch::deserialize(&img)) {
        Err(p) => {
            vio(ctx, &format!("panic|{}", p.site_key()), &format!("deserialize panicked: {} at {}:{}", p.message, p.file, p.line), &variant, &img);
            return 1;
        }
        Ok(Err(e)) => {
            vio(ctx, &format!("{tag}.rejected"), &format!("valid image rejected: {e}"), &variant, &img);
            return 1;
        }
        Ok(Ok(d)) => d,
    };
    let r = RefHll { coupons: coupons.iter().copied().collect() };
    let st = d.verif_state();
    let mut bad: Vec<(String, String)> = vec![];
    if st.mode >= 2 {
        bad.push((format!("{tag}.mode"), "restored in array mode".into()));
    } else {
        for (k, w) in hllm::check_state(&st, &r, lg_k) {
            bad.push((format!("{tag}.{k}"), w));
        }
    }
    if st.tgt != tgt || d.lg_config_k() != lg_k {
        bad.push((format!("{tag}.header"), format!("lg_k/type {}/{}", d.lg_config_k(), st.tgt)));
    }
    if d.is_empty() != coupons.is_empty() {
        bad.push((format!("{tag}.is_empty"), format!("is_empty {} for {} coupons", d.is_empty(), coupons.len())));
    }
    // same estimate as the same coupon set built in process
    let mut fresh = HllSketch::new(lg_k, ty(tgt));
    for &c in coupons {
        fresh.verif_update_with_coupon(c);
    }
    if fresh.verif_state().mode < 2 && hllm::obs_est(&fresh) != hllm::obs_est(&d) {
        bad.push((format!("{tag}.estimate"), format!("estimate {} but the same coupons built in process give {}", d.estimate(), fresh.estimate())));
    }
    // behaves as the state requires: further updates and a union
    if bad.is_empty() {
        for c in [coupon(12345, 3), coupons.first().copied().unwrap_or(coupon(1, 1)), coupon(77, 20)] {
            let mut a = fresh.clone();
            let mut b = d.clone();
            let ra = catch(|| a.verif_update_with_coupon(c));
            let rb = catch(|| b.verif_update_with_coupon(c));
            if let Err(p) = &rb {
                if ra.is_ok() {
                    bad.push((format!("panic|{}", p.site_key()), format!("update after deserialize panicked: {}", p.message)));
                    continue;
                }
            }
            let mut rr = r.clone();
            rr.offer(c);
            let bst = b.verif_state();
            let errs = hllm::check_state(&bst, &rr, lg_k);
            if !errs.is_empty() || hllm::obs_est(&a) != hllm::obs_est(&b) {
                bad.push((format!("{tag}.continuation"), format!("after one more coupon {c:#x}: {}", errs.first().map(|e| e.1.clone()).unwrap_or_else(|| format!("estimate {} vs in-process {}", b.estimate(), a.estimate())))));
            }
        }
        // every stored coupon offered again is found where the foreign writer put it: nothing changes
        {
            let mut b = d.clone();
            let mut dead = false;
            for &c in coupons {
                if let Err(p) = catch(|| b.verif_update_with_coupon(c)) {
                    bad.push((format!("panic|{}", p.site_key()), format!("re-offering a stored coupon panicked: {}", p.message)));
                    dead = true;
                    break;
                }
            }
            if !dead {
                let errs = hllm::check_state(&b.verif_state(), &r, lg_k);
                if !errs.is_empty() || hllm::obs_est(&b) != hllm::obs_est(&d) {
                    bad.push((format!("{tag}.reoffer"), format!("after re-offering the {} stored coupons: {}", coupons.len(), errs.first().map(|e| e.1.clone()).unwrap_or_else(|| format!("estimate {} -> {}", d.estimate(), b.estimate())))));
                }
            }
        }
        // long drive: through every promotion still ahead (list -> set -> array, set growth),
        // full oracle at the end
        if lg_k <= 12 {
            let n = ((1u64 << lg_k.max(8)) / 8 + 48).min(700);
            let mut b = d.clone();
            let mut rr = r.clone();
            let mut dead = false;
            for i in 0..n {
                let c = crate::c03::value_coupon(0xfeed_0000 + i);
                if let Err(p) = catch(|| b.verif_update_with_coupon(c)) {
                    bad.push((format!("panic|{}", p.site_key()), format!("long drive after deserialize panicked at step {i}: {} at {}:{}", p.message, p.file, p.line)));
                    dead = true;
                    break;
                }
                rr.offer(c);
            }
            if !dead {
                let errs = hllm::check_state(&b.verif_state(), &rr, lg_k);
                if !errs.is_empty() {
                    bad.push((format!("{tag}.long_continuation"), format!("after {n} more coupons: {}", errs[0].1)));
                }
            }
        }
        let mut u = HllUnion::new(lg_k.max(5));
        u.update(&d);
        u.update_value(1u64);
        let mut rr = r.clone();
        rr.offer(crate::c03::value_coupon(1));
        let us = u.to_sketch(HllType::Hll8).verif_state();
        let errs = hllm::check_state(&us, &rr, lg_k.max(5));
        if !errs.is_empty() {
            bad.push((format!("{tag}.union"), errs[0].1.clone()));
        }
        // re-serialization decodes to the same abstract state
        match spec_hll::decode(&d.serialize()) {
            Ok(im) => {
                let got: BTreeSet<u32> = match &im.body {
                    HllBody::List { coupons } | HllBody::Set { coupons } => coupons.iter().copied().collect(),
                    _ => BTreeSet::new(),
                };
                if got != r.coupons {
                    bad.push((format!("{tag}.reserialize"), "re-serialized image decodes to a different coupon set".into()));
                }
            }
            Err(e) => bad.push((format!("{tag}.reserialize"), format!("re-serialized image undecodable: {e}"))),
        }
    }
    for (k, w) in bad {
        vio(ctx, &k, &w, &variant, &img);
    }
    1
}

fn hll_array_case(ctx: &Ctx, lg_k: u8, tgt: u8, regs: &[u8], cur_min: u8, o: EncOpts, pname: &str) -> u64 {
    let cur_min = if tgt == 4 { regs.iter().copied().min().unwrap_or(0) } else { cur_min };
    let (a, b) = hllm::kxq_of(regs);
    // an in-order image carries a HIP value; use a recognisable one
    let hip = if o.ooo { 0.0 } else { 1234.5 };
    let img = spec_hll::encode_array(lg_k, tgt, regs, cur_min, hip, a, b, o);
    let variant = json!({"family":"hll","mode":"array","lg_k":lg_k,"tgt":tgt,"registers":pname,"cur_min":cur_min,"compact":o.compact,"ooo":o.ooo,"lg_aux_arr":o.lg_arr,"extra_flags":o.extra_flags});
    let tag = format!("hll{tgt}.array.{}", if o.compact { "compact" } else { "updatable" });
    let d = match catch(|| HllSketch::deserialize(&img)) {
        Err(p) => {
            vio(ctx, &format!("panic|{}", p.site_key()), &format!("deserialize panicked: {} at {}:{}", p.message, p.file, p.line), &variant, &img);
            return 1;
        }
        Ok(Err(e)) => {
            vio(ctx, &format!("{tag}.rejected"), &format!("valid image rejected: {e}"), &variant, &img);
            return 1;
        }
        Ok(Ok(d)) => d,
    };
    let st = d.verif_state();
    let r = RefHll::default();
    let mut bad: Vec<(String, String)> = vec![];
    if st.mode != 2 {
        bad.push((format!("{tag}.mode"), "not restored in array mode".into()));
    } else {
        for (k, w) in hllm::check_state_with(&st, &r, regs, lg_k) {
            bad.push((format!("{tag}.{k}"), w));
        }
    }
    if st.ooo != o.ooo {
        bad.push((format!("{tag}.ooo"), format!("out-of-order {} but the image flag is {}", st.ooo, o.ooo)));
    }
    let nonzero = regs.iter().any(|&v| v > 0);
    if d.is_empty() == nonzero {
        bad.push((format!("{tag}.is_empty"), format!("is_empty {} for a {} array", d.is_empty(), if nonzero { "non-zero" } else { "zero" })));
    }
    // estimates: in-order -> the HIP value of the image; out-of-order -> the composite estimate of
    // these registers, never a stale HIP value
    if !o.ooo {
        if d.estimate() != hip {
            bad.push((format!("{tag}.hip"), format!("in-order image with hipAccum {hip} estimates {}", d.estimate())));
        }
    } else if st.mode == 2 && st.registers == regs {
        // reference: an in-process out-of-order sketch with the same registers
        let mut s8 = HllSketch::new(lg_k, ty(tgt));
        for (slot, &v) in regs.iter().enumerate() {
            if v > 0 {
                s8.verif_update_with_coupon(coupon(slot as u32, v));
            }
        }
        let mut u = HllUnion::new(lg_k);
        u.update(&s8);
        u.update(&s8);
        let want = u.to_sketch(ty(tgt));
        if want.verif_state().ooo && hllm::obs_est(&want) != hllm::obs_est(&d) {
            bad.push((format!("{tag}.ooo_estimate"), format!("out-of-order image estimates {} but the composite estimate of these registers is {}", d.estimate(), want.estimate())));
        }
    }
    for (k, w) in hllm::check_bounds(&d) {
        bad.push((format!("{tag}.{k}"), w));
    }
    if bad.is_empty() {
        // further update and union behave as the registers require
        let k = 1u32 << lg_k;
        for c in [coupon(k - 1, 63), coupon(0, cur_min.saturating_add(15).clamp(1, 63)), coupon(1, cur_min.max(1))] {
            let mut x = d.clone();
            match catch(|| x.verif_update_with_coupon(c)) {
                Err(p) => bad.push((format!("panic|{}", p.site_key()), format!("update after deserialize panicked: {} at {}:{}", p.message, p.file, p.line))),
                Ok(()) => {
                    let mut want = regs.to_vec();
                    let s = (hllm::c_slot(c) & (k - 1)) as usize;
                    want[s] = want[s].max(hllm::c_val(c));
                    let errs = hllm::check_state_with(&x.verif_state(), &r, &want, lg_k);
                    if !errs.is_empty() {
                        bad.push((format!("{tag}.continuation"), format!("after one more coupon {c:#x}: {}", errs[0].1)));
                    }
                }
            }
        }
        // long drive: enough coupons for cur_min shifts with the restored aux map live
        if lg_k <= 8 {
            let n = (12u64 << lg_k).min(3000);
            let mut x = d.clone();
            let mut want = regs.to_vec();
            let mut rr = r.clone();
            let mut dead = false;
            for i in 0..n {
                let c = crate::c03::value_coupon(0xfeed_0000 + i);
                if let Err(p) = catch(|| x.verif_update_with_coupon(c)) {
                    bad.push((format!("panic|{}", p.site_key()), format!("long drive after deserialize panicked at step {i}: {} at {}:{}", p.message, p.file, p.line)));
                    dead = true;
                    break;
                }
                let s = (hllm::c_slot(c) & (k - 1)) as usize;
                want[s] = want[s].max(hllm::c_val(c));
                rr.offer(c);
            }
            if !dead {
                let errs = hllm::check_state_with(&x.verif_state(), &rr, &want, lg_k);
                if !errs.is_empty() {
                    bad.push((format!("{tag}.long_continuation"), format!("after {n} more coupons: {}", errs[0].1)));
                }
            }
        }
        for lg_max in [lg_k, lg_k.saturating_sub(1).max(4)] {
            let mut u = HllUnion::new(lg_max);
            match catch(|| {
                u.update(&d);
                u.to_sketch(HllType::Hll8).verif_state()
            }) {
                Err(p) => bad.push((format!("panic|{}", p.site_key()), format!("union with the restored sketch panicked: {}", p.message))),
                Ok(us) => {
                    let lg = lg_max.min(lg_k);
                    let n = 1usize << lg;
                    let mut want = vec![0u8; n];
                    for (s, &v) in regs.iter().enumerate() {
                        want[s & (n - 1)] = want[s & (n - 1)].max(v);
                    }
                    if nonzero && us.registers != want {
                        bad.push((format!("{tag}.union"), "union of the restored sketch is not the folded register maximum".into()));
                    }
                    if nonzero && u.estimate() <= 0.0 {
                        bad.push((format!("{tag}.union_zero_estimate"), "union of the restored non-empty sketch estimates 0".into()));
                    }
                }
            }
        }
        match spec_hll::decode(&d.serialize()) {
            Ok(im) => match &im.body {
                HllBody::Array { registers, .. } if registers == regs => {}
                _ => bad.push((format!("{tag}.reserialize"), "re-serialized image decodes to different registers".into())),
            },
            Err(e) => bad.push((format!("{tag}.reserialize"), format!("re-serialized image undecodable: {e}"))),
        }
    }
    for (k, w) in bad {
        vio(ctx, &k, &w, &variant, &img);
    }
    1
}

/// Foreign SET tables large enough that the probe stride depends on more than the slot bits
/// (2^14 slots and more: lg_k >= 17), updatable and compact, three fill levels.
fn hll_big_sets(ctx: &Ctx) -> u64 {
    let cfgs: Vec<(u8, u8)> = ctx.tier.pick(vec![(17u8, 14u8), (19, 15)], vec![(17, 14), (18, 14), (18, 15), (19, 15), (19, 16), (21, 17), (21, 18)]);
    let jobs: Vec<(u8, u8, u8)> = cfgs.iter().flat_map(|&(l, a)| [4u8, 6, 8].into_iter().map(move |t| (l, a, t))).collect();
    jobs.par_iter()
        .map(|&(lg_k, lg_arr, tgt)| {
            let mut n = 0;
            let full = 3u32 << (lg_arr - 2);
            for cnt in [full / 2 + 1, full - 1] {
                // slots chosen to collide in the low bits (same home slot), values spread over 1..=60
                let cs: Vec<u32> = (0..cnt).map(|i| coupon((i % 4096) | ((i / 4096) << 20) | ((i % 7) << 14), 1 + (i % 60) as u8)).collect::<BTreeSet<u32>>().into_iter().collect();
                for compact in [false, true] {
                    n += hll_coupon_case(ctx, lg_k, tgt, true, &cs, EncOpts { compact, ooo: false, lg_arr, extra_flags: 0 });
                }
            }
            n
        })
        .sum()
}

fn hll_all(ctx: &Ctx) -> u64 {
    let lgs: Vec<u8> = ctx.tier.pick(vec![4, 5, 8, 10], vec![4, 5, 6, 7, 8, 9, 10, 11, 12, 13, 16, 21]);
    let jobs: Vec<(u8, u8)> = lgs.iter().flat_map(|&l| [4u8, 6, 8].into_iter().map(move |t| (l, t))).collect();
    jobs.par_iter()
        .map(|&(lg_k, tgt)| {
            let mut n = 0;
            let k = 1u32 << lg_k;
            for extra in if lg_k >= 16 { vec![0u8] } else { vec![0u8, 2, 32] } {
                // coupon modes: every list length 0..=7, plain and slot-colliding coupons
                let mut lists: Vec<Vec<u32>> = vec![];
                for n in 0..=7u32 {
                    lists.push((0..n).map(|i| coupon(i * 11 + 1, 1 + i as u8)).collect());
                    if n >= 2 {
                        lists.push((0..n).map(|i| coupon(5 + i * k, 1 + (i % 3) as u8)).collect()); // same register, distinct coupons
                    }
                }
                for cs in &lists {
                    n += hll_coupon_case(ctx, lg_k, tgt, false, cs, EncOpts { compact: true, ooo: false, lg_arr: 3, extra_flags: extra });
                    n += hll_coupon_case(ctx, lg_k, tgt, false, cs, EncOpts { compact: false, ooo: false, lg_arr: 3, extra_flags: extra });
                }
                if lg_k >= 8 {
                    // every set size the set can hold at each table size; plain and probe-colliding coupons
                    let mut sets: Vec<(Vec<u32>, u8)> = vec![];
                    for cnt in 8..=24u32 {
                        sets.push(((0..cnt).map(|i| coupon(i * 37 + 3 + ((i % 3) << 22), 1 + (i % 6) as u8)).collect(), 5));
                        sets.push(((0..cnt).map(|i| coupon(3 + 32 * i, 2 + (i % 2) as u8)).collect(), 5));
                    }
                    if lg_k >= 9 {
                        for cnt in [25u32, 31, 32, 33, 47, 48] {
                            sets.push(((0..cnt).map(|i| coupon(i * 37 + 3, 1 + (i % 6) as u8)).collect(), 6));
                            sets.push(((0..cnt).map(|i| coupon(3 + 64 * i, 2)).collect(), 6));
                        }
                    }
                    if ctx.tier == Tier::Thorough {
                        // larger set tables up to the promotion size lg_k - 3
                        for lg_arr in 7..=(lg_k - 3).min(11) {
                            let full = 3u32 << (lg_arr - 2);
                            for cnt in [full / 2 + 1, full - 1, full] {
                                sets.push(((0..cnt).map(|i| coupon((i * 37 + 3) & (k - 1) | ((i % 5) << 22), 1 + (i % 6) as u8)).collect::<BTreeSet<u32>>().into_iter().collect(), lg_arr));
                            }
                        }
                    }
                    for (cs, lg_arr) in &sets {
                        n += hll_coupon_case(ctx, lg_k, tgt, true, cs, EncOpts { compact: true, ooo: false, lg_arr: *lg_arr, extra_flags: extra });
                        n += hll_coupon_case(ctx, lg_k, tgt, true, cs, EncOpts { compact: false, ooo: false, lg_arr: *lg_arr, extra_flags: extra });
                    }
                }
                // arrays: base pattern x subset of exception positions x exception value
                let mut patterns: Vec<(String, Vec<u8>, u8)> = vec![];
                let pos = [0usize, 1, (k / 2) as usize, (k - 1) as usize];
                for (bname, base, cur_min) in [
                    ("all zero", vec![0u8; k as usize], 0u8),
                    ("sparse", (0..k).map(|s| if s % 3 == 0 { 2 } else { 0 }).collect::<Vec<u8>>(), 0),
                    ("all 1", vec![1u8; k as usize], 1),
                    ("ramp 1..5", (0..k).map(|s| 1 + (s % 5) as u8).collect::<Vec<u8>>(), 1),
                    ("ramp 3..6", (0..k).map(|s| 3 + (s % 4) as u8).collect::<Vec<u8>>(), 3),
                ] {
                    for mask in 0..16u32 {
                        let evs: &[u8] = if mask == 0 { &[0] } else { &[15, 31, 32, 63] };
                        for &ev in evs {
                            let mut regs = base.clone();
                            for (bi, &p) in pos.iter().enumerate() {
                                if mask >> bi & 1 == 1 {
                                    regs[p] = if ev == 15 { cur_min + 15 } else { ev };
                                }
                            }
                            let cm = regs.iter().copied().min().unwrap();
                            patterns.push((format!("{bname} + exceptions mask {mask:#x} value {ev}"), regs, cm.min(cur_min.max(cm))));
                        }
                    }
                }
                for (pname, regs, cur_min) in &patterns {
                    for compact in [true, false] {
                        for ooo in [false, true] {
                            let aux_count = if tgt == 4 { regs.iter().filter(|&&v| v - cur_min >= 15).count() } else { 0 };
                            let mut lg_auxs = vec![0u8];
                            if tgt == 4 && !compact && aux_count > 0 {
                                // updatable aux tables of two sizes (with empty slots)
                                let min = (aux_count + 1).next_power_of_two().trailing_zeros() as u8;
                                lg_auxs = vec![min.max(2), min.max(2) + 1];
                            }
                            for lg_arr in lg_auxs {
                                n += hll_array_case(ctx, lg_k, tgt, regs, if tgt == 4 { *cur_min } else { 0 }, EncOpts { compact, ooo, lg_arr, extra_flags: extra }, pname);
                            }
                        }
                    }
                }
            }
            n
        })
        .sum()
}

// ----------------------------------------------------------------------------------- Theta

fn theta_case(ctx: &Ctx, ver: u8, seed: u64, theta: u64, entries: &[u64], ordered: bool, empty: bool, single_flag: bool) -> u64 {
    let img = match ver {
        1 => spec_misc::theta_encode_v1(theta, entries),
        2 => spec_misc::theta_encode_v2(seed, theta, entries, empty),
        3 => spec_misc::theta_encode_v3(seed, theta, entries, ordered, empty, single_flag),
        _ => spec_misc::theta_encode_v4(seed, theta, entries),
    };
    let variant = json!({"family":"theta","ser_ver":ver,"seed":seed,"theta":theta,"n":entries.len(),"ordered":ordered,"empty":empty,"single_item_flag":single_flag});
    let tag = format!("theta.v{ver}");
    let mut n = 1;
    let d = match catch(|| CompactThetaSketch::deserialize_with_seed(&img, seed)) {
        Err(p) => {
            vio(ctx, &format!("panic|{}", p.site_key()), &format!("deserialize panicked: {} at {}:{}", p.message, p.file, p.line), &variant, &img);
            return n;
        }
        Ok(Err(e)) => {
            vio(ctx, &format!("{tag}.rejected"), &format!("valid image rejected: {e}"), &variant, &img);
            return n;
        }
        Ok(Ok(d)) => d,
    };
    let mut bad: Vec<(String, String)> = vec![];
    let got: Vec<u64> = d.iter().collect();
    let want_ordered = ordered || ver != 3;
    if want_ordered {
        if got != entries {
            bad.push((format!("{tag}.entries"), format!("{} entries restored, {} encoded (or order changed)", got.len(), entries.len())));
        }
    } else {
        let a: BTreeSet<u64> = got.iter().copied().collect();
        let b: BTreeSet<u64> = entries.iter().copied().collect();
        if a != b || got.len() != entries.len() {
            bad.push((format!("{tag}.entries"), "entry set differs".into()));
        }
    }
    if d.theta64() != theta {
        bad.push((format!("{tag}.theta"), format!("theta {} but {} encoded", d.theta64(), theta)));
    }
    if d.is_empty() != empty {
        bad.push((format!("{tag}.is_empty"), format!("is_empty {} but the image encodes {} ({} entries, theta {})", d.is_empty(), empty, entries.len(), theta)));
    }
    if want_ordered && !d.is_ordered() {
        bad.push((format!("{tag}.is_ordered"), "an ordered image is restored as unordered".into()));
    }
    if !want_ordered && d.is_ordered() && entries.len() > 1 {
        bad.push((format!("{tag}.is_ordered"), "an unordered image is restored as ordered".into()));
    }
    let want_est = if empty { 0.0 } else if theta == MAX_THETA { entries.len() as f64 } else { entries.len() as f64 / (theta as f64 / MAX_THETA as f64) };
    if d.estimate().to_bits() != want_est.to_bits() {
        bad.push((format!("{tag}.estimate"), format!("estimate {} but the encoded state implies {}", d.estimate(), want_est)));
    }
    if d.num_retained() != entries.len() {
        bad.push((format!("{tag}.num_retained"), format!("{} vs {}", d.num_retained(), entries.len())));
    }
    if ver != 1 && d.seed_hash() != spec_misc::seed_hash(seed) {
        bad.push((format!("{tag}.seed_hash"), format!("{:#x}", d.seed_hash())));
    }
    match catch(|| {
        use datasketches::common::NumStdDev::*;
        [d.lower_bound(Three), d.lower_bound(One), d.estimate(), d.upper_bound(One), d.upper_bound(Three)]
    }) {
        Err(p) => bad.push((format!("panic|{}", p.site_key()), format!("bounds panicked: {}", p.message))),
        Ok(b) => {
            if b.windows(2).any(|w| w[0] > w[1]) || b.iter().any(|x| !x.is_finite()) {
                bad.push((format!("{tag}.bounds.order"), format!("{:?}", b)));
            }
        }
    }
    // re-serialization (both forms) decodes to the same abstract state
    for compressed in [false, true] {
        match catch(|| if compressed { d.serialize_compressed() } else { d.serialize() }) {
            Err(p) => bad.push((format!("panic|{}", p.site_key()), format!("re-serialize panicked: {}", p.message))),
            Ok(img2) => match spec_misc::theta_decode(&img2) {
                Err(e) => bad.push((format!("{tag}.reserialize"), format!("re-serialized image undecodable: {e}"))),
                Ok(im) => {
                    let mut a = im.entries.clone();
                    let mut b = entries.to_vec();
                    a.sort_unstable();
                    b.sort_unstable();
                    if a != b || im.theta != theta || im.empty != empty {
                        bad.push((format!("{tag}.reserialize"), format!("re-serialized image encodes {} entries/theta {}/empty {} instead of {}/{}/{}", im.entries.len(), im.theta, im.empty, entries.len(), theta, empty)));
                    }
                }
            },
        }
    }
    for (k, w) in bad {
        vio(ctx, &k, &w, &variant, &img);
    }
    // the wrong seed must be rejected cleanly (non-empty images of versions with a seed hash)
    if ver != 1 && !empty {
        n += 1;
        match catch(|| CompactThetaSketch::deserialize_with_seed(&img, seed ^ 0x5555)) {
            Err(p) => vio(ctx, &format!("panic|{}", p.site_key()), &format!("wrong-seed deserialize panicked: {}", p.message), &variant, &img),
            Ok(Ok(_)) => vio(ctx, &format!("{tag}.wrong_seed_accepted"), "an image with a different seed hash is accepted", &variant, &img),
            Ok(Err(_)) => {}
        }
    }
    n
}

fn theta_all(ctx: &Ctx) -> u64 {
    let mut n = 0;
    let ns: Vec<usize> = ctx.tier.pick(vec![0, 1, 2, 9, 300], vec![0, 1, 2, 7, 8, 9, 255, 256, 257, 300, 1000]);
    for seed in [9001u64, 7] {
        for &cnt in &ns {
            for &theta in &[MAX_THETA, MAX_THETA / 2, 1u64 << 40] {
                let top = theta - 1;
                let step = (top / (cnt as u64 + 1)).max(1);
                let sorted: Vec<u64> = (1..=cnt as u64).map(|i| i * step).collect();
                if sorted.last().copied().unwrap_or(0) >= theta {
                    continue;
                }
                let mut shuffled = sorted.clone();
                shuffled.reverse();
                if shuffled.len() > 2 {
                    shuffled.swap(0, 1);
                }
                let est = theta < MAX_THETA;
                // empty forms only for exact theta
                let empty = cnt == 0 && !est;
                for ver in 1..=4u8 {
                    if ver == 4 && cnt == 0 {
                        continue; // v4 is only written for non-empty sketches
                    }
                    n += theta_case(ctx, ver, seed, theta, &sorted, true, empty, false);
                    if ver == 3 {
                        if cnt > 1 {
                            n += theta_case(ctx, 3, seed, theta, &shuffled, false, empty, false);
                        }
                        if cnt == 1 && !est {
                            n += theta_case(ctx, 3, seed, theta, &sorted, true, false, true);
                        }
                    }
                }
            }
        }
    }
    n += theta_v4_widths(ctx);
    n
}

/// Compressed (serial version 4) images for EVERY delta bit width 1..=63 and every entry
/// count around the 8-entry packing blocks, for several placements of the widest delta and
/// both fill patterns (other deltas minimal / other deltas as wide as fit below theta).
fn theta_v4_widths(ctx: &Ctx) -> u64 {
    let counts: Vec<usize> = ctx.tier.pick((1..=17).chain([24, 25, 255, 256, 257]).collect(), (1..=33).chain([63, 64, 65, 255, 256, 257, 65535, 65536, 65537]).collect());
    let jobs: Vec<(u8, usize)> = (1..=63u8).flat_map(|b| counts.iter().map(move |&c| (b, c))).collect();
    jobs.par_iter()
        .map(|&(bits, cnt)| {
            let mut n = 0;
            let wide = if bits == 63 { (1u64 << 62) | 12345 } else { (1u64 << (bits - 1)) | (0x5555_5555_5555_5555u64 & ((1u64 << (bits - 1)) - 1)) };
            for place in [0usize, cnt / 2, cnt - 1] {
                for fill_wide in [false, true] {
                    for &theta in &[MAX_THETA, MAX_THETA / 3] {
                        // deltas: `wide` at `place`; others 1+i%3 (bits>=2) or as wide as the budget allows
                        let mut deltas: Vec<u64> = (0..cnt).map(|i| if bits >= 2 { 1 + (i as u64 % 3).min((1u64 << bits) - 2) } else { 1 }).collect();
                        deltas[place] = wide;
                        if fill_wide {
                            let budget = (theta - 1 - wide) / cnt as u64;
                            let w2 = budget.min((1u64 << bits) - 1);
                            if w2 >= 1 {
                                for (i, d) in deltas.iter_mut().enumerate() {
                                    if i != place {
                                        *d = w2.max(1);
                                    }
                                }
                            }
                        }
                        let mut entries = Vec::with_capacity(cnt);
                        let mut acc = 0u64;
                        let mut ok = true;
                        for d in &deltas {
                            match acc.checked_add(*d) {
                                Some(x) if x < theta => {
                                    acc = x;
                                    entries.push(x);
                                }
                                _ => {
                                    ok = false;
                                    break;
                                }
                            }
                        }
                        if !ok {
                            continue;
                        }
                        n += theta_case(ctx, 4, 9001, theta, &entries, true, false, false);
                    }
                }
            }
            n
        })
        .sum()
}

// ----------------------------------------------------------------------------------- Bloom / CM / FI

fn misc_all(ctx: &Ctx) -> u64 {
    let mut n = 0;
    // Bloom: empty (3 longs) / non-empty, exact or dirty bit count
    for nwords in [1usize, 2, 3, 17] {
        for pat in 0..4 {
            let words: Vec<u64> = (0..nwords).map(|i| match pat { 0 => 0, 1 => 1u64 << (i % 64), 2 => 0xAAAA_5555_0F0F_FFFF ^ (i as u64), _ => u64::MAX }).collect();
            for dirty in [false, true] {
                for (hashes, seed) in [(1u16, 9001u64), (7, 0), (32767, u64::MAX)] {
                    let img = spec_misc::bloom_encode(hashes, seed, &words, dirty);
                    let variant = json!({"family":"bloom","words":nwords,"pattern":pat,"dirty":dirty,"hashes":hashes,"seed":seed});
                    n += 1;
                    match catch(|| BloomFilter::deserialize(&img)) {
                        Err(p) => vio(ctx, &format!("panic|{}", p.site_key()), &format!("deserialize panicked: {}", p.message), &variant, &img),
                        Ok(Err(e)) => vio(ctx, "bloom.rejected", &format!("valid image rejected: {e}"), &variant, &img),
                        Ok(Ok(f)) => {
                            let pop: u64 = words.iter().map(|w| w.count_ones() as u64).sum();
                            if f.bits_used() != pop || f.capacity() != nwords * 64 || f.num_hashes() != hashes || f.seed() != seed || f.is_empty() != (pop == 0) {
                                vio(ctx, if dirty { "bloom.dirty_count" } else { "bloom.accessors" }, &format!("bits_used {} (popcount {pop}) capacity {} hashes {} seed {} empty {}", f.bits_used(), f.capacity(), f.num_hashes(), f.seed(), f.is_empty()), &variant, &img);
                            } else {
                                match spec_misc::bloom_decode(&f.serialize()) {
                                    Ok(im) if im.words == words && im.num_bits_set == pop && im.num_hashes == hashes && im.seed == seed => {}
                                    _ => vio(ctx, "bloom.reserialize", "re-serialized image differs from the encoded state", &variant, &img),
                                }
                                // all-ones filter contains everything; all-zero nothing
                                if pat == 3 && !f.contains(&42u64) {
                                    vio(ctx, "bloom.contains", "a filter with every bit set does not contain an item", &variant, &img);
                                }
                                let mut g = f.clone();
                                if let Err(p) = catch(|| {
                                    g.insert(7u64);
                                    g.union(&f);
                                    g.intersect(&f);
                                    g.invert();
                                }) {
                                    vio(ctx, &format!("panic|{}", p.site_key()), &format!("operations on the restored filter panicked: {}", p.message), &variant, &img);
                                } else if g.bits_used() != spec_misc::bloom_decode(&g.serialize()).map(|i| i.words.iter().map(|w| w.count_ones() as u64).sum()).unwrap_or(u64::MAX) {
                                    vio(ctx, "bloom.bits_used_after_ops", "bits_used != popcount after operations on the restored filter", &variant, &img);
                                }
                            }
                        }
                    }
                }
            }
        }
    }
    // Count-Min (u64 and i64 readers of the same 8-byte fields)
    for (buckets, hashes) in [(3u32, 1u8), (5, 3), (64, 8)] {
        for pat in 0..3u64 {
            let tlen = buckets as usize * hashes as usize;
            let table: Vec<u64> = (0..tlen as u64).map(|i| if pat == 0 { 0 } else { (i * 7 + pat) % 50 }).collect();
            let total: u64 = if pat == 0 { 0 } else { 1000 };
            for seed in [9001u64, 0] {
                let img = spec_misc::cm_encode(buckets, hashes, seed, total, &table);
                let variant = json!({"family":"countmin","buckets":buckets,"hashes":hashes,"pattern":pat,"seed":seed});
                n += 1;
                match catch(|| CountMinSketch::<u64>::deserialize_with_seed(&img, seed)) {
                    Err(p) => vio(ctx, &format!("panic|{}", p.site_key()), &format!("deserialize panicked: {}", p.message), &variant, &img),
                    Ok(Err(e)) => vio(ctx, "cm.rejected", &format!("valid image rejected: {e}"), &variant, &img),
                    Ok(Ok(s)) => {
                        let re = spec_misc::cm_decode(&s.serialize());
                        if s.total_weight() != total || s.num_buckets() != buckets || s.num_hashes() != hashes || re.as_ref().map(|r| r.table != table || r.total != total).unwrap_or(true) {
                            vio(ctx, "cm.state", "restored table/total differ from the encoded state", &variant, &img);
                        }
                    }
                }
                n += 1;
                match catch(|| CountMinSketch::<i64>::deserialize_with_seed(&img, seed)) {
                    Err(p) => vio(ctx, &format!("panic|{}", p.site_key()), &format!("deserialize (i64) panicked: {}", p.message), &variant, &img),
                    Ok(Err(e)) => vio(ctx, "cm.rejected", &format!("valid image rejected by the i64 reader: {e}"), &variant, &img),
                    Ok(Ok(s)) => {
                        if s.total_weight() != total as i64 {
                            vio(ctx, "cm.state", "restored total differs (i64 reader)", &variant, &img);
                        }
                    }
                }
            }
        }
    }
    // Frequent Items: i64 / u64 / String; preLongs with/without high bits; empty flag variants 1, 4, 5
    for pre_high in [0u8, 0x40, 0xC0] {
        for ef in [4u8, 5, 1] {
            let img = spec_misc::fi_encode(4, 3, 0, 0, &[], &FiItems::Longs(vec![]), ef, pre_high);
            let variant = json!({"family":"fi","empty":true,"empty_flags":ef,"pre_high_bits":pre_high});
            n += 1;
            match catch(|| FrequentItemsSketch::<i64>::deserialize(&img)) {
                Err(p) => vio(ctx, &format!("panic|{}", p.site_key()), &format!("deserialize panicked: {}", p.message), &variant, &img),
                Ok(Err(e)) => vio(ctx, &format!("fi.empty.rejected.flags{ef}"), &format!("valid empty image rejected: {e}"), &variant, &img),
                Ok(Ok(s)) => {
                    if !s.is_empty() || s.total_weight() != 0 || s.num_active_items() != 0 {
                        vio(ctx, "fi.empty.state", "empty image restored as non-empty", &variant, &img);
                    }
                }
            }
        }
        let counts = vec![5u64, 1, 9];
        let longs = vec![10u64, (-3i64) as u64, 77];
        let img = spec_misc::fi_encode(4, 3, 20, 2, &counts, &FiItems::Longs(longs.clone()), 0, pre_high);
        let variant = json!({"family":"fi","items":"i64","pre_high_bits":pre_high});
        n += 1;
        match catch(|| FrequentItemsSketch::<i64>::deserialize(&img)) {
            Err(p) => vio(ctx, &format!("panic|{}", p.site_key()), &format!("deserialize panicked: {}", p.message), &variant, &img),
            Ok(Err(e)) => vio(ctx, "fi.rejected", &format!("valid image rejected: {e}"), &variant, &img),
            Ok(Ok(s)) => {
                let ok = s.total_weight() == 20 && s.maximum_error() == 2 && s.num_active_items() == 3 && s.estimate(&10) == 7 && s.estimate(&-3) == 3 && s.estimate(&77) == 11 && s.lower_bound(&10) == 5 && s.upper_bound(&10) == 7 && s.estimate(&1234) == 0 && s.upper_bound(&1234) == 2;
                if !ok {
                    vio(ctx, "fi.state", &format!("restored sketch: total {} max_error {} active {} est(10) {} est(-3) {}", s.total_weight(), s.maximum_error(), s.num_active_items(), s.estimate(&10), s.estimate(&-3)), &variant, &img);
                }
                match spec_misc::fi_decode(&s.serialize(), false) {
                    Ok(im) => {
                        let mut got: Vec<(u64, u64)> = match im.items { FiItems::Longs(v) => v.into_iter().zip(im.counts.iter().copied()).collect(), _ => vec![] };
                        got.sort_unstable();
                        let mut want: Vec<(u64, u64)> = longs.iter().copied().zip(counts.iter().copied()).collect();
                        want.sort_unstable();
                        if got != want || im.stream_weight != 20 || im.offset != 2 {
                            vio(ctx, "fi.reserialize", "re-serialized image encodes a different state", &variant, &img);
                        }
                    }
                    Err(e) => vio(ctx, "fi.reserialize", &format!("re-serialized image undecodable: {e}"), &variant, &img),
                }
            }
        }
        let strs: Vec<Vec<u8>> = vec![b"".to_vec(), "é漢字🙂".as_bytes().to_vec(), vec![b'x'; 300]];
        let img = spec_misc::fi_encode(5, 3, 15, 0, &counts, &FiItems::Strings(strs.clone()), 0, pre_high);
        let variant = json!({"family":"fi","items":"String","pre_high_bits":pre_high});
        n += 1;
        match catch(|| FrequentItemsSketch::<String>::deserialize(&img)) {
            Err(p) => vio(ctx, &format!("panic|{}", p.site_key()), &format!("deserialize panicked: {}", p.message), &variant, &img),
            Ok(Err(e)) => vio(ctx, "fi.rejected", &format!("valid String image rejected: {e}"), &variant, &img),
            Ok(Ok(s)) => {
                let e0 = s.estimate(&String::new());
                let e1 = s.estimate(&"é漢字🙂".to_string());
                let e2 = s.estimate(&"x".repeat(300));
                if (e0, e1, e2) != (5, 1, 9) || s.total_weight() != 15 {
                    vio(ctx, "fi.state", &format!("restored String sketch estimates {e0}/{e1}/{e2}, total {}", s.total_weight()), &variant, &img);
                }
            }
        }
    }
    n
}

pub fn run(ctx: &Ctx) -> i32 {
    let a = hll_all(ctx) + hll_big_sets(ctx);
    ctx.count("HLL image variants", a);
    let b = theta_all(ctx);
    ctx.count("Theta image variants (incl. wrong-seed rejections)", b);
    let c = misc_all(ctx);
    ctx.count("Bloom / Count-Min / Frequent Items image variants", c);
    let d = crate::c13_more::run(ctx);
    ctx.count("t-digest / CPC image variants", d);
    let total = a + b + c + d;
    ctx.add_states(total);
    ctx.add_transitions(total);
    ctx.sample(json!({"hll":{"lg_k":8,"tgt":4,"mode":"array","registers":"cur_min 3 with exceptions 63/31/32/18/17","compact":false,"lg_aux_arr":3,"ooo":true,"extra_flags":32}}));
    ctx.sample(json!({"theta":{"ser_ver":2,"n":9,"theta":"MAX (exact)","expect":"9 entries, not empty, ordered, estimate 9"}}));
    let cov = json!({
        "exhaustive": true,
        "bounds": {
            "hll": "lg_k {4,5,8,10} x 3 types x {list: 0,1,3,7 coupons; set: 8,20,24 coupons x lg_arr 5,6} x {compact, updatable} ; arrays: 4 register patterns (cur_min 0,1,3; exceptions 63/31/32/18/17/20) x compact flag x out-of-order flag x updatable aux table sizes x extra flag bits {0, read-only, rebuild-kxq}",
            "theta": "serial versions 1..4 x counts {0,1,2,9,300} x theta {exact, 1/2, 2^40} x ordered/unordered (v3) x single-item flag x seeds {9001,7} + wrong seed",
            "misc": "Bloom words {1,2,3,17} x 4 bit patterns x exact/dirty count x 3 (hashes,seed); Count-Min 3 shapes x 3 tables x 2 seeds x u64/i64 readers; Frequent Items i64/String x preLongs high bits x empty flags {4,5,1}",
        },
    });
    ctx.finish(
        cov,
        vec![
            "images come from the harness's spec encoder (DESIGN Appendix A), my transcription of the Java/C++ writers; no Java/C++ artefacts exist offline except the two t-digest reference files".into(),
            "expected estimates for out-of-order HLL images are taken from an in-process out-of-order sketch with the same registers".into(),
        ],
    )
}
