//! C12 — emitted bytes follow the DataSketches cross-language binary layout.
//! An observer on the family explorers: the independent spec decoder must recover from
//! serialize() exactly the state the reference model / hook dump says the sketch holds.

use crate::common::Ctx;
use crate::obs;
use datasketches::hll::HllType;
use serde_json::json;

pub fn run(ctx: &Ctx) -> i32 {
    let jobs: Vec<Box<dyn Fn() + Sync + Send>> = vec![
        Box::new(|| crate::c02::explore(ctx, &obs::hll_trio_c12)),
        Box::new(|| {
            crate::c03::explore(ctx, &|ctx, u, mk| {
                for t in [HllType::Hll4, HllType::Hll6, HllType::Hll8] {
                    obs::hll_spec(ctx, &u.u.to_sketch(t), mk);
                }
            })
        }),
        Box::new(|| crate::c04::explore(ctx, &|ctx, p, mk| obs::theta_pair_obs(ctx, p, false, true, mk))),
        Box::new(|| {
            let n = crate::c11::theta_entry_sets(ctx, false, true);
            ctx.count("compact theta entry sets decoded", n);
            ctx.add_states(n);
            ctx.add_transitions(2 * n);
        }),
        Box::new(|| crate::c05::explore(ctx, &obs::cpc_duo_c12)),
        Box::new(|| crate::c06::explore(ctx, &|ctx, u, mk| obs::cpc_spec(ctx, &u.u.to_sketch(), &u.ref_m, mk))),
    ];
    use rayon::prelude::*;
    jobs.par_iter().for_each(|j| j());
    crate::c12_more::run(ctx);
    ctx.sample(json!({"hll":{"state":"lg_k=4 Hll4 array with aux entries","decoder":"spec_hll::decode (preInts/serVer/family/lgK/lgArr/flags/curMin|count/mode, hip, kxq0, kxq1, numAtCurMin, auxCount, nibble/6-bit/byte registers, aux area)","compared_with":"hook dump: registers, cur_min, num_at_cur_min, aux pairs, hip, kxq, ooo; size formula"}}));
    ctx.sample(json!({"theta":{"forms":"v3 and v4 (delta bit stream, MSB first)","compared_with":"compact accessors: entries, theta, emptiness, ordering, seed hash = murmur3(le64(seed),0)&0xffff, preLongs by case"}}));
    let cov = json!({
        "exhaustive": true,
        "bounds": "every state visited by the family explorers at reduced bounds + the compact theta entry-set enumeration of C11",
        "trusted_base": ["my transcription of the Java/C++ layouts (DESIGN Appendix A)", "CPC: preamble, field order, lengths and flags are decoded independently; the compressed payload is decoded by the harness's own decompressor only where noted in the notes"],
    });
    ctx.finish(cov, vec!["the decoders never call the library's deserialize".into()])
}
