#!/bin/bash
# usage: bin/verify_seed.sh <id> <dir-with-patch.diff-and-demo.rs>
# Re-verifies a seeded change in a scratch worktree: applies, compiles, repository suite,
# demonstration fails with / passes without the change. Prints a summary line.
set -u
id=$1; src=$2
wt=/tmp/seedv/repo
if [ ! -d $wt ]; then mkdir -p /tmp/seedv && git -C /repo worktree add --detach $wt HEAD -q; fi
git -C $wt checkout -q --detach $(git -C /repo rev-parse HEAD) 2>/dev/null; git -C $wt checkout -- . ; rm -f $wt/datasketches/tests/seed_demo.rs
git -C $wt apply $src/patch.diff || { echo "$id: PATCH DOES NOT APPLY"; exit 1; }
suite=$(python3 /verif/bin/baseline.py $wt | head -1)
cp $src/demo.rs $wt/datasketches/tests/seed_demo.rs
with=$(cd $wt && CARGO_NET_OFFLINE=true cargo test -p datasketches --offline --test seed_demo 2>&1 | grep -E "^test result" | tail -1)
git -C $wt apply -R $src/patch.diff
without=$(cd $wt && CARGO_NET_OFFLINE=true cargo test -p datasketches --offline --test seed_demo 2>&1 | grep -E "^test result" | tail -1)
rm -f $wt/datasketches/tests/seed_demo.rs
echo "$id | suite: $suite | demo WITH change: $with | demo WITHOUT: $without"
