#!/bin/bash
# usage: bin/seeded_all.sh [id ...]   (default: every directory under seeded/)
# Runs every seeded change against the check of the property it targets (first entry of
# meta.json "checks") and prints one line per seed; exit 1 if any target check misses.
cd /verif
ids="$*"; [ -z "$ids" ] && ids=$(ls -d seeded/C* | xargs -n1 basename)
miss=0
for id in $ids; do
  if python3 -c "import json,sys;sys.exit(0 if 'retired' in json.load(open('seeded/$id/meta.json')) else 1)"; then echo "$id retired (see meta.json)"; continue; fi
  tgt=$(python3 -c "import json;print(json.load(open('seeded/$id/meta.json'))['property'])")
  out=$(bin/seeded.sh $id $tgt 2>&1 | tail -1)
  echo "$out" | cut -c1-220
  echo "$out" | grep -q CAUGHT || miss=1
done
[ -n "$(git -C /repo status --porcelain)" ] && { echo "/repo left dirty" >&2; exit 2; }
exit $miss
