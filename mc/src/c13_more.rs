//! C13 variants for t-digest (float/double, reference encodings) and CPC (uncompressed flag
//! must be rejected cleanly): attached when the t-digest codec is merged in.
use crate::common::{Ctx, catch};
use serde_json::json;

pub fn run(ctx: &Ctx) -> u64 {
    // CPC: the only foreign variant is an image without the COMPRESSED flag: must be a clean Err.
    let mut n = 0;
    for lg_k in [4u8, 11, 26] {
        let s = datasketches::cpc::CpcSketch::new(lg_k);
        let mut img = s.serialize();
        img[5] &= !2;
        n += 1;
        match catch(|| datasketches::cpc::CpcSketch::deserialize(&img)) {
            Err(p) => {
                ctx.violation(&format!("panic|{}", p.site_key()), &format!("uncompressed CPC image panicked: {}", p.message), json!({"kind":"image","family":"cpc","image_hex":crate::common::hex(&img)}));
            }
            Ok(Ok(_)) => {
                ctx.violation("cpc.uncompressed_accepted", "an image without the COMPRESSED flag is accepted", json!({"kind":"image","family":"cpc","image_hex":crate::common::hex(&img)}));
            }
            Ok(Err(_)) => {}
        }
    }
    n
}
