//! CPC reference model (k x 64 bit matrix) and per-state oracle (C05), shared with
//! C01/C06/C11/C12/C17/C18.

use crate::common::{Ctx, catch};
use datasketches::common::NumStdDev;
use datasketches::cpc::CpcSketch;
use datasketches::verif::VerifCpcState;
use serde_json::{Value, json};
use std::collections::BTreeMap;

pub const NSD: [NumStdDev; 3] = [NumStdDev::One, NumStdDev::Two, NumStdDev::Three];

pub fn rc(row: u32, col: u32) -> u32 {
    (row << 6) | col
}

/// Largest coupon count a sketch of this lg_k may reach in the model: one below the count
/// at which a 57th window move would be due (the property's quantifier stops at offset 56).
pub fn max_coupons(lg_k: u8) -> u32 {
    let k = 1u64 << lg_k;
    // C < 59.375 K  <=>  8C < 475 K
    (((475 * k) + 7) / 8 - 1) as u32
}

pub fn correct_offset(lg_k: u8, c: u32) -> u8 {
    let k = 1i64 << lg_k;
    let tmp = ((c as i64) << 3) - 19 * k;
    if tmp < 0 { 0 } else { (tmp >> (lg_k + 3)) as u8 }
}

/// 0 Empty, 1 Sparse, 2 Hybrid, 3 Pinned, 4 Sliding — from the documented thresholds.
pub fn flavor_of(lg_k: u8, c: u32) -> u8 {
    let k = 1u64 << lg_k;
    let c = c as u64;
    if c == 0 {
        0
    } else if 32 * c < 3 * k {
        1
    } else if 2 * c < k {
        2
    } else if 8 * c < 27 * k {
        3
    } else {
        4
    }
}

#[derive(Clone, Debug)]
pub struct RefCpc {
    pub lg_k: u8,
    pub m: Vec<u64>,
    pub count: u32,
    /// exact-ish kxp: k - sum over set bits of 2^-(col+1), accumulated per column
    pub col_counts: [u32; 64],
    /// reference HIP accumulator (sum of k / kxp_before over novel coupons, arrival order)
    pub hip: f64,
    /// bound on |implementation hip - reference hip| implied by f64 rounding of kxp
    pub hip_err: f64,
    /// exact kxp * 2^64
    pub kxp_int: u128,
}

impl RefCpc {
    pub fn new(lg_k: u8) -> Self {
        RefCpc { lg_k, m: vec![0; 1 << lg_k], count: 0, col_counts: [0; 64], hip: 0.0, hip_err: 0.0, kxp_int: (1u128 << lg_k) << 64 }
    }
    /// kxp = k - sum over set bits of 2^-(col+1), computed exactly in 128-bit integers.
    pub fn kxp(&self) -> f64 {
        (self.kxp_int as f64) * (-64.0f64).exp2()
    }
    /// Bound on the absolute f64 rounding error the implementation's incrementally
    /// maintained kxp may have accumulated (one rounding of magnitude <= ulp(k) per update).
    pub fn kxp_eps(&self) -> f64 {
        let k = (1u64 << self.lg_k) as f64;
        (self.count as f64 + 8.0) * (-52.0f64).exp2() * k
    }
    pub fn has(&self, row_col: u32) -> bool {
        let row = (row_col >> 6) as usize;
        let col = row_col & 63;
        (self.m[row] >> col) & 1 == 1
    }
    /// Returns true if novel.
    pub fn offer(&mut self, row_col: u32) -> bool {
        if self.has(row_col) {
            return false;
        }
        let k = (1u64 << self.lg_k) as f64;
        let kxp = self.kxp();
        let inc = k / kxp;
        self.hip += inc;
        let eps = self.kxp_eps();
        if eps * 2.0 >= kxp {
            self.hip_err = f64::INFINITY;
        } else {
            self.hip_err += inc * (2.0 * eps / kxp) + inc * 1e-15;
        }
        let row = (row_col >> 6) as usize;
        let col = row_col & 63;
        self.kxp_int -= 1u128 << (63 - col);
        self.m[row] |= 1 << col;
        self.count += 1;
        self.col_counts[col as usize] += 1;
        true
    }
    /// Model precondition (see DESIGN §2): a valid pair, and no NEW pair at the cap.
    pub fn allows(&self, row_col: u32) -> bool {
        let row = row_col >> 6;
        row < (1u32 << self.lg_k) && row_col != u32::MAX && (self.has(row_col) || self.count < max_coupons(self.lg_k))
    }
}

pub fn rel_close(a: f64, b: f64, tol: f64) -> bool {
    (a - b).abs() <= tol * a.abs().max(b.abs()).max(1e-300)
}

/// C01 ordering clause.
pub fn check_bounds(s: &CpcSketch) -> Vec<(String, String)> {
    let mut out = vec![];
    let e = s.estimate();
    let lb: Vec<f64> = NSD.iter().map(|&n| s.lower_bound(n)).collect();
    let ub: Vec<f64> = NSD.iter().map(|&n| s.upper_bound(n)).collect();
    let all = [lb[2], lb[1], lb[0], e, ub[0], ub[1], ub[2]];
    if all.iter().any(|x| !x.is_finite() || *x < 0.0) {
        out.push(("cpc.bounds.finite".into(), format!("non-finite or negative estimate/bound: {:?}", all)));
    } else if all.windows(2).any(|w| w[0] > w[1]) {
        out.push(("cpc.bounds.order".into(), format!("lb3<=lb2<=lb1<=est<=ub1<=ub2<=ub3 violated: {:?} (C={})", all, s.num_coupons())));
    }
    out
}

/// Structural oracle that does not need the reference's arrival-order data
/// (usable on union results and deserialized sketches as well).
pub fn check_structure(s: &CpcSketch, want: &[u64], lg_k: u8) -> Vec<(String, String)> {
    check_structure_st(s, &s.verif_state(), want, lg_k)
}

pub fn check_structure_st(s: &CpcSketch, st: &VerifCpcState, want: &[u64], lg_k: u8) -> Vec<(String, String)> {
    let mut out = vec![];
    let c: u32 = want.iter().map(|w| w.count_ones()).sum();
    if s.lg_k() != lg_k {
        out.push(("cpc.lg_k".into(), format!("lg_k {} but expected {}", s.lg_k(), lg_k)));
        return out;
    }
    if s.num_coupons() != c {
        out.push(("cpc.num_coupons".into(), format!("num_coupons {} but the model matrix has {} bits", s.num_coupons(), c)));
    }
    let m = s.verif_bit_matrix();
    if m != want {
        let row = m.iter().zip(want.iter()).position(|(a, b)| a != b).unwrap_or(0);
        out.push((
            "cpc.matrix".into(),
            format!("row {row}: sketch {:#018x} model {:#018x} (C={c}, offset {})", m.get(row).copied().unwrap_or(0), want.get(row).copied().unwrap_or(0), st.window_offset),
        ));
    }
    if !s.validate() {
        out.push(("cpc.validate".into(), format!("validate() is false at C={c}")));
    }
    let wo = correct_offset(lg_k, c);
    if st.window_offset != wo {
        out.push(("cpc.window_offset".into(), format!("window_offset {} but C={c} requires {}", st.window_offset, wo)));
    }
    let fl = flavor_of(lg_k, c);
    if st.flavor != fl {
        out.push(("cpc.flavor".into(), format!("flavor {} but thresholds give {} at C={c}", st.flavor, fl)));
    }
    let want_window = fl >= 2;
    if st.has_window != want_window {
        out.push(("cpc.window_presence".into(), format!("window present={} at flavor {fl} (C={c})", st.has_window)));
    }
    if st.has_window && st.window.len() != 1 << lg_k {
        out.push(("cpc.window_len".into(), format!("window length {}", st.window.len())));
    }
    // every column below first_interesting_column must be all ones
    let fic = st.first_interesting_column;
    if fic > 63 {
        out.push(("cpc.fic.range".into(), format!("first_interesting_column {fic}")));
    } else if fic > 0 {
        let mask = (1u64 << fic) - 1;
        if let Some(row) = want.iter().position(|w| w & mask != mask) {
            out.push(("cpc.fic".into(), format!("first_interesting_column {fic} but row {row} has a zero below it ({:#x}); updates there would be dropped", want[row])));
        }
    }
    if st.has_table && st.table_entries as usize != st.table_items.len() {
        out.push(("cpc.table_count".into(), format!("pair table num_items {} but {} occupied slots", st.table_entries, st.table_items.len())));
    }
    out.extend(check_bounds(s));
    out
}

#[derive(Clone)]
pub struct Duo {
    pub s: CpcSketch,
    pub r: RefCpc,
}

impl Duo {
    pub fn new(lg_k: u8) -> Self {
        Duo { s: CpcSketch::new(lg_k), r: RefCpc::new(lg_k) }
    }
    pub fn from_pairs(lg_k: u8, pairs: &[u32]) -> Self {
        let mut d = Duo::new(lg_k);
        for &p in pairs {
            assert!(d.r.allows(p));
            d.s.verif_row_col_update(p);
            d.r.offer(p);
        }
        d
    }

    pub fn check_full(&self) -> Vec<(String, String)> {
        self.check_full_st(&self.s.verif_state())
    }

    pub fn check_full_st(&self, st: &VerifCpcState) -> Vec<(String, String)> {
        let mut out = check_structure_st(&self.s, st, &self.r.m, self.r.lg_k);
        if !st.merge_flag {
            let want = self.r.kxp();
            let k = (1u64 << self.r.lg_k) as f64;
            let _ = k;
            if (st.kxp - want).abs() > self.r.kxp_eps() {
                out.push(("cpc.kxp".into(), format!("kxp {} but unset-bit probability mass is {} (C={}, offset {})", st.kxp, want, self.r.count, st.window_offset)));
            }
            if (st.hip_est_accum - self.r.hip).abs() > self.r.hip_err + 1e-12 * self.r.hip {
                out.push(("cpc.hip".into(), format!("hip accumulator {} but reference {} (C={})", st.hip_est_accum, self.r.hip, self.r.count)));
            }
            if self.s.estimate().to_bits() != st.hip_est_accum.to_bits() {
                out.push(("cpc.estimate_not_hip".into(), "estimate() of an unmerged sketch is not the HIP accumulator".into()));
            }
        } else {
            out.push(("cpc.merge_flag".into(), "a streamed sketch is marked merged".into()));
        }
        out
    }

    /// One update + full oracle. Returns violations.
    /// One update + full oracle; a panic anywhere (update or accessor) is itself a violation.
    pub fn offer(&mut self, p: u32, edges: &mut BTreeMap<String, u64>) -> Vec<(String, String)> {
        let c = self.r.count;
        match catch(|| self.offer_inner(p, edges)) {
            Ok(v) => v,
            Err(pi) => vec![(format!("panic|{}", pi.site_key()), format!("panicked at C={c} while offering pair {p:#x} / reading the state: {} at {}:{}", pi.message, pi.file, pi.line))],
        }
    }

    fn offer_inner(&mut self, p: u32, edges: &mut BTreeMap<String, u64>) -> Vec<(String, String)> {
        assert!(self.r.allows(p), "model precondition");
        let before = self.s.verif_state();
        let novel = !self.r.has(p);
        if let Err(pi) = catch(|| self.s.verif_row_col_update(p)) {
            return vec![(format!("panic|{}", pi.site_key()), format!("update panicked at C={}: {} at {}:{}", self.r.count, pi.message, pi.file, pi.line))];
        }
        self.r.offer(p);
        let after = self.s.verif_state();
        let mut out = self.check_full_st(&after);
        if !novel && !same_state(&before, &after) {
            out.push(("cpc.duplicate_changes_state".into(), format!("re-offering pair {:#x} changed the sketch (C={})", p, self.r.count)));
        }
        record_edges(&before, &after, p, novel, edges);
        out
    }

    pub fn offer_light(&mut self, p: u32) -> Vec<(String, String)> {
        assert!(self.r.allows(p), "model precondition");
        if let Err(pi) = catch(|| self.s.verif_row_col_update(p)) {
            return vec![(format!("panic|{}", pi.site_key()), format!("update panicked at C={}: {} at {}:{}", self.r.count, pi.message, pi.file, pi.line))];
        }
        self.r.offer(p);
        let mut out = vec![];
        if self.s.num_coupons() != self.r.count {
            out.push(("cpc.num_coupons".into(), format!("num_coupons {} but model {}", self.s.num_coupons(), self.r.count)));
        }
        out
    }
}

pub fn same_state(a: &VerifCpcState, b: &VerifCpcState) -> bool {
    let mut ta = a.table_items.clone();
    let mut tb = b.table_items.clone();
    ta.sort_unstable();
    tb.sort_unstable();
    a.num_coupons == b.num_coupons
        && a.window_offset == b.window_offset
        && a.first_interesting_column == b.first_interesting_column
        && a.window == b.window
        && ta == tb
        && a.kxp.to_bits() == b.kxp.to_bits()
        && a.hip_est_accum.to_bits() == b.hip_est_accum.to_bits()
        && a.merge_flag == b.merge_flag
}

const FLAVORS: [&str; 5] = ["Empty", "Sparse", "Hybrid", "Pinned", "Sliding"];

pub fn record_edges(b: &VerifCpcState, a: &VerifCpcState, p: u32, novel: bool, edges: &mut BTreeMap<String, u64>) {
    let mut e = |s: String| *edges.entry(s).or_insert(0) += 1;
    if a.flavor != b.flavor {
        e(format!("{}->{}", FLAVORS[b.flavor as usize], FLAVORS[a.flavor as usize]));
    }
    if a.window_offset != b.window_offset {
        e(format!("window move (offset {:02})", a.window_offset));
        if a.window_offset & 7 == 0 {
            e("window move with kxp refresh".to_string());
        }
        if a.first_interesting_column != b.first_interesting_column {
            e("first_interesting_column changed by a window move".to_string());
        }
    }
    let col = (p & 63) as u8;
    if b.has_window {
        if col < b.first_interesting_column {
            e("update skipped: col < first_interesting_column".to_string());
        } else if col < b.window_offset {
            e(format!("early-zone update (inverted logic), {}", if novel { "novel" } else { "duplicate" }));
        } else if col < b.window_offset + 8 {
            e(format!("window update, {}", if novel { "novel" } else { "duplicate" }));
        } else {
            e(format!("late-zone update, {}", if novel { "novel" } else { "duplicate" }));
        }
    } else if b.num_coupons > 0 {
        e(format!("sparse update, {}", if novel { "novel" } else { "duplicate" }));
    }
    if b.has_table && a.has_table && a.window_offset == b.window_offset {
        if a.table_lg_size > b.table_lg_size {
            e("pair table grow".to_string());
        } else if a.table_lg_size < b.table_lg_size {
            e("pair table shrink".to_string());
        }
    }
}

pub fn replay_json(lg_k: u8, pairs: &[u32]) -> Value {
    json!({"kind":"cpc_pairs","lg_k":lg_k,"pairs":pairs})
}

pub fn replay(case: &Value) -> String {
    let lg_k = case["lg_k"].as_u64().unwrap() as u8;
    let pairs: Vec<u32> = case["pairs"].as_array().unwrap().iter().map(|v| v.as_u64().unwrap() as u32).collect();
    let mut d = Duo::new(lg_k);
    let mut edges = BTreeMap::new();
    let mut log = String::new();
    for (i, &p) in pairs.iter().enumerate() {
        if !d.r.allows(p) {
            log.push_str(&format!("step {i}: pair {p:#x} refused by the model precondition\n"));
            continue;
        }
        for (k, w) in d.offer(p, &mut edges) {
            log.push_str(&format!("step {i} pair (row {}, col {}): VIOLATES {k}: {w}\n", p >> 6, p & 63));
        }
    }
    log.push_str(&format!("final: C={} estimate={}\n", d.s.num_coupons(), d.s.estimate()));
    log
}

pub fn report(ctx: &Ctx, vs: Vec<(String, String)>, lg_k: u8, pairs: &[u32]) -> bool {
    let mut new = false;
    for (k, w) in vs {
        new |= k.starts_with("panic|");
        new |= ctx.violation(&k, &format!("lg_k={lg_k}: {w}"), replay_json(lg_k, pairs));
    }
    new
}
