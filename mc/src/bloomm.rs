//! Bloom filter reference model (`ref_bloom`: bit vector + obligation set) and the C09 oracle.
//!
//! Reference positions: `((h0 + i*h1) >> 1) mod capacity`, i = 1..=num_hashes,
//! `h0 = ref_xxh64(bytes(x), seed)`, `h1 = ref_xxh64(bytes(x), h0)` with `refhash::xxh64`
//! (written from the published algorithm) and `bytes(x)` = what the item's `Hash` impl writes.
//! The real bit array and `num_bits_set` are read from `serialize()`.

use crate::cmm::{Item, candidate};
use crate::common::{PanicInfo, catch};
use crate::refhash;
use datasketches::bloom::{BloomFilter, BloomFilterBuilder};
use serde_json::{Value, json};
use std::sync::atomic::{AtomicU64, Ordering};

pub const ALPHABET_ITEMS: usize = 12;
pub const DOMAIN: usize = 64;

/// The 12 alphabet items: i in 0..4 of each kind (u64, &str, byte slice).
pub fn alphabet_items() -> Vec<Item> {
    let mut v = vec![];
    for i in 0..4u64 {
        v.push(Item::U(i));
    }
    for i in 0..4 {
        v.push(Item::S(format!("item-{i}")));
    }
    for i in 0..4u8 {
        v.push(Item::B(vec![i; (i as usize) + 1]));
    }
    v
}

pub fn ref_positions(bytes: &[u8], seed: u64, num_hashes: u16, capacity: u64) -> Vec<u32> {
    let h0 = refhash::xxh64(bytes, seed);
    let h1 = refhash::xxh64(bytes, h0);
    (1..=num_hashes as u64).map(|i| ((h0.wrapping_add(i.wrapping_mul(h1)) >> 1) % capacity) as u32).collect()
}

#[derive(Clone, Debug)]
pub struct Layout {
    pub num_bits: u64,
    pub num_hashes: u16,
    pub seed: u64,
    pub words: usize,
    /// query domain; the first `active` items are the only ones that are ever inserted
    pub items: Vec<Item>,
    pub active: usize,
    pub pos: Vec<Vec<u32>>,
}

impl Layout {
    pub fn build(num_bits: u64, num_hashes: u16, seed: u64, active: Vec<Item>) -> Layout {
        let words = num_bits.div_ceil(64) as usize;
        let n_active = active.len();
        assert!(n_active <= 64);
        let mut items = active;
        let mut j = 0;
        while items.len() < DOMAIN.max(n_active) {
            let c = candidate(1000 + j);
            if !items.contains(&c) {
                items.push(c);
            }
            j += 1;
        }
        let pos = items.iter().map(|it| ref_positions(&it.bytes(), seed, num_hashes, words as u64 * 64)).collect();
        Layout { num_bits, num_hashes, seed, words, items, active: n_active, pos }
    }
    pub fn new(num_bits: u64, num_hashes: u16, seed: u64) -> Layout {
        Self::build(num_bits, num_hashes, seed, alphabet_items())
    }
    pub fn cfg_json(&self) -> Value {
        json!({"num_bits": self.num_bits, "num_hashes": self.num_hashes, "seed": self.seed})
    }
    pub fn make(&self) -> Result<BloomFilter, PanicInfo> {
        let (b, h, s) = (self.num_bits, self.num_hashes, self.seed);
        catch(|| BloomFilterBuilder::with_size(b, h).seed(s).build())
    }
}

#[derive(Clone, Debug, PartialEq)]
pub enum Op {
    Insert(u8),
    ContainsInsert(u8),
    Union(u8),
    Intersect(u8),
    Invert,
    Reset,
    RoundTrip,
}

pub fn alphabet() -> Vec<Op> {
    let mut v = vec![];
    for i in 0..ALPHABET_ITEMS as u8 {
        v.push(Op::Insert(i));
    }
    for i in 0..ALPHABET_ITEMS as u8 {
        v.push(Op::ContainsInsert(i));
    }
    for j in 0..4 {
        v.push(Op::Union(j));
    }
    for j in 0..4 {
        v.push(Op::Intersect(j));
    }
    v.extend([Op::Invert, Op::Reset, Op::RoundTrip]);
    v
}

/// Pool of 4 compatible filters given by their inserted item sets.
pub fn pool_recipes() -> Vec<Vec<u8>> {
    vec![vec![0], vec![1, 4, 8], (0..ALPHABET_ITEMS as u8).collect(), vec![]]
}

#[derive(Clone, Debug, PartialEq)]
pub struct Model {
    pub bits: Vec<u64>,
    /// bit i set: item i must be reported as contained
    pub oblig: u64,
}

impl Model {
    pub fn popcount(&self) -> u64 {
        self.bits.iter().map(|w| w.count_ones() as u64).sum()
    }
    pub fn get(&self, p: u32) -> bool {
        self.bits[(p / 64) as usize] >> (p % 64) & 1 == 1
    }
    pub fn all_set(&self, pos: &[u32]) -> bool {
        pos.iter().all(|&p| self.get(p))
    }
}

#[derive(Clone)]
pub struct Pair {
    pub f: BloomFilter,
    pub m: Model,
    pub key: Vec<u8>,
    /// hash of the op history; part of the key only while the image is the empty form, which
    /// says nothing about the in-memory bits (such states must not be merged with each other)
    pub hist: u64,
}

pub enum Applied {
    Done(Vec<(String, String)>, Vec<u8>),
}

pub const EDGE_NAMES: [&str; 29] = [
    "insert into an empty filter",
    "insert hits a bit that is already set (shared with another item or an earlier probe of the same item)",
    "insert of an item already reported contained (no bit changes)",
    "insert of a u64 item",
    "insert of a &str item",
    "insert of a byte-slice item",
    "contains_and_insert returns false",
    "contains_and_insert returns true for a previously inserted item",
    "contains_and_insert returns true for an item never inserted (false positive)",
    "probe lands on bit 0 or 63 of a word (word boundary)",
    "probe lands in the last word",
    "probe lands at or beyond the requested num_bits (capacity is the word-rounded size)",
    "union(non-empty into non-empty)",
    "union(empty operand)",
    "union into an empty filter",
    "intersect leaves an empty filter",
    "intersect keeps a non-empty filter",
    "intersect(empty operand)",
    "intersect with an item inserted into both operands (obligation survives)",
    "invert",
    "invert of an empty filter (all ones)",
    "invert yields an empty filter",
    "reset of a non-empty filter",
    "reset of an empty filter",
    "serialize->deserialize of an empty filter (24-byte image)",
    "serialize->deserialize of a non-empty filter",
    "state with a false positive: contains(x) for an item without obligation",
    "state with every bit set",
    "state where bits_used is a multiple of 64 and non-zero",
];

pub struct Edges(pub Vec<AtomicU64>);
impl Default for Edges {
    fn default() -> Self {
        Edges((0..EDGE_NAMES.len()).map(|_| AtomicU64::new(0)).collect())
    }
}
impl Edges {
    pub fn hit(&self, prefix: &str) {
        let i = EDGE_NAMES.iter().position(|n| n.starts_with(prefix)).expect("edge name");
        self.0[i].fetch_add(1, Ordering::Relaxed);
    }
    pub fn flush(&self, ctx: &crate::common::Ctx) {
        let mut e = ctx.edges.lock().unwrap();
        for (i, n) in EDGE_NAMES.iter().enumerate() {
            let v = self.0[i].load(Ordering::Relaxed);
            if v > 0 {
                *e.entry(n.to_string()).or_insert(0) += v;
            }
        }
    }
}

fn f_insert(f: &mut BloomFilter, it: &Item) {
    match it {
        Item::U(x) => f.insert(*x),
        Item::S(s) => f.insert(s.as_str()),
        Item::B(b) => f.insert(b.as_slice()),
    }
}
fn f_contains(f: &BloomFilter, it: &Item) -> bool {
    match it {
        Item::U(x) => f.contains(x),
        Item::S(s) => f.contains(&s.as_str()),
        Item::B(b) => f.contains(&b.as_slice()),
    }
}
fn f_contains_insert(f: &mut BloomFilter, it: &Item) -> bool {
    match it {
        Item::U(x) => f.contains_and_insert(x),
        Item::S(s) => f.contains_and_insert(&s.as_str()),
        Item::B(b) => f.contains_and_insert(&b.as_slice()),
    }
}

/// Keeps the first violation of each key.
fn dedup_keys(out: &mut Vec<(String, String)>) {
    let mut seen_keys: Vec<String> = vec![];
    out.retain(|(k, _)| {
        if seen_keys.contains(k) {
            false
        } else {
            seen_keys.push(k.clone());
            true
        }
    });
}

fn panic_vio(site: &str, p: &PanicInfo) -> (String, String) {
    (format!("panic|{}", p.site_key()), format!("{site} panicked: {} at {}:{}", p.message, p.file, p.line))
}

impl Pair {
    pub fn new(lay: &Layout) -> Result<Pair, (String, String)> {
        let f = lay.make().map_err(|p| panic_vio("BloomFilterBuilder::with_size(..).seed(..).build()", &p))?;
        Ok(Pair { f, m: Model { bits: vec![0; lay.words], oblig: 0 }, key: vec![], hist: 0 })
    }

    pub fn apply(&mut self, lay: &Layout, pool: &[Pair], op: &Op, edges: &Edges, first_visit: &dyn Fn(&[u8]) -> bool) -> Applied {
        self.hist = (self.hist ^ (format!("{op:?}").bytes().fold(0xcbf29ce484222325u64, |h, b| (h ^ b as u64).wrapping_mul(0x100000001b3)))).wrapping_mul(0x9E3779B97F4A7C15).wrapping_add(1);
        let mut out: Vec<(String, String)> = vec![];
        match op {
            Op::Insert(i) | Op::ContainsInsert(i) => {
                let i = *i as usize;
                let item = &lay.items[i];
                let pos = &lay.pos[i];
                let before = self.m.popcount();
                let model_contained = before > 0 && self.m.all_set(pos);
                let newly;
                {
                    let mut distinct = pos.clone();
                    distinct.sort_unstable();
                    distinct.dedup();
                    newly = distinct.iter().filter(|&&p| !self.m.get(p)).count();
                    for &p in pos {
                        if p % 64 == 0 || p % 64 == 63 {
                            edges.hit("probe lands on bit 0 or 63");
                        }
                        if (p / 64) as usize == lay.words - 1 {
                            edges.hit("probe lands in the last word");
                        }
                        if p as u64 >= lay.num_bits {
                            edges.hit("probe lands at or beyond the requested num_bits");
                        }
                    }
                }
                if before == 0 {
                    edges.hit("insert into an empty filter");
                }
                if newly == 0 {
                    edges.hit("insert of an item already reported contained");
                } else if newly < pos.len() {
                    edges.hit("insert hits a bit that is already set");
                }
                edges.hit(match item {
                    Item::U(_) => "insert of a u64 item",
                    Item::S(_) => "insert of a &str item",
                    Item::B(_) => "insert of a byte-slice item",
                });
                if matches!(op, Op::Insert(_)) {
                    if let Err(p) = catch(|| f_insert(&mut self.f, item)) {
                        return Applied::Done(vec![panic_vio("insert", &p)], vec![]);
                    }
                } else {
                    let pre = match catch(|| f_contains(&self.f, item)) {
                        Ok(b) => b,
                        Err(p) => return Applied::Done(vec![panic_vio("contains", &p)], vec![]),
                    };
                    let got = match catch(|| f_contains_insert(&mut self.f, item)) {
                        Ok(b) => b,
                        Err(p) => return Applied::Done(vec![panic_vio("contains_and_insert", &p)], vec![]),
                    };
                    if got != pre {
                        out.push(("bloom.contains_and_insert".into(), format!("contains_and_insert({:?}) returned {got} but contains() returned {pre} immediately before", item)));
                    }
                    if got != model_contained {
                        out.push(("bloom.contains_and_insert".into(), format!("contains_and_insert({:?}) returned {got}; in the reference bit array the item's positions were {}all set before the call", item, if model_contained { "" } else { "not " })));
                    }
                    if !got && self.m.oblig >> i & 1 == 1 {
                        out.push(("bloom.false_negative".into(), format!("contains_and_insert({:?}) returned false for an item that was inserted before", item)));
                    }
                    edges.hit(if !got {
                        "contains_and_insert returns false"
                    } else if self.m.oblig >> i & 1 == 1 {
                        "contains_and_insert returns true for a previously inserted item"
                    } else {
                        "contains_and_insert returns true for an item never inserted"
                    });
                }
                for &p in pos {
                    self.m.bits[(p / 64) as usize] |= 1 << (p % 64);
                }
                self.m.oblig |= 1 << i;
            }
            Op::Union(j) => {
                let o = &pool[*j as usize];
                let (a, b) = (self.m.popcount(), o.m.popcount());
                edges.hit(if b == 0 {
                    "union(empty operand)"
                } else if a == 0 {
                    "union into an empty filter"
                } else {
                    "union(non-empty into non-empty)"
                });
                if let Err(p) = catch(|| self.f.union(&o.f)) {
                    return Applied::Done(vec![panic_vio("union", &p)], vec![]);
                }
                for (x, y) in self.m.bits.iter_mut().zip(&o.m.bits) {
                    *x |= *y;
                }
                self.m.oblig |= o.m.oblig;
            }
            Op::Intersect(j) => {
                let o = &pool[*j as usize];
                if let Err(p) = catch(|| self.f.intersect(&o.f)) {
                    return Applied::Done(vec![panic_vio("intersect", &p)], vec![]);
                }
                for (x, y) in self.m.bits.iter_mut().zip(&o.m.bits) {
                    *x &= *y;
                }
                self.m.oblig &= o.m.oblig;
                if o.m.popcount() == 0 {
                    edges.hit("intersect(empty operand)");
                }
                edges.hit(if self.m.popcount() == 0 { "intersect leaves an empty filter" } else { "intersect keeps a non-empty filter" });
                if self.m.oblig != 0 {
                    edges.hit("intersect with an item inserted into both operands");
                }
            }
            Op::Invert => {
                let a = self.m.popcount();
                edges.hit(if a == 0 { "invert of an empty filter" } else { "invert" });
                if let Err(p) = catch(|| self.f.invert()) {
                    return Applied::Done(vec![panic_vio("invert", &p)], vec![]);
                }
                for x in self.m.bits.iter_mut() {
                    *x = !*x;
                }
                self.m.oblig = 0;
                if self.m.popcount() == 0 {
                    edges.hit("invert yields an empty filter");
                }
            }
            Op::Reset => {
                edges.hit(if self.m.popcount() == 0 { "reset of an empty filter" } else { "reset of a non-empty filter" });
                if let Err(p) = catch(|| self.f.reset()) {
                    return Applied::Done(vec![panic_vio("reset", &p)], vec![]);
                }
                for x in self.m.bits.iter_mut() {
                    *x = 0;
                }
                self.m.oblig = 0;
            }
            Op::RoundTrip => {
                edges.hit(if self.m.popcount() == 0 { "serialize->deserialize of an empty filter" } else { "serialize->deserialize of a non-empty filter" });
                let before = self.f.clone();
                let r = catch(|| {
                    let bytes = self.f.serialize();
                    BloomFilter::deserialize(&bytes)
                });
                match r {
                    Err(p) => return Applied::Done(vec![panic_vio("serialize/deserialize", &p)], vec![]),
                    Ok(Err(e)) => {
                        return Applied::Done(vec![("bloom.roundtrip".into(), format!("deserialize(serialize()) failed: {e}"))], vec![]);
                    }
                    Ok(Ok(g)) => {
                        if g != before {
                            out.push(("bloom.roundtrip".into(), "deserialize(serialize()) != the original filter (PartialEq)".into()));
                        }
                        self.f = g;
                    }
                }
            }
        }
        let (vs, img) = self.check_state(lay, edges, first_visit);
        out.extend(vs);
        Applied::Done(out, img)
    }

    /// The oracle of C09 on the current state; refreshes `self.key`.
    /// `first_visit(key)`: the `contains` queries (pure functions of bit array, num_bits_set
    /// and configuration, all in the key) are evaluated when it returns true.
    pub fn check_state(&mut self, lay: &Layout, edges: &Edges, first_visit: &dyn Fn(&[u8]) -> bool) -> (Vec<(String, String)>, Vec<u8>) {
        let mut out: Vec<(String, String)> = vec![];
        let img = match catch(|| self.f.serialize()) {
            Ok(i) => i,
            Err(p) => return (vec![panic_vio("serialize", &p)], vec![]),
        };
        let words = lay.words;
        let pop = self.m.popcount();
        let empty_img = img.len() == 24;
        let header_ok = img.len() >= 24
            && img[1] == 1
            && img[2] == 21
            && u16::from_le_bytes([img[4], img[5]]) == lay.num_hashes
            && u64::from_le_bytes(img[8..16].try_into().unwrap()) == lay.seed
            && i32::from_le_bytes(img[16..20].try_into().unwrap()) == words as i32
            && ((empty_img && img[0] == 3 && img[3] & 4 == 4) || (img.len() == 32 + 8 * words && img[0] == 4 && img[3] & 4 == 0));
        if !header_ok {
            out.push(("bloom.image".into(), format!("serialize() produced {} bytes with preamble {:02x?}; expected 24 (empty) or {} bytes, serVer 1, family 21, numHashes {}, seed {}, numLongs {}", img.len(), &img[..img.len().min(24)], 32 + 8 * words, lay.num_hashes, lay.seed, words)));
            return (out, img);
        }
        let real_at = |i: usize| -> u64 { if empty_img { 0 } else { u64::from_le_bytes(img[32 + 8 * i..40 + 8 * i].try_into().unwrap()) } };
        let img_count = if empty_img { 0 } else { u64::from_le_bytes(img[24..32].try_into().unwrap()) };
        // bit array == reference
        let mut diff_bits = 0u64;
        let mut first: Option<(usize, u64, u64)> = None;
        let mut real_pop = 0u64;
        let mut zeros = 0usize;
        for i in 0..words {
            let r = real_at(i);
            real_pop += r.count_ones() as u64;
            if r == 0 {
                zeros += 1;
            }
            let x = r ^ self.m.bits[i];
            if x != 0 {
                diff_bits += x.count_ones() as u64;
                if first.is_none() {
                    first = Some((i, r, self.m.bits[i]));
                }
            }
        }
        // key: sparse against the dominant fill word
        let fill: u64 = if zeros * 2 >= words { 0 } else { u64::MAX };
        let mut key: Vec<u8> = Vec::with_capacity(64);
        key.push((fill & 1) as u8);
        for i in 0..words {
            let r = real_at(i);
            if r != fill {
                key.extend_from_slice(&(i as u32).to_le_bytes());
                key.extend_from_slice(&r.to_le_bytes());
            }
        }
        key.extend_from_slice(&img_count.to_le_bytes());
        key.extend_from_slice(&self.m.oblig.to_le_bytes());
        if empty_img && self.hist != 0 {
            key.extend_from_slice(&self.hist.to_le_bytes());
        }
        self.key = key;
        if let Some((i, r, m)) = first {
            let x = r ^ m;
            let b = x.trailing_zeros();
            out.push((
                "bloom.bits".into(),
                format!(
                    "{diff_bits} bit(s) differ from the reference array; first: word {i} bit {b} (position {}) is {} in the filter, {} in the reference; word = {:#018x}, reference {:#018x}",
                    i * 64 + b as usize,
                    r >> b & 1,
                    m >> b & 1,
                    r,
                    m
                ),
            ));
        }
        let acc = catch(|| (self.f.bits_used(), self.f.is_empty(), self.f.capacity(), self.f.num_hashes(), self.f.seed()));
        match acc {
            Err(p) => out.push(panic_vio("accessors", &p)),
            Ok((used, emp, cap, nh, sd)) => {
                if used != real_pop {
                    out.push(("bloom.bits_used".into(), format!("bits_used() = {used} but the population count of the filter's bit array is {real_pop}")));
                }
                if img_count != real_pop {
                    out.push(("bloom.bits_used".into(), format!("serialized numBitsSet = {img_count} but the population count of the serialized bit array is {real_pop}")));
                }
                if emp != (real_pop == 0) {
                    out.push(("bloom.is_empty".into(), format!("is_empty() = {emp} with {real_pop} bits set")));
                }
                if cap != words * 64 || nh != lay.num_hashes || sd != lay.seed {
                    out.push(("bloom.config".into(), format!("capacity {cap} / num_hashes {nh} / seed {sd} differ from the configuration ({} bits requested -> {} words)", lay.num_bits, words)));
                }
            }
        }
        if pop > 0 && pop % 64 == 0 {
            edges.hit("state where bits_used is a multiple of 64");
        }
        // an empty-form image carries no bit array: it says nothing about the in-memory bits,
        // so the live object is always queried there
        let seen_before = !first_visit(&self.key);
        if !out.is_empty() || (seen_before && !empty_img) {
            dedup_keys(&mut out);
            return (out, img);
        }
        if pop == words as u64 * 64 {
            edges.hit("state with every bit set");
        }
        // contains(x) for every item of the query domain
        let f = &self.f;
        let items = &lay.items;
        let q = match catch(|| items.iter().map(|it| f_contains(f, it)).collect::<Vec<bool>>()) {
            Ok(q) => q,
            Err(p) => {
                out.push(panic_vio("contains", &p));
                return (out, img);
            }
        };
        let mut fp = false;
        for (i, got) in q.iter().enumerate() {
            let want = pop > 0 && self.m.all_set(&lay.pos[i]);
            let obliged = i < 64 && self.m.oblig >> i & 1 == 1;
            if obliged && !*got {
                out.push(("bloom.false_negative".into(), format!("contains({:?}) is false although the item was inserted (directly, via a union operand, or into both intersect operands)", items[i])));
            } else if *got != want {
                out.push(("bloom.contains".into(), format!("contains({:?}) = {got}, but in the reference bit array the item's {} positions are {}all set", items[i], lay.num_hashes, if want { "" } else { "not " })));
            }
            if obliged && !want {
                out.push(("bloom.model".into(), format!("reference array lacks a position of obliged item {:?} (harness bug)", items[i])));
            }
            if *got && !obliged {
                fp = true;
            }
            if out.len() > 6 {
                break;
            }
        }
        if fp {
            edges.hit("state with a false positive");
        }
        dedup_keys(&mut out);
        (out, img)
    }
}

/// Builds one pool member by real inserts, checking the oracle after every insert.
pub fn build_member(lay: &Layout, recipe: &[u8], edges: &Edges) -> Result<Pair, Vec<(String, String)>> {
    let mut p = Pair::new(lay).map_err(|v| vec![v])?;
    let (vs, _) = p.check_state(lay, edges, &|_| true);
    if !vs.is_empty() {
        return Err(vs);
    }
    for i in recipe {
        let Applied::Done(vs, _) = p.apply(lay, &[], &Op::Insert(*i), edges, &|_| true);
        if !vs.is_empty() {
            return Err(vs);
        }
    }
    Ok(p)
}

pub fn op_json(lay: &Layout, recipes: &[Vec<u8>], op: &Op) -> Value {
    let set = |j: &u8| recipes[*j as usize].iter().map(|i| lay.items[*i as usize].json()).collect::<Vec<_>>();
    match op {
        Op::Insert(i) => json!({"insert": lay.items[*i as usize].json()}),
        Op::ContainsInsert(i) => json!({"contains_and_insert": lay.items[*i as usize].json()}),
        Op::Union(j) => json!({"union": set(j)}),
        Op::Intersect(j) => json!({"intersect": set(j)}),
        Op::Invert => json!("invert"),
        Op::Reset => json!("reset"),
        Op::RoundTrip => json!("roundtrip"),
    }
}

pub fn replay_json(lay: &Layout, recipes: &[Vec<u8>], ops: &[Op]) -> Value {
    json!({
        "kind": "bloom_ops",
        "cfg": lay.cfg_json(),
        "ops": ops.iter().map(|o| op_json(lay, recipes, o)).collect::<Vec<_>>(),
        "note": "on a fresh BloomFilterBuilder::with_size(num_bits, num_hashes).seed(seed).build(); union/intersect take a fresh filter of the same configuration into which the listed items were inserted; roundtrip = deserialize(serialize())",
    })
}

pub fn replay(case: &Value) -> String {
    let cfg = &case["cfg"];
    let (bits, hashes, seed) = (cfg["num_bits"].as_u64().unwrap(), cfg["num_hashes"].as_u64().unwrap() as u16, cfg["seed"].as_u64().unwrap());
    let ops_j = case["ops"].as_array().cloned().unwrap_or_default();
    let mut active: Vec<Item> = vec![];
    let mut note = |v: &Value| {
        let it = Item::from_json(v);
        if !active.contains(&it) {
            active.push(it);
        }
    };
    for o in &ops_j {
        for k in ["insert", "contains_and_insert"] {
            if let Some(v) = o.get(k) {
                note(v);
            }
        }
        for k in ["union", "intersect"] {
            if let Some(v) = o.get(k) {
                for it in v.as_array().unwrap() {
                    note(it);
                }
            }
        }
    }
    let lay = Layout::build(bits, hashes, seed, active);
    let idx = |v: &Value| -> u8 {
        let it = Item::from_json(v);
        lay.items.iter().position(|x| *x == it).unwrap() as u8
    };
    let edges = Edges::default();
    let mut log = String::new();
    let mut pool: Vec<Pair> = vec![];
    let mut ops: Vec<Op> = vec![];
    for o in &ops_j {
        if let Some(v) = o.get("insert") {
            ops.push(Op::Insert(idx(v)));
        } else if let Some(v) = o.get("contains_and_insert") {
            ops.push(Op::ContainsInsert(idx(v)));
        } else if let Some(v) = o.get("union").or(o.get("intersect")) {
            let recipe: Vec<u8> = v.as_array().unwrap().iter().map(idx).collect();
            match build_member(&lay, &recipe, &edges) {
                Ok(p) => pool.push(p),
                Err(vs) => {
                    for (k, w) in vs {
                        log.push_str(&format!("building operand {:?}: VIOLATES {k}: {w}\n", recipe));
                    }
                    return log;
                }
            }
            let j = (pool.len() - 1) as u8;
            ops.push(if o.get("union").is_some() { Op::Union(j) } else { Op::Intersect(j) });
        } else if o == "invert" {
            ops.push(Op::Invert);
        } else if o == "reset" {
            ops.push(Op::Reset);
        } else if o == "roundtrip" {
            ops.push(Op::RoundTrip);
        }
    }
    let mut p = match Pair::new(&lay) {
        Ok(p) => p,
        Err((k, w)) => return format!("constructor: VIOLATES {k}: {w}\n"),
    };
    for (i, op) in ops.iter().enumerate() {
        let Applied::Done(vs, _) = p.apply(&lay, &pool, op, &edges, &|_| true);
        for (k, w) in &vs {
            log.push_str(&format!("step {i} {:?}: VIOLATES {k}: {w}\n", op));
        }
        if vs.iter().any(|(k, _)| k.starts_with("panic|")) {
            break;
        }
    }
    let used = catch(|| p.f.bits_used()).unwrap_or(u64::MAX);
    log.push_str(&format!("final: bits_used()={} reference popcount={} obligations={:#b}\n", used, p.m.popcount(), p.m.oblig));
    log
}

/// Executes an op list and describes every step (for the evidence samples).
pub fn describe(lay: &Layout, recipes: &[Vec<u8>], ops: &[Op]) -> Value {
    let edges = Edges::default();
    let pool: Vec<Pair> = recipes.iter().map(|r| build_member(lay, r, &edges).ok().unwrap()).collect();
    let mut p = Pair::new(lay).ok().unwrap();
    let mut steps = vec![];
    for op in ops {
        let Applied::Done(vs, img) = p.apply(lay, &pool, op, &edges, &|_| true);
        let contained: Vec<usize> = (0..lay.active).filter(|&i| f_contains(&p.f, &lay.items[i])).collect();
        steps.push(json!({
            "op": op_json(lay, recipes, op),
            "bits_used": p.f.bits_used(),
            "reference_popcount": p.m.popcount(),
            "image_bytes": img.len(),
            "obliged_items": (0..lay.active).filter(|&i| p.m.oblig >> i & 1 == 1).collect::<Vec<_>>(),
            "alphabet_items_reported_contained": contained,
            "violations": vs.into_iter().map(|(k, _)| k).collect::<Vec<_>>(),
        }));
    }
    json!({"cfg": lay.cfg_json(), "capacity": lay.words * 64, "steps": steps})
}
