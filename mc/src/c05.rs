//! C05 — CPC sketch state is exactly the set of distinct (row, column) coupons seen.

use crate::common::{Ctx, Tier};
use crate::cpcm::{self, Duo, rc};
use crate::engine::{self, Step};
use rayon::prelude::*;
use serde_json::{Value, json};
use std::collections::BTreeMap;
use std::sync::Mutex;

pub type Observer = dyn Fn(&Ctx, &Duo, &dyn Fn() -> Value) + Sync;
pub fn no_observer(_: &Ctx, _: &Duo, _: &dyn Fn() -> Value) {}

/// Default runs: orders in which all k*64 pairs are offered, truncated at the model cap.
pub fn default_runs(lg_k: u8) -> Vec<(&'static str, Vec<u32>)> {
    default_runs_upto(lg_k, usize::MAX)
}

/// The default orders, generated only up to `max_len` pairs (large lg_k spot checks).
pub fn default_runs_upto(lg_k: u8, max_len: usize) -> Vec<(&'static str, Vec<u32>)> {
    let k = 1u32 << lg_k;
    let cap = (cpcm::max_coupons(lg_k) as usize).min(max_len);
    let mut out = vec![];
    let mut a = Vec::with_capacity(cap.min(1 << 24));
    'a: for col in 0..64 {
        for row in 0..k {
            if a.len() >= cap {
                break 'a;
            }
            a.push(rc(row, col));
        }
    }
    out.push(("column-major (natural: most probable pairs first)", a));
    let mut b = Vec::with_capacity(cap.min(1 << 24));
    'b: for row in 0..k {
        for col in 0..64 {
            if b.len() >= cap {
                break 'b;
            }
            b.push(rc(row, col));
        }
    }
    out.push(("row-major (each row filled to column 63 before the next)", b));
    let mut c = Vec::with_capacity(cap.min(1 << 24));
    'c: for col in (0..64).rev() {
        for row in (0..k).rev() {
            if c.len() >= cap {
                break 'c;
            }
            c.push(rc(row, col));
        }
    }
    out.push(("high columns first (surprising values from the start)", c));
    let mut d = vec![];
    if lg_k <= 14 {
        // diagonal: pair (row, col) ordered by col*3 + (row*7 mod 11): interleaves zones
        let mut all: Vec<(u32, u32)> = (0..k).flat_map(|r| (0..64).map(move |c| (r, c))).collect();
        all.sort_by_key(|&(r, c)| (c * 3 + (r * 7) % 11, r));
        for (r, cc) in all {
            d.push(rc(r, cc));
        }
        d.truncate(cap);
    }
    out.push(("diagonal interleave of early/window/late zones", d));
    // hashed items 0..n: the pairs the public update derives (reference MurmurHash), duplicates
    // included; reaches the states ordinary streams reach (single surprising zeros, shrinking tables)
    let mut e = vec![];
    // (above lg_k 21 the crafted orders are skipped — sequential keys make the pair table crawl —
    // and the hashed run carries the whole spot check)
    let n = if lg_k > 21 { (max_len as u64).min(1 << 23) } else { (96u64 << lg_k).min(1 << 15).min(max_len as u64) };
    for i in 0..n {
        let (h1, h2) = crate::refhash::murmur3_x64_128(&i.to_le_bytes(), 9001);
        e.push(rc((h1 & (k as u64 - 1)) as u32, h2.leading_zeros().min(63)));
    }
    out.push(("hashed items 0..n (pairs from the reference MurmurHash)", e));
    out
}

/// "Move one pair later": the default run with the pair at position `i` delayed to position `j`.
fn moved(run: &[u32], i: usize, j: usize) -> Vec<u32> {
    let mut v: Vec<u32> = run.to_vec();
    let p = v.remove(i);
    v.insert(j.min(v.len()), p);
    v
}

/// Deviation family 2: every (grid) pair of a default run delayed by a few distances / to the end.
fn run_moves(ctx: &Ctx, lg_k: u8, src_stride: usize, obs: &Observer) {
    let k = 1usize << lg_k;
    let runs = default_runs(lg_k);
    let jobs: Vec<(usize, usize)> = (0..4).flat_map(|ri| (0..runs[ri].1.len()).step_by(src_stride).map(move |i| (ri, i))).collect();
    let edges = Mutex::new(BTreeMap::new());
    let steps = std::sync::atomic::AtomicU64::new(0);
    jobs.par_iter().for_each(|&(ri, i)| {
        let run = &runs[ri].1;
        for delta in [k, 4 * k, 16 * k, usize::MAX / 2] {
            let j = i.saturating_add(delta);
            if delta != usize::MAX / 2 && j >= run.len() {
                continue;
            }
            let r2 = moved(run, i, j);
            let mut d = Duo::new(lg_k);
            let mut e = BTreeMap::new();
            for (pos, &p) in r2.iter().enumerate() {
                if !d.r.allows(p) {
                    continue;
                }
                let vs = d.offer(p, &mut e);
                steps.fetch_add(1, std::sync::atomic::Ordering::Relaxed);
                if !vs.is_empty() && cpcm::report(ctx, vs, lg_k, &r2[..=pos]) {
                    break;
                }
                if pos == j.min(r2.len() - 1) {
                    obs(ctx, &d, &|| cpcm::replay_json(lg_k, &r2[..=pos]));
                }
            }
            let mut g = edges.lock().unwrap();
            for (kk, v) in e {
                *g.entry(kk).or_insert(0) += v;
            }
        }
    });
    let st = steps.load(std::sync::atomic::Ordering::Relaxed);
    ctx.add_states(st);
    ctx.add_transitions(st);
    ctx.count(&format!("E2 moves lg_k={lg_k}: executions with one pair delayed (by k, 4k, 16k, to the end)"), jobs.len() as u64 * 4);
    ctx.edges_merge(&edges.lock().unwrap());
}

fn dev_alphabet(d: &Duo) -> Vec<u32> {
    let k = 1u32 << d.r.lg_k;
    let w = cpcm::correct_offset(d.r.lg_k, d.r.count) as u32;
    let mut cols = vec![0u32, 7, 8, 63];
    for c in [w.wrapping_sub(1), w, w + 7, w + 8, w + 9] {
        if c < 64 {
            cols.push(c);
        }
    }
    cols.sort_unstable();
    cols.dedup();
    let mut out = vec![];
    for row in [0, k - 1] {
        for &c in &cols {
            let p = rc(row, c);
            if d.r.allows(p) {
                out.push(p);
            }
        }
    }
    out
}

fn run_deep(ctx: &Ctx, lg_k: u8, bound: usize, stride1: usize, stride2: usize, full_every: usize, max_len: usize, obs: &Observer) {
    default_runs_upto(lg_k, max_len).into_par_iter().for_each(|(rname, mut run)| {
        run.truncate(max_len);
        // The library's pair table degenerates to quadratic time under the row-major order
        // (sequential keys cluster: 7 s at lg_k 9, 50 s at 10, 7 min at 11, about an hour at 12),
        // so it is a whole-life run only where it finishes in seconds; the other four orders
        // cover the larger lg_k.
        if run.is_empty() || (lg_k > 9 && rname.starts_with("row-major")) || (lg_k > 21 && !rname.starts_with("hashed")) {
            return;
        }
        let init = Duo::new(lg_k);
        let t_run = std::time::Instant::now();
        let edges = Mutex::new(BTreeMap::new());
        let refused = std::sync::atomic::AtomicU64::new(0);
        let stats = engine::deviations(
            &init,
            &run,
            bound,
            &|_pos, _lvl, d: &Duo| dev_alphabet(d),
            &|pos, lvl| if lvl == 0 { pos % stride1 == 0 } else { pos % stride2 == 0 },
            &|d: &mut Duo, &p: &u32, trace: &[(usize, u32)], pos: usize| {
                if !d.r.allows(p) {
                    // a deviation consumed the last free coupon: the run's remaining new pairs are refused
                    refused.fetch_add(1, std::sync::atomic::Ordering::Relaxed);
                    return true;
                }
                let full = full_every == 1 || pos % full_every == 0 || pos + 1 >= run.len() || d.r.count < 64;
                let vs = if full {
                    let mut e = BTreeMap::new();
                    let vs = d.offer(p, &mut e);
                    let mut g = edges.lock().unwrap();
                    for (k, v) in e {
                        *g.entry(k).or_insert(0) += v;
                    }
                    vs
                } else {
                    d.offer_light(p)
                };
                let mk_ops = || -> Vec<u32> {
                    let mut ops = vec![];
                    let mut ti = 0;
                    for (i, &r) in run.iter().enumerate().take(pos + 1) {
                        while ti < trace.len() && trace[ti].0 == i {
                            ops.push(trace[ti].1);
                            ti += 1;
                        }
                        if i < pos {
                            ops.push(r);
                        }
                    }
                    if ops.last() != Some(&p) {
                        ops.push(p);
                    }
                    ops
                };
                if !vs.is_empty() {
                    if cpcm::report(ctx, vs, lg_k, &mk_ops()) {
                        return false;
                    }
                }
                if full && (trace.is_empty() || trace.last().map(|t| t.0) == Some(pos)) {
                    obs(ctx, d, &|| cpcm::replay_json(lg_k, &mk_ops()));
                }
                true
            },
        );
        if std::env::var("VERIF_DEBUG").is_ok() {
            eprintln!("c05 run_deep lg_k={lg_k} bound={bound} [{rname}]: {} steps in {:.1}s", stats.steps, t_run.elapsed().as_secs_f64());
        }
        ctx.add_states(stats.steps);
        ctx.add_transitions(stats.steps);
        ctx.count(&format!("E2 lg_k={lg_k} bound={bound} [{rname}] executions"), stats.executions);
        ctx.count("ops refused by the model precondition (coupon cap)", refused.load(std::sync::atomic::Ordering::Relaxed));
        ctx.edges_merge(&edges.lock().unwrap());
    });
}

/// E1 from non-initial states: BFS over 12 pairs straddling the current window edges.
fn run_small(ctx: &Ctx, lg_k: u8, depth: usize, obs: &Observer) {
    let runs = default_runs(lg_k);
    let k = 1u32 << lg_k;
    // prefixes: small counts and +-1 around every flavor change and window move
    let mut cs: Vec<u32> = vec![0, 1, 2, 7, 8];
    let cap = cpcm::max_coupons(lg_k);
    let mut prev_off = 0;
    let mut prev_fl = 0;
    for c in 1..=cap {
        let off = cpcm::correct_offset(lg_k, c);
        let fl = cpcm::flavor_of(lg_k, c);
        if off != prev_off || fl != prev_fl {
            for d in [3u32, 2, 1] {
                if c > d {
                    cs.push(c - d);
                }
            }
        }
        prev_off = off;
        prev_fl = fl;
    }
    cs.sort_unstable();
    cs.dedup();
    let jobs: Vec<(usize, u32)> = (0..4).flat_map(|ri| cs.iter().map(move |&c| (ri, c))).collect();
    let edges = Mutex::new(BTreeMap::new());
    jobs.par_iter().for_each(|&(ri, c)| {
        let (_rname, run) = &runs[ri];
        if c as usize > run.len() {
            return;
        }
        let prefix = &run[..c as usize];
        let d0 = match crate::common::catch(|| Duo::from_pairs(lg_k, prefix)) {
            Ok(d) => d,
            Err(p) => {
                cpcm::report(ctx, vec![(format!("panic|{}", p.site_key()), format!("update panicked while building a start state: {} at {}:{}", p.message, p.file, p.line))], lg_k, prefix);
                return;
            }
        };
        let w = cpcm::correct_offset(lg_k, c) as u32;
        let mut alphabet = vec![];
        for row in [0, k - 1] {
            for col in [w.saturating_sub(1), w, w + 1, (w + 7).min(63), (w + 8).min(63), 63] {
                alphabet.push(rc(row, col));
            }
        }
        alphabet.sort_unstable();
        alphabet.dedup();
        let alphabet = &alphabet;
        let stats = engine::bfs(
            vec![(d0, vec![])],
            alphabet,
            depth,
            1_000_000,
            |d: &Duo, &p: &u32, path: &[u16]| {
                if !d.r.allows(p) {
                    return Step::Refused;
                }
                let mut n = d.clone();
                let mut e = BTreeMap::new();
                let vs = n.offer(p, &mut e);
                {
                    let mut g = edges.lock().unwrap();
                    for (k, v) in e {
                        *g.entry(k).or_insert(0) += v;
                    }
                }
                let ops: Vec<u32> = prefix.iter().copied().chain(path.iter().map(|&i| alphabet[i as usize])).chain([p]).collect();
                if !vs.is_empty() {
                    if cpcm::report(ctx, vs, lg_k, &ops) {
                        return Step::Stop;
                    }
                }
                Step::Next(n)
            },
            |d: &Duo| d.r.m.clone(),
            |d: &Duo| (d.s.verif_bit_matrix(), d.s.num_coupons(), d.s.verif_state().window_offset),
            |p0: &[u16], p1: &[u16]| {
                ctx.violation(
                    "cpc.order_dependence",
                    &format!("lg_k={lg_k}: same pair set in two orders gives different matrices"),
                    json!({"kind":"cpc_two_orders","lg_k":lg_k,"prefix_len":c,"order_a":p0,"order_b":p1}),
                );
            },
            |d: &Duo, path: &[u16]| {
                obs(ctx, d, &|| cpcm::replay_json(lg_k, &prefix.iter().copied().chain(path.iter().map(|&i| alphabet[i as usize])).collect::<Vec<u32>>()));
            },
        );
        ctx.add_states(stats.states);
        ctx.add_transitions(stats.transitions);
        ctx.count(&format!("E1 lg_k={lg_k} start prefixes"), 1);
        ctx.count(&format!("E1 lg_k={lg_k} states"), stats.states);
        ctx.count(&format!("E1 lg_k={lg_k} merged arrivals compared"), stats.merged);
    });
    ctx.edges_merge(&edges.lock().unwrap());
}

/// timing aid: `mcx c05-time <lg_k>` with VERIF_DEBUG=1
pub fn time_runs(ctx: &Ctx, lg_k: u8) {
    run_deep(ctx, lg_k, 0, 1, 1, 8192, usize::MAX, &no_observer);
}

pub fn explore(ctx: &Ctx, obs: &Observer) {
    if ctx.reduced {
        let t = ctx.tier;
        let jobs: Vec<Box<dyn Fn() + Sync + Send>> = vec![
            Box::new(|| run_deep(ctx, 4, 1, t.pick(64, 16), 1, 1, usize::MAX, obs)),
            Box::new(|| run_small(ctx, 4, t.pick(2, 3), obs)),
            Box::new(|| run_moves(ctx, 4, t.pick(16, 4), obs)),
            Box::new(|| run_deep(ctx, 5, 1, t.pick(256, 64), 1, 1, usize::MAX, obs)),
            Box::new(|| run_deep(ctx, 6, 0, 1, 1, t.pick(4, 1), usize::MAX, obs)),
            Box::new(|| run_deep(ctx, 8, 0, 1, 1, t.pick(64, 16), usize::MAX, obs)),
            Box::new(move || {
                if t == Tier::Thorough {
                    run_deep(ctx, 10, 0, 1, 1, 256, usize::MAX, obs);
                    run_deep(ctx, 12, 0, 1, 1, 4096, usize::MAX, obs);
                }
            }),
        ];
        jobs.par_iter().for_each(|j| j());
        return;
    }
    match ctx.tier {
        Tier::Quick => {
            let jobs: Vec<Box<dyn Fn() + Sync + Send>> = vec![
                Box::new(|| run_deep(ctx, 4, 1, 8, 1, 1, usize::MAX, obs)),
                Box::new(|| run_deep(ctx, 4, 2, 240, 240, 1, usize::MAX, obs)),
                Box::new(|| run_small(ctx, 4, 4, obs)),
                Box::new(|| run_moves(ctx, 4, 4, obs)),
                Box::new(|| run_moves(ctx, 5, 32, obs)),
                Box::new(|| run_deep(ctx, 5, 1, 64, 1, 1, usize::MAX, obs)),
                Box::new(|| run_deep(ctx, 6, 1, 512, 1, 4, usize::MAX, obs)),
                Box::new(|| run_deep(ctx, 8, 1, 4096, 1, 64, usize::MAX, obs)),
                // rows beyond 2^16 only exist from lg_k 17: the first 40000 pairs of every order
                // (the hashed one reaches the windowed flavors with rows in the upper half)
                Box::new(|| run_deep(ctx, 17, 0, 1, 1, 2048, 40_000, obs)),
            ];
            jobs.par_iter().for_each(|j| j());
        }
        Tier::Thorough => {
            run_deep(ctx, 4, 1, 1, 1, 1, usize::MAX, obs);
            run_deep(ctx, 4, 2, 24, 24, 1, usize::MAX, obs);
            run_small(ctx, 4, 5, obs);
            run_small(ctx, 5, 4, obs);
            run_moves(ctx, 4, 1, obs);
            run_moves(ctx, 5, 4, obs);
            run_moves(ctx, 6, 32, obs);
            run_deep(ctx, 5, 1, 4, 1, 1, usize::MAX, obs);
            run_deep(ctx, 6, 1, 32, 1, 2, usize::MAX, obs);
            run_deep(ctx, 7, 1, 128, 1, 8, usize::MAX, obs);
            run_deep(ctx, 8, 1, 512, 1, 16, usize::MAX, obs);
            run_deep(ctx, 9, 1, 2048, 1, 64, usize::MAX, obs);
            run_deep(ctx, 10, 1, 8192, 1, 256, usize::MAX, obs);
            run_deep(ctx, 11, 0, 1, 1, 2048, usize::MAX, obs);
            run_deep(ctx, 12, 0, 1, 1, 8192, usize::MAX, obs);
            run_deep(ctx, 17, 0, 1, 1, 2048, 400_000, obs);
            // spot checks: lg_k 21 to window offset 8 (one kxp refresh), lg_k 26 through Sparse
            let k21 = 1usize << 21;
            run_deep(ctx, 21, 0, 1, 1, k21 * 2, (k21 * 91) / 8 + 4096, obs);
            let k26 = 1usize << 26;
            run_deep(ctx, 26, 0, 1, 1, k26, (3 * k26) / 32 - 1, obs);
        }
    }
}

pub fn run(ctx: &Ctx) -> i32 {
    explore(ctx, &no_observer);
    ctx.sample(json!({"E2":{"lg_k":4,"run":"column-major","len":cpcm::max_coupons(4),"deviation":{"before_pos":612,"pair":"(row 15, col window_offset-1): an early-zone pair offered while still unset"},"oracle":"num_coupons==popcount; bit matrix==model; validate(); window_offset/flavor from thresholds; columns < first_interesting_column all ones; kxp==unset probability mass; hip==sum k/kxp; duplicate is a no-op"}}));
    ctx.sample(json!({"E1":{"lg_k":4,"start":"column-major prefix of length C-1 just before a window move","alphabet":"rows {0,15} x cols {w-1,w,w+1,w+7,w+8,63}","depth":4}}));
    {
        let e = ctx.edges.lock().unwrap();
        let need = ["Empty->Sparse", "Sparse->Hybrid", "Hybrid->Pinned", "Pinned->Sliding", "window move (offset 56)", "window move with kxp refresh", "early-zone update (inverted logic), novel", "late-zone update, novel", "window update, novel", "update skipped: col < first_interesting_column"];
        let missing: Vec<&str> = need.iter().copied().filter(|n| !e.contains_key(*n)).collect();
        if !missing.is_empty() {
            eprintln!("machinery error: exploration is vacuous, edges not covered: {:?}", missing);
            if ctx.num_violations() == 0 {
                return 2;
            }
        }
    }
    let cov = json!({
        "exhaustive": true,
        "bounds": {
            "E2": "four default orders of ALL pairs up to the model cap C=ceil(59.375K)-1 (window offsets 0..=56), every single deviation (pairs at rows {0,k-1} x cols {0,7,8,63,w-1,w,w+7,w+8,w+9}) at the listed positions; bound 2 on a sparse grid at lg_k=4",
            "E1": "BFS depth 4-5 over 12 pairs straddling the window from every prefix within 3 of a flavor change or window move, 4 default orders",
            "model_precondition": "no NEW pair once C = ceil(59.375*K)-1 (a 57th window move needs > 2^56 distinct items; outside the property's quantifier)",
        },
    });
    ctx.finish(
        cov,
        vec![
            "pairs are injected through the add-only hook CpcSketch::verif_row_col_update; C16 ties hashed items to pairs".into(),
            "the matrix is read through the hook CpcSketch::verif_bit_matrix (the sketch's own build_bit_matrix); its independence from the serializer is checked by C12's decompressor".into(),
        ],
    )
}
