//! Observers attached to the family explorers: C11 (serialize/deserialize lossless, one-step
//! bisimulation), C12 (independent spec decoder recovers the state), C18 (size formulas).

use crate::common::{Ctx, catch, hex};
use crate::cpcm::{self, Duo};
use crate::hllm::{self, Trio, coupon};
use crate::spec_hll::{self, HllBody};
use crate::spec_misc;
use crate::thetam::Pair;
use datasketches::cpc::{CpcSketch, CpcUnion, CpcWrapper};
use datasketches::hll::{HllSketch, HllUnion};
use datasketches::theta::CompactThetaSketch;
use serde_json::{Value, json};
use std::collections::BTreeSet;

fn with_image(mk: &dyn Fn() -> Value, img: &[u8]) -> Value {
    let mut v = mk();
    if img.len() <= 4096 {
        v["image_hex"] = json!(hex(img));
    }
    v
}

// =============================================================================== HLL

/// C12 + C18 for one HLL sketch: the spec decoder must recover exactly the hook dump.
pub fn hll_spec(ctx: &Ctx, s: &HllSketch, mk: &dyn Fn() -> Value) {
    let st = s.verif_state();
    let img = match catch(|| s.serialize()) {
        Ok(b) => b,
        Err(p) => {
            ctx.violation(&format!("panic|{}", p.site_key()), &format!("HLL serialize panicked: {}", p.message), mk());
            return;
        }
    };
    let t = st.tgt;
    let im = match spec_hll::decode(&img) {
        Ok(im) => im,
        Err(e) => {
            let key = if st.mode == 2 && t == 4 && st.aux.as_ref().map(|a| !a.is_empty()).unwrap_or(false) { "hll4.image.aux_area_unreadable".to_string() } else { format!("hll{t}.image.undecodable.mode{}", st.mode) };
            ctx.violation(&key, &format!("the spec decoder rejects the emitted image: {e}"), with_image(mk, &img));
            return;
        }
    };
    let mut bad: Vec<(String, String)> = vec![];
    if im.total_len != img.len() {
        bad.push((format!("hll{t}.image.length"), format!("image is {} bytes, the layout accounts for {}", img.len(), im.total_len)));
    }
    if im.lg_k != st.lg_k || im.tgt != st.tgt {
        bad.push((format!("hll{t}.image.header"), format!("lg_k/type in image {}/{} vs sketch {}/{}", im.lg_k, im.tgt, st.lg_k, st.tgt)));
    }
    let stored: BTreeSet<u32> = st.table.iter().copied().filter(|&c| c != 0).collect();
    match (&im.body, st.mode) {
        (HllBody::List { coupons }, 0) | (HllBody::Set { coupons }, 1) => {
            let got: BTreeSet<u32> = coupons.iter().copied().collect();
            if got != stored || coupons.len() != stored.len() {
                bad.push((format!("hll{t}.image.coupons"), "coupons in the image differ from the sketch's".into()));
            }
            let want_empty = stored.is_empty();
            if st.mode == 0 && (im.flags & spec_hll::F_EMPTY != 0) != want_empty {
                bad.push((format!("hll{t}.image.empty_flag"), format!("EMPTY flag {} for {} coupons", im.flags & spec_hll::F_EMPTY != 0, stored.len())));
            }
            // C18 size formula
            let want_len = if st.mode == 0 { 8 + 4 * stored.len() } else { 12 + 4 * stored.len() };
            if img.len() != want_len {
                bad.push((format!("hll{t}.size.mode{}", st.mode), format!("image is {} bytes, the mode and count dictate {}", img.len(), want_len)));
            }
        }
        (HllBody::Array { registers, cur_min, num_at_cur_min, aux, hip, kxq0, kxq1 }, 2) => {
            if *registers != st.registers {
                let i = registers.iter().zip(st.registers.iter()).position(|(a, b)| a != b).unwrap_or(0);
                bad.push((format!("hll{t}.image.registers"), format!("register {i}: image {} sketch {}", registers[i], st.registers[i])));
            }
            if *cur_min != st.cur_min || *num_at_cur_min != st.num_at_cur_min {
                bad.push((format!("hll{t}.image.cur_min"), format!("cur_min/num_at_cur_min image {}/{} sketch {}/{}", cur_min, num_at_cur_min, st.cur_min, st.num_at_cur_min)));
            }
            let mut a1 = aux.clone();
            a1.sort_unstable();
            let mut a2 = st.aux.clone().unwrap_or_default();
            a2.sort_unstable();
            if a1 != a2 {
                bad.push(("hll4.image.aux".into(), format!("aux pairs image {:?} sketch {:?}", a1, a2)));
            }
            if hip.to_bits() != st.hip_accum.to_bits() || kxq0.to_bits() != st.kxq0.to_bits() || kxq1.to_bits() != st.kxq1.to_bits() {
                bad.push((format!("hll{t}.image.estimator_fields"), format!("hip/kxq0/kxq1 image {}/{}/{} sketch {}/{}/{}", hip, kxq0, kxq1, st.hip_accum, st.kxq0, st.kxq1)));
            }
            if (im.flags & spec_hll::F_OOO != 0) != st.ooo {
                bad.push((format!("hll{t}.image.ooo_flag"), format!("OUT_OF_ORDER flag {} but sketch ooo {}", im.flags & spec_hll::F_OOO != 0, st.ooo)));
            }
            let want_len = 40 + spec_hll::reg_bytes(t, st.lg_k) + 4 * a2.len();
            if img.len() != want_len {
                bad.push((format!("hll{t}.size.array"), format!("image is {} bytes, lg_k/type/aux dictate {}", img.len(), want_len)));
            }
        }
        _ => bad.push((format!("hll{t}.image.mode"), format!("image mode differs from sketch mode {}", st.mode))),
    }
    for (k, w) in bad {
        ctx.violation(&k, &w, with_image(mk, &img));
    }
}

fn hll_obs(s: &HllSketch) -> (u8, bool, [u64; 7]) {
    (s.lg_config_k(), s.is_empty(), hllm::obs_est(s))
}

/// C11 for one HLL sketch.
pub fn hll_roundtrip(ctx: &Ctx, s: &HllSketch, mk: &dyn Fn() -> Value) {
    let st = s.verif_state();
    let t = st.tgt;
    let img = match catch(|| s.serialize()) {
        Ok(b) => b,
        Err(p) => {
            ctx.violation(&format!("panic|{}", p.site_key()), &format!("HLL serialize panicked: {}", p.message), mk());
            return;
        }
    };
    let d = match catch(|| HllSketch::deserialize(&img)) {
        Err(p) => {
            ctx.violation(&format!("panic|{}", p.site_key()), &format!("HLL deserialize of own image panicked: {}", p.message), with_image(mk, &img));
            return;
        }
        Ok(Err(e)) => {
            ctx.violation(&format!("hll{t}.roundtrip.rejected.mode{}", st.mode), &format!("deserialize(serialize(s)) fails: {e}"), with_image(mk, &img));
            return;
        }
        Ok(Ok(d)) => d,
    };
    if hll_obs(&d) != hll_obs(s) || d.target_type() != s.target_type() {
        ctx.violation(&format!("hll{t}.roundtrip.queries.mode{}", st.mode), &format!("queries differ after a round trip: before {:?} after {:?}", hll_obs(s), hll_obs(&d)), with_image(mk, &img));
        return;
    }
    let dst = d.verif_state();
    if !hllm::same_content(&st, &dst, true) {
        ctx.violation(&format!("hll{t}.roundtrip.state.mode{}", st.mode), "in-memory content differs after a round trip", with_image(mk, &img));
        return;
    }
    match catch(|| d.serialize()) {
        Ok(img2) => {
            if img2 != img {
                // The order of the Hll4 aux list (and of a coupon table) is the iteration order of
                // a hash table, which depends on the insertion history: that part of the layout
                // is not canonical, so there the two images must encode the same state
                // (everything equal once the aux list / coupon list is sorted), not the same bytes.
                let norm = |b: &[u8]| {
                    crate::spec_hll::decode(b).ok().map(|mut im| {
                        match &mut im.body {
                            crate::spec_hll::HllBody::Array { aux, .. } => aux.sort_unstable(),
                            crate::spec_hll::HllBody::List { coupons } | crate::spec_hll::HllBody::Set { coupons } => coupons.sort_unstable(),
                        }
                        im
                    })
                };
                let same_state = match (norm(&img), norm(&img2)) {
                    (Some(a), Some(b)) => a == b,
                    _ => false,
                };
                if !same_state || img2.len() != img.len() {
                    ctx.violation(&format!("hll{t}.roundtrip.reserialize.mode{}", st.mode), "serialize(deserialize(serialize(s))) encodes a different state (beyond the order of the aux / coupon list)", with_image(mk, &img));
                }
            }
        }
        Err(p) => {
            ctx.violation(&format!("panic|{}", p.site_key()), &format!("re-serialize panicked: {}", p.message), with_image(mk, &img));
        }
    }
    // one-step bisimulation over a small alphabet of coupons
    let k = 1u32 << st.lg_k;
    let hot = st.registers.iter().position(|&v| v > 0).unwrap_or(0) as u32;
    let alphabet = [
        coupon(k - 1, 1),
        coupon(hot, 1),
        coupon(hot, st.registers.get(hot as usize).copied().unwrap_or(0).saturating_add(1).clamp(1, 63)),
        coupon(hot, 63),
        coupon(7 + 3 * k, st.cur_min.saturating_add(15).clamp(1, 63)),
        coupon(9 + 5 * k, 2),
        coupon(11 + k, st.cur_min.clamp(1, 63)),
        st.table.iter().copied().find(|&c| c != 0).unwrap_or(coupon(3, 3)),
    ];
    for &c in &alphabet {
        let mut a = s.clone();
        let mut b = d.clone();
        let ra = catch(|| a.verif_update_with_coupon(c));
        let rb = catch(|| b.verif_update_with_coupon(c));
        if ra.is_err() != rb.is_err() {
            ctx.violation(&format!("hll{t}.roundtrip.continuation_panics.mode{}", st.mode), &format!("after coupon {c:#x}: original panicked={} restored panicked={}", ra.is_err(), rb.is_err()), with_image(mk, &img));
            return;
        }
        if ra.is_err() {
            continue;
        }
        if hll_obs(&a) != hll_obs(&b) || !hllm::same_content(&a.verif_state(), &b.verif_state(), true) {
            ctx.violation(
                &format!("hll{t}.roundtrip.continuation.mode{}", st.mode),
                &format!("after one more coupon {c:#x} the restored sketch differs from the original (estimate {} vs {})", b.estimate(), a.estimate()),
                with_image(mk, &img),
            );
            return;
        }
    }
    // long differential drive: the restored sketch and the original must stay identical through
    // the promotions still ahead (list -> set -> array, set growth, cur_min shifts); this also
    // observes fields the dump does not show (container capacities)
    {
        let len: u64 = if st.mode < 2 { ((1u64 << st.lg_k.max(8)) / 8 + 40).min(240) } else if st.lg_k <= 6 { 8 << st.lg_k } else { 64 };
        let mut a = s.clone();
        let mut b = d.clone();
        for i in 0..len {
            let c = crate::c03::value_coupon(0x5eed_0000 + i);
            let ra = catch(|| a.verif_update_with_coupon(c));
            let rb = catch(|| b.verif_update_with_coupon(c));
            if ra.is_err() || rb.is_err() {
                if ra.is_err() != rb.is_err() {
                    ctx.violation(&format!("hll{t}.roundtrip.continuation_panics.mode{}", st.mode), &format!("long drive step {i}: original panicked={} restored panicked={}", ra.is_err(), rb.is_err()), with_image(mk, &img));
                }
                return;
            }
            if (i & 15 == 15 || i + 1 == len) && (hll_obs(&a) != hll_obs(&b) || !hllm::same_content(&a.verif_state(), &b.verif_state(), true)) {
                ctx.violation(
                    &format!("hll{t}.roundtrip.long_continuation.mode{}", st.mode),
                    &format!("after {} more coupons the restored sketch differs from the original (estimate {} vs {})", i + 1, b.estimate(), a.estimate()),
                    with_image(mk, &img),
                );
                return;
            }
        }
    }
    // merge equivalence: union(x, d) == union(x, s) for a few partners
    for lg_max in [st.lg_k, st.lg_k.saturating_sub(1).max(4), (st.lg_k + 2).min(21)] {
        for partner in 0..2 {
            let mut ua = HllUnion::new(lg_max);
            let mut ub = HllUnion::new(lg_max);
            if partner == 1 {
                for x in 0..20u64 {
                    ua.update_value(x);
                    ub.update_value(x);
                }
            }
            ua.update(s);
            ub.update(&d);
            let sa = ua.to_sketch(s.target_type());
            let sb = ub.to_sketch(s.target_type());
            // An in-order array gadget accumulates HIP in the order the source's coupon table is
            // walked, which legitimately differs between a table and its re-inserted copy:
            // compare estimates only where they are a function of content.
            let sst = sa.verif_state();
            let strict = sst.mode < 2 || sst.ooo;
            if (strict && hll_obs(&sa) != hll_obs(&sb)) || !hllm::same_content(&sst, &sb.verif_state(), strict) {
                ctx.violation(&format!("hll{t}.roundtrip.merge.mode{}", st.mode), &format!("union (lg_max_k {lg_max}) of the restored sketch differs from union of the original"), with_image(mk, &img));
                return;
            }
        }
    }
}

pub fn hll_trio_c12(ctx: &Ctx, t: &Trio, mk: &dyn Fn() -> Value) {
    for s in &t.s {
        hll_spec(ctx, s, mk);
    }
}
pub fn hll_trio_c11(ctx: &Ctx, t: &Trio, mk: &dyn Fn() -> Value) {
    for s in &t.s {
        hll_roundtrip(ctx, s, mk);
    }
}

// =============================================================================== Theta

fn compact_obs(c: &CompactThetaSketch) -> (u64, u64, usize, bool, bool, u16, Vec<u64>, [u64; 6]) {
    use datasketches::common::NumStdDev::*;
    (
        c.estimate().to_bits(),
        c.theta64(),
        c.num_retained(),
        c.is_empty(),
        c.is_ordered(),
        c.seed_hash(),
        c.iter().collect(),
        [c.lower_bound(One).to_bits(), c.lower_bound(Two).to_bits(), c.lower_bound(Three).to_bits(), c.upper_bound(One).to_bits(), c.upper_bound(Two).to_bits(), c.upper_bound(Three).to_bits()],
    )
}

/// C11 + C12 for one compact theta sketch (both serial forms).
pub fn compact_checks(ctx: &Ctx, c: &CompactThetaSketch, seed: u64, do_rt: bool, do_spec: bool, mk: &dyn Fn() -> Value) {
    let o = match catch(|| compact_obs(c)) {
        Ok(o) => o,
        Err(p) => {
            ctx.violation(&format!("panic|{}", p.site_key()), &format!("compact accessors panicked: {}", p.message), mk());
            return;
        }
    };
    for compressed in [false, true] {
        let form = if compressed { "v4" } else { "v3" };
        let img = match catch(|| if compressed { c.serialize_compressed() } else { c.serialize() }) {
            Ok(b) => b,
            Err(p) => {
                ctx.violation(&format!("panic|{}", p.site_key()), &format!("theta serialize ({form}) panicked: {}", p.message), mk());
                continue;
            }
        };
        if do_spec {
            match spec_misc::theta_decode(&img) {
                Err(e) => {
                    ctx.violation(&format!("theta.image.undecodable.{form}"), &format!("the spec decoder rejects the emitted image: {e}"), with_image(mk, &img));
                }
                Ok(im) => {
                    let mut bad = vec![];
                    if im.total_len != img.len() {
                        bad.push((format!("theta.image.length.{form}"), format!("image is {} bytes, the layout accounts for {}", img.len(), im.total_len)));
                    }
                    if im.entries != o.6 {
                        bad.push((format!("theta.image.entries.{}", if im.ser_ver == 4 { "v4" } else { "v3" }), format!("entries decoded from the image differ from the sketch's ({} vs {})", im.entries.len(), o.6.len())));
                    }
                    if im.theta != o.1 {
                        bad.push((format!("theta.image.theta.{form}"), format!("theta in image {} sketch {}", im.theta, o.1)));
                    }
                    if im.empty != o.3 {
                        bad.push((format!("theta.image.empty_flag.{form}"), format!("EMPTY flag {} sketch is_empty {}", im.empty, o.3)));
                    }
                    if im.ordered != o.4 {
                        bad.push((format!("theta.image.ordered_flag.{form}"), format!("ORDERED flag {} sketch is_ordered {}", im.ordered, o.4)));
                    }
                    if im.seed_hash != spec_misc::seed_hash(seed) {
                        bad.push((format!("theta.image.seed_hash.{form}"), format!("seed hash {:#x} but reference {:#x}", im.seed_hash, spec_misc::seed_hash(seed))));
                    }
                    if im.flags & (spec_misc::T_COMPACT | spec_misc::T_READ_ONLY) != (spec_misc::T_COMPACT | spec_misc::T_READ_ONLY) || im.flags & 1 != 0 {
                        bad.push((format!("theta.image.flags.{form}"), format!("flags byte {:#x}", im.flags)));
                    }
                    // preLongs by case
                    let want_pre = if im.ser_ver == 4 {
                        if o.1 < spec_misc::MAX_THETA { 2 } else { 1 }
                    } else if o.1 < spec_misc::MAX_THETA {
                        3
                    } else if o.3 || o.2 == 1 {
                        1
                    } else {
                        2
                    };
                    if im.pre_longs != want_pre {
                        bad.push((format!("theta.image.pre_longs.{form}"), format!("preLongs {} but the case requires {}", im.pre_longs, want_pre)));
                    }
                    // C18: v3 length == 8*(preLongs + n) (single item: 16); v4 <= that
                    if im.ser_ver == 3 {
                        let want = if o.3 { 8 } else { 8 * (im.pre_longs as usize + o.2) };
                        if img.len() != want {
                            bad.push(("theta.size.v3".into(), format!("v3 image is {} bytes, expected {}", img.len(), want)));
                        }
                    } else if img.len() > 8 * (3 + o.2) {
                        bad.push(("theta.size.v4".into(), format!("v4 image is {} bytes for {} entries", img.len(), o.2)));
                    }
                    for (k, w) in bad {
                        ctx.violation(&k, &w, with_image(mk, &img));
                    }
                }
            }
        }
        if do_rt {
            match catch(|| CompactThetaSketch::deserialize_with_seed(&img, seed)) {
                Err(p) => {
                    ctx.violation(&format!("panic|{}", p.site_key()), &format!("theta deserialize ({form}) of own image panicked: {}", p.message), with_image(mk, &img));
                }
                Ok(Err(e)) => {
                    ctx.violation(&format!("theta.roundtrip.rejected.{form}"), &format!("deserialize(serialize(s)) fails: {e}"), with_image(mk, &img));
                }
                Ok(Ok(d)) => {
                    let od = compact_obs(&d);
                    if od != o {
                        let what = if od.6 != o.6 { "entries" } else if od.3 != o.3 { "emptiness" } else if od.4 != o.4 { "ordered flag" } else if od.1 != o.1 { "theta" } else { "estimate/bounds/seed hash" };
                        ctx.violation(&format!("theta.roundtrip.queries.{form}.{}", what.replace(' ', "_").replace('/', "_")), &format!("{what} differ after a {form} round trip"), with_image(mk, &img));
                    } else {
                        let img2 = if compressed { d.serialize_compressed() } else { d.serialize() };
                        if img2 != img {
                            ctx.violation(&format!("theta.roundtrip.reserialize.{form}"), "re-serialization is not byte-identical", with_image(mk, &img));
                        }
                    }
                }
            }
        }
    }
}

pub fn theta_pair_obs(ctx: &Ctx, p: &Pair, do_rt: bool, do_spec: bool, mk: &dyn Fn() -> Value) {
    for ordered in [true, false] {
        if let Ok(c) = catch(|| p.s.compact(ordered)) {
            compact_checks(ctx, &c, p.cfg.seed, do_rt, do_spec, mk);
        }
    }
}

// =============================================================================== CPC

#[derive(Debug, Clone, PartialEq)]
pub struct CpcPreamble {
    pub pre_ints: u8,
    pub lg_k: u8,
    pub fi_col: u8,
    pub flags: u8,
    pub seed_hash: u16,
    pub num_coupons: u32,
    pub num_sv: u32,
    pub sv_len_ints: u32,
    pub w_len_ints: u32,
    pub kxp: f64,
    pub hip: f64,
    pub total_len: usize,
    /// byte offsets of the window stream and the pair stream
    pub w_off: usize,
    pub sv_off: usize,
}

/// CPC preamble by flag combination (field order incl. the two HIP positions).
pub fn cpc_preamble(b: &[u8]) -> Result<CpcPreamble, String> {
    if b.len() < 8 {
        return Err("shorter than 8 bytes".into());
    }
    if b[1] != 1 || b[2] != 16 {
        return Err(format!("serVer {} family {}", b[1], b[2]));
    }
    let flags = b[5];
    if flags & 2 == 0 {
        return Err("COMPRESSED flag clear".into());
    }
    if flags & 1 != 0 {
        return Err("BIG_ENDIAN flag set".into());
    }
    let hip_f = flags & 4 != 0;
    let sv = flags & 8 != 0;
    let w = flags & 16 != 0;
    let rd32 = |o: usize| -> Result<u32, String> { b.get(o..o + 4).map(|s| u32::from_le_bytes(s.try_into().unwrap())).ok_or_else(|| format!("truncated at {o}")) };
    let rdf = |o: usize| -> Result<f64, String> { b.get(o..o + 8).map(|s| f64::from_le_bytes(s.try_into().unwrap())).ok_or_else(|| format!("truncated at {o}")) };
    let mut p = CpcPreamble { pre_ints: b[0], lg_k: b[3], fi_col: b[4], flags, seed_hash: u16::from_le_bytes([b[6], b[7]]), num_coupons: 0, num_sv: 0, sv_len_ints: 0, w_len_ints: 0, kxp: 0.0, hip: 0.0, total_len: 8, w_off: 0, sv_off: 0 };
    let mut o = 8;
    if !sv && !w {
        // empty
        if p.pre_ints != 2 {
            return Err(format!("empty image with preInts {}", p.pre_ints));
        }
        return Ok(p);
    }
    p.num_coupons = rd32(o)?;
    o += 4;
    if sv && w {
        p.num_sv = rd32(o)?;
        o += 4;
        if hip_f {
            p.kxp = rdf(o)?;
            p.hip = rdf(o + 8)?;
            o += 16;
        }
        p.sv_len_ints = rd32(o)?;
        p.w_len_ints = rd32(o + 4)?;
        o += 8;
    } else {
        if sv {
            p.sv_len_ints = rd32(o)?;
            p.num_sv = p.num_coupons;
        } else {
            p.w_len_ints = rd32(o)?;
        }
        o += 4;
        if hip_f {
            p.kxp = rdf(o)?;
            p.hip = rdf(o + 8)?;
            o += 16;
        }
    }
    let want_pre = (o / 4) as u8;
    if p.pre_ints != want_pre {
        return Err(format!("preInts {} but the flag combination implies {}", p.pre_ints, want_pre));
    }
    p.w_off = o;
    p.sv_off = o + 4 * p.w_len_ints as usize;
    p.total_len = p.sv_off + 4 * p.sv_len_ints as usize;
    Ok(p)
}

/// C12 (preamble level + payload through the independent decompressor when available) for CPC.
pub fn cpc_spec(ctx: &Ctx, s: &CpcSketch, want: &[u64], mk: &dyn Fn() -> Value) {
    let st = s.verif_state();
    let img = match catch(|| s.serialize()) {
        Ok(b) => b,
        Err(p) => {
            ctx.violation(&format!("panic|{}", p.site_key()), &format!("CPC serialize panicked at C={}: {} at {}:{}", st.num_coupons, p.message, p.file, p.line), mk());
            return;
        }
    };
    let p = match cpc_preamble(&img) {
        Ok(p) => p,
        Err(e) => {
            ctx.violation("cpc.image.preamble", &format!("the spec decoder rejects the preamble: {e}"), with_image(mk, &img));
            return;
        }
    };
    let mut bad = vec![];
    if p.total_len != img.len() {
        bad.push(("cpc.image.length", format!("image is {} bytes, the preamble accounts for {}", img.len(), p.total_len)));
    }
    if p.lg_k != st.lg_k || p.num_coupons != st.num_coupons {
        bad.push(("cpc.image.header", format!("lg_k/numCoupons image {}/{} sketch {}/{}", p.lg_k, p.num_coupons, st.lg_k, st.num_coupons)));
    }
    if st.num_coupons > 0 && p.fi_col != st.first_interesting_column {
        bad.push(("cpc.image.fi_col", format!("first interesting column image {} sketch {}", p.fi_col, st.first_interesting_column)));
    }
    if p.seed_hash != spec_misc::seed_hash(9001) {
        bad.push(("cpc.image.seed_hash", format!("seed hash {:#x}", p.seed_hash)));
    }
    let hip_f = p.flags & 4 != 0;
    if hip_f == st.merge_flag {
        bad.push(("cpc.image.hip_flag", format!("HIP flag {} but merged {}", hip_f, st.merge_flag)));
    }
    if hip_f && st.num_coupons > 0 && (p.kxp.to_bits() != st.kxp.to_bits() || p.hip.to_bits() != st.hip_est_accum.to_bits()) {
        bad.push(("cpc.image.hip_fields", format!("kxp/hip image {}/{} sketch {}/{}", p.kxp, p.hip, st.kxp, st.hip_est_accum)));
    }
    let has_sv = p.flags & 8 != 0;
    let has_w = p.flags & 16 != 0;
    let fl = cpcm::flavor_of(st.lg_k, st.num_coupons);
    let want_w = fl >= 3; // Hybrid is written as pairs only
    if has_w != want_w {
        bad.push(("cpc.image.window_flag", format!("WINDOW flag {} for flavor {}", has_w, fl)));
    }
    if (fl == 1 || fl == 2) && !has_sv {
        bad.push(("cpc.image.table_flag", format!("SUP_VAL flag clear for flavor {fl}")));
    }
    if has_sv && has_w && p.num_sv != st.table_entries {
        bad.push(("cpc.image.num_sv", format!("numSv {} but the table holds {}", p.num_sv, st.table_entries)));
    }
    // C18: size bound is checked on hashed streams only (see c18)
    if bad.is_empty() {
        if let Some(m) = crate::spec_cpc::decode_matrix(&img, &p) {
            match m {
                Ok(m) => {
                    if m != want {
                        let row = m.iter().zip(want.iter()).position(|(a, b)| a != b).unwrap_or(0);
                        bad.push(("cpc.image.payload", format!("independent decompressor: row {row} is {:#x}, model {:#x}", m.get(row).copied().unwrap_or(0), want.get(row).copied().unwrap_or(0))));
                    }
                }
                Err(e) => bad.push(("cpc.image.payload_undecodable", format!("independent decompressor rejects the payload: {e}"))),
            }
        }
    }
    for (k, w) in bad {
        ctx.violation(k, &w, with_image(mk, &img));
    }
}

fn cpc_obs(s: &CpcSketch) -> (u8, bool, u32, [u64; 7], bool) {
    use datasketches::common::NumStdDev::*;
    (
        s.lg_k(),
        s.is_empty(),
        s.num_coupons(),
        [s.estimate().to_bits(), s.lower_bound(One).to_bits(), s.lower_bound(Two).to_bits(), s.lower_bound(Three).to_bits(), s.upper_bound(One).to_bits(), s.upper_bound(Two).to_bits(), s.upper_bound(Three).to_bits()],
        s.validate(),
    )
}

/// C11 for one CPC sketch.
pub fn cpc_roundtrip(ctx: &Ctx, s: &CpcSketch, refm: &cpcm::RefCpc, mk: &dyn Fn() -> Value) {
    let st = s.verif_state();
    let fl = ["Empty", "Sparse", "Hybrid", "Pinned", "Sliding"][st.flavor as usize];
    let img = match catch(|| s.serialize()) {
        Ok(b) => b,
        Err(p) => {
            ctx.violation(&format!("panic|{}", p.site_key()), &format!("CPC serialize panicked at C={}: {} at {}:{}", st.num_coupons, p.message, p.file, p.line), mk());
            return;
        }
    };
    let d = match catch(|| CpcSketch::deserialize(&img)) {
        Err(p) => {
            ctx.violation(&format!("panic|{}", p.site_key()), &format!("CPC deserialize of own image panicked: {} at {}:{}", p.message, p.file, p.line), with_image(mk, &img));
            return;
        }
        Ok(Err(e)) => {
            ctx.violation(&format!("cpc.roundtrip.rejected.{fl}"), &format!("deserialize(serialize(s)) fails: {e}"), with_image(mk, &img));
            return;
        }
        Ok(Ok(d)) => d,
    };
    if cpc_obs(&d) != cpc_obs(s) {
        ctx.violation(&format!("cpc.roundtrip.queries.{fl}"), &format!("queries differ after a round trip: {:?} vs {:?}", cpc_obs(s), cpc_obs(&d)), with_image(mk, &img));
        return;
    }
    if d.verif_bit_matrix() != s.verif_bit_matrix() {
        ctx.violation(&format!("cpc.roundtrip.matrix.{fl}"), "bit matrix differs after a round trip", with_image(mk, &img));
        return;
    }
    let dst = d.verif_state();
    // kxp is only meaningful (and only serialized) for sketches that use the HIP estimator
    let kxp_differs = !st.merge_flag && dst.kxp.to_bits() != st.kxp.to_bits();
    if dst.window_offset != st.window_offset || dst.first_interesting_column != st.first_interesting_column || kxp_differs || dst.merge_flag != st.merge_flag {
        ctx.violation(&format!("cpc.roundtrip.state.{fl}"), &format!("offset/fic/kxp/merged differ: {}/{}/{}/{} vs {}/{}/{}/{}", st.window_offset, st.first_interesting_column, st.kxp, st.merge_flag, dst.window_offset, dst.first_interesting_column, dst.kxp, dst.merge_flag), with_image(mk, &img));
        return;
    }
    match catch(|| d.serialize()) {
        Ok(img2) => {
            if img2 != img {
                ctx.violation(&format!("cpc.roundtrip.reserialize.{fl}"), "re-serialization is not byte-identical", with_image(mk, &img));
            }
        }
        Err(p) => {
            ctx.violation(&format!("panic|{}", p.site_key()), &format!("re-serialize panicked: {}", p.message), with_image(mk, &img));
        }
    }
    // CpcWrapper agrees with the full deserialization
    match catch(|| CpcWrapper::new(&img)) {
        Err(p) => {
            ctx.violation(&format!("panic|{}", p.site_key()), &format!("CpcWrapper::new panicked: {}", p.message), with_image(mk, &img));
        }
        Ok(Err(e)) => {
            ctx.violation(&format!("cpc.wrapper.rejected.{fl}"), &format!("CpcWrapper rejects the sketch's own image: {e}"), with_image(mk, &img));
        }
        Ok(Ok(w)) => {
            use datasketches::common::NumStdDev::*;
            let wo = [w.estimate().to_bits(), w.lower_bound(One).to_bits(), w.lower_bound(Two).to_bits(), w.lower_bound(Three).to_bits(), w.upper_bound(One).to_bits(), w.upper_bound(Two).to_bits(), w.upper_bound(Three).to_bits()];
            let so = cpc_obs(&d);
            if wo != so.3 || w.lg_k() != so.0 || w.is_empty() != so.1 {
                ctx.violation(&format!("cpc.wrapper.disagrees.{fl}"), &format!("CpcWrapper estimate {} / lg_k {} / empty {} vs sketch {} / {} / {}", w.estimate(), w.lg_k(), w.is_empty(), d.estimate(), so.0, so.1), with_image(mk, &img));
            }
        }
    }
    // one-step bisimulation
    let k = 1u32 << st.lg_k;
    let w = st.window_offset as u32;
    for (row, col) in [(0u32, w.saturating_sub(1)), (k - 1, w), (1, (w + 7).min(63)), (k / 2, (w + 8).min(63)), (3 % k, 63), (0, 0)] {
        let pr = cpcm::rc(row, col);
        if !refm.allows(pr) {
            continue;
        }
        let mut a = s.clone();
        let mut b = d.clone();
        let ra = catch(|| a.verif_row_col_update(pr));
        let rb = catch(|| b.verif_row_col_update(pr));
        if ra.is_err() != rb.is_err() {
            ctx.violation(&format!("cpc.roundtrip.continuation_panics.{fl}"), &format!("after pair ({row},{col}): original panicked={} restored panicked={}", ra.is_err(), rb.is_err()), with_image(mk, &img));
            return;
        }
        if ra.is_err() {
            continue;
        }
        if cpc_obs(&a) != cpc_obs(&b) || a.verif_bit_matrix() != b.verif_bit_matrix() || (!st.merge_flag && a.verif_state().kxp.to_bits() != b.verif_state().kxp.to_bits()) {
            ctx.violation(&format!("cpc.roundtrip.continuation.{fl}"), &format!("after one more pair ({row},{col}) the restored sketch differs from the original (estimate {} vs {})", b.estimate(), a.estimate()), with_image(mk, &img));
            return;
        }
    }
    // long differential drive through the flavor changes / window moves still ahead (public
    // update of hashed items; stops at the model's coupon cap)
    {
        let len: u64 = if st.lg_k <= 6 { 12 << st.lg_k } else { 160 };
        let cap = cpcm::max_coupons(st.lg_k) as u64;
        let mut a = s.clone();
        let mut b = d.clone();
        for i in 0..len {
            if a.num_coupons() as u64 + 1 >= cap {
                break;
            }
            let item = 0x5eed_0000u64 + i;
            let ra = catch(|| a.update(item));
            let rb = catch(|| b.update(item));
            if ra.is_err() || rb.is_err() {
                if ra.is_err() != rb.is_err() {
                    ctx.violation(&format!("cpc.roundtrip.continuation_panics.{fl}"), &format!("long drive step {i}: original panicked={} restored panicked={}", ra.is_err(), rb.is_err()), with_image(mk, &img));
                }
                return;
            }
            if (i & 31 == 31 || i + 1 == len) && (cpc_obs(&a) != cpc_obs(&b) || a.verif_bit_matrix() != b.verif_bit_matrix() || (!st.merge_flag && a.verif_state().kxp.to_bits() != b.verif_state().kxp.to_bits())) {
                ctx.violation(&format!("cpc.roundtrip.long_continuation.{fl}"), &format!("after {} more items the restored sketch differs from the original (estimate {} vs {}, coupons {} vs {})", i + 1, b.estimate(), a.estimate(), b.num_coupons(), a.num_coupons()), with_image(mk, &img));
                return;
            }
        }
    }
    // merge equivalence
    for lgu in [st.lg_k, st.lg_k.saturating_sub(1).max(4), (st.lg_k + 1).min(26)] {
        let mut ua = CpcUnion::new(lgu);
        let mut ub = CpcUnion::new(lgu);
        let ra = catch(|| ua.update(s));
        let rb = catch(|| ub.update(&d));
        if ra.is_err() || rb.is_err() {
            if ra.is_err() != rb.is_err() {
                ctx.violation(&format!("cpc.roundtrip.merge_panics.{fl}"), "union update panics for only one of original/restored", with_image(mk, &img));
            }
            continue;
        }
        let (sa, sb) = (ua.to_sketch(), ub.to_sketch());
        if sa.verif_bit_matrix() != sb.verif_bit_matrix() || cpc_obs(&sa) != cpc_obs(&sb) {
            ctx.violation(&format!("cpc.roundtrip.merge.{fl}"), &format!("union (lg_k {lgu}) of the restored sketch differs from union of the original"), with_image(mk, &img));
            return;
        }
    }
}

pub fn cpc_duo_c11(ctx: &Ctx, d: &Duo, mk: &dyn Fn() -> Value) {
    cpc_roundtrip(ctx, &d.s, &d.r, mk);
}
pub fn cpc_duo_c12(ctx: &Ctx, d: &Duo, mk: &dyn Fn() -> Value) {
    cpc_spec(ctx, &d.s, &d.r.m, mk);
}


// =============================================================================== Count-Min / Bloom

/// C12 + C18 for a Count-Min image against the explorer's model table.
pub fn cm_spec(ctx: &Ctx, st: &crate::c08::CmState, mk: &dyn Fn() -> Value) {
    match spec_misc::cm_decode(st.image) {
        Err(e) => {
            ctx.violation("cm.image.undecodable", &format!("the spec decoder rejects the emitted image: {e}"), with_image(mk, st.image));
        }
        Ok(im) => {
            let mut bad = vec![];
            if im.total_len != st.image.len() {
                bad.push(("cm.image.length", format!("image is {} bytes, the layout accounts for {}", st.image.len(), im.total_len)));
            }
            let n = st.hashes as usize * st.buckets as usize;
            let want_len = if st.model_total == 0 { 16 } else { 24 + 8 * n };
            if st.image.len() != want_len {
                bad.push(("cm.size.image", format!("image is {} bytes, the configuration fixes {}", st.image.len(), want_len)));
            }
            if im.num_buckets != st.buckets || im.num_hashes != st.hashes {
                bad.push(("cm.image.header", format!("buckets/hashes image {}/{} sketch {}/{}", im.num_buckets, im.num_hashes, st.buckets, st.hashes)));
            }
            if im.seed_hash != spec_misc::seed_hash(st.seed) {
                bad.push(("cm.image.seed_hash", format!("seed hash {:#x} but reference {:#x}", im.seed_hash, spec_misc::seed_hash(st.seed))));
            }
            if im.empty != (st.model_total == 0) {
                bad.push(("cm.image.empty_flag", format!("EMPTY flag {} but total weight {}", im.empty, st.model_total)));
            }
            if im.total != st.model_total || (st.model_total != 0 && im.table != st.model_table) {
                bad.push(("cm.image.table", "total/counters decoded from the image differ from the model table".to_string()));
            }
            for (k, w) in bad {
                ctx.violation(k, &w, with_image(mk, st.image));
            }
        }
    }
}

fn cm_rt<T: datasketches::countmin::CountMinValue + std::fmt::Debug>(ctx: &Ctx, st: &crate::c08::CmState, mk: &dyn Fn() -> Value) {
    use datasketches::countmin::CountMinSketch;
    let ty = st.ty;
    match catch(|| CountMinSketch::<T>::deserialize_with_seed(st.image, st.seed)) {
        Err(p) => {
            ctx.violation(&format!("panic|{}", p.site_key()), &format!("CountMinSketch<{ty}>::deserialize of own image panicked: {}", p.message), with_image(mk, st.image));
        }
        Ok(Err(e)) => {
            ctx.violation(&format!("cm.roundtrip.rejected.{ty}"), &format!("deserialize(serialize(s)) fails: {e}"), with_image(mk, st.image));
        }
        Ok(Ok(d)) => {
            if d.num_hashes() != st.hashes || d.num_buckets() != st.buckets || d.seed() != st.seed || d.total_weight().to_f64() != st.model_total as f64 {
                ctx.violation(&format!("cm.roundtrip.queries.{ty}"), "configuration or total weight differ after a round trip", with_image(mk, st.image));
                return;
            }
            // table + total + configuration are the whole state, and C12 shows the image encodes
            // them exactly: byte-identical re-serialization means identical state
            if d.serialize() != st.image {
                ctx.violation(&format!("cm.roundtrip.reserialize.{ty}"), "re-serialization is not byte-identical", with_image(mk, st.image));
                return;
            }
            // continuation: one more update lands in the same counters as in a sketch restored again
            if (st.model_total as u128) < (crate::cmm::max_of(ty) as u128) / 4 {
                let mut a = d.clone();
                let mut b = CountMinSketch::<T>::deserialize_with_seed(&d.serialize(), st.seed).unwrap();
                a.update(12345u64);
                b.update(12345u64);
                a.merge(&d);
                b.merge(&d);
                if a.serialize() != b.serialize() {
                    ctx.violation(&format!("cm.roundtrip.continuation.{ty}"), "update+merge on restored sketches diverge", with_image(mk, st.image));
                }
            }
        }
    }
}

/// C11 for a Count-Min state.
pub fn cm_roundtrip(ctx: &Ctx, st: &crate::c08::CmState, mk: &dyn Fn() -> Value) {
    match st.ty {
        "u8" => cm_rt::<u8>(ctx, st, mk),
        "u16" => cm_rt::<u16>(ctx, st, mk),
        "u32" => cm_rt::<u32>(ctx, st, mk),
        "u64" => cm_rt::<u64>(ctx, st, mk),
        "i8" => cm_rt::<i8>(ctx, st, mk),
        "i16" => cm_rt::<i16>(ctx, st, mk),
        "i32" => cm_rt::<i32>(ctx, st, mk),
        _ => cm_rt::<i64>(ctx, st, mk),
    }
}

/// C12 + C18 for a Bloom filter image against the explorer's model bits.
pub fn bloom_spec(ctx: &Ctx, st: &crate::c09::BloomState, mk: &dyn Fn() -> Value) {
    match spec_misc::bloom_decode(st.image) {
        Err(e) => {
            ctx.violation("bloom.image.undecodable", &format!("the spec decoder rejects the emitted image: {e}"), with_image(mk, st.image));
        }
        Ok(im) => {
            let pop: u64 = st.model_bits.iter().map(|w| w.count_ones() as u64).sum();
            let mut bad = vec![];
            if im.total_len != st.image.len() {
                bad.push(("bloom.image.length", format!("image is {} bytes, the layout accounts for {}", st.image.len(), im.total_len)));
            }
            let want_len = if pop == 0 { 24 } else { 32 + 8 * st.model_bits.len() };
            if st.image.len() != want_len {
                bad.push(("bloom.size.image", format!("image is {} bytes, the configuration fixes {}", st.image.len(), want_len)));
            }
            if im.num_hashes != st.num_hashes || im.seed != st.seed || im.num_longs as usize != st.model_bits.len() {
                bad.push(("bloom.image.header", format!("hashes/seed/numLongs image {}/{}/{} filter {}/{}/{}", im.num_hashes, im.seed, im.num_longs, st.num_hashes, st.seed, st.model_bits.len())));
            }
            if im.empty != (pop == 0) {
                bad.push(("bloom.image.empty_flag", format!("EMPTY flag {} but {} bits set", im.empty, pop)));
            }
            if im.words != st.model_bits || im.num_bits_set != pop {
                bad.push(("bloom.image.bits", "bit array / bit count decoded from the image differ from the model".to_string()));
            }
            for (k, w) in bad {
                ctx.violation(k, &w, with_image(mk, st.image));
            }
        }
    }
}

/// C11 for a Bloom filter state.
pub fn bloom_roundtrip(ctx: &Ctx, st: &crate::c09::BloomState, mk: &dyn Fn() -> Value) {
    use datasketches::bloom::BloomFilter;
    match catch(|| BloomFilter::deserialize(st.image)) {
        Err(p) => {
            ctx.violation(&format!("panic|{}", p.site_key()), &format!("BloomFilter::deserialize of own image panicked: {}", p.message), with_image(mk, st.image));
        }
        Ok(Err(e)) => {
            ctx.violation("bloom.roundtrip.rejected", &format!("deserialize(serialize(s)) fails: {e}"), with_image(mk, st.image));
        }
        Ok(Ok(d)) => {
            let f = st.filter;
            if d != *f || d.bits_used() != f.bits_used() || d.capacity() != f.capacity() || d.is_empty() != f.is_empty() || d.num_hashes() != f.num_hashes() || d.seed() != f.seed() {
                ctx.violation("bloom.roundtrip.queries", "restored filter differs from the original", with_image(mk, st.image));
                return;
            }
            for x in 0..16u64 {
                if d.contains(&x) != f.contains(&x) {
                    ctx.violation("bloom.roundtrip.contains", &format!("contains({x}) differs after a round trip"), with_image(mk, st.image));
                    return;
                }
            }
            if d.serialize() != st.image {
                ctx.violation("bloom.roundtrip.reserialize", "re-serialization is not byte-identical", with_image(mk, st.image));
                return;
            }
            // one-step bisimulation
            for op in 0..5 {
                let mut a = f.clone();
                let mut b = d.clone();
                match op {
                    0 => {
                        a.insert(99u64);
                        b.insert(99u64);
                    }
                    1 => {
                        let _ = (a.contains_and_insert(&"zz"), b.contains_and_insert(&"zz"));
                    }
                    2 => {
                        a.union(f);
                        b.union(f);
                    }
                    3 => {
                        a.invert();
                        b.invert();
                    }
                    _ => {
                        a.intersect(&d);
                        b.intersect(f);
                    }
                }
                if a != b || a.bits_used() != b.bits_used() {
                    ctx.violation("bloom.roundtrip.continuation", &format!("continuation op {op} diverges between original and restored filter"), with_image(mk, st.image));
                    return;
                }
            }
        }
    }
}


// =============================================================================== Frequent Items / t-digest

fn fi_obs(s: &datasketches::frequencies::FrequentItemsSketch<i64>, items: &[i64]) -> (u64, u64, usize, bool, Vec<(u64, u64, u64)>, usize, usize) {
    use datasketches::frequencies::ErrorType;
    (
        s.total_weight(),
        s.maximum_error(),
        s.num_active_items(),
        s.is_empty(),
        items.iter().map(|x| (s.estimate(x), s.lower_bound(x), s.upper_bound(x))).collect(),
        s.frequent_items(ErrorType::NoFalsePositives).len(),
        s.frequent_items(ErrorType::NoFalseNegatives).len(),
    )
}

/// C11 for a Frequent Items state (i64 items).
pub fn fi_roundtrip(ctx: &Ctx, p: &crate::c07::State, mk: &dyn Fn() -> Value) {
    use datasketches::frequencies::FrequentItemsSketch;
    let s = &p.s;
    let mut items: Vec<i64> = p.truth.keys().copied().collect();
    items.extend([i64::MIN + 5, 987654321]);
    let img = match catch(|| s.serialize()) {
        Ok(b) => b,
        Err(pi) => {
            ctx.violation(&format!("panic|{}", pi.site_key()), &format!("FI serialize panicked: {}", pi.message), mk());
            return;
        }
    };
    let d = match catch(|| FrequentItemsSketch::<i64>::deserialize(&img)) {
        Err(pi) => {
            ctx.violation(&format!("panic|{}", pi.site_key()), &format!("FI deserialize of own image panicked: {}", pi.message), with_image(mk, &img));
            return;
        }
        Ok(Err(e)) => {
            ctx.violation("fi.roundtrip.rejected", &format!("deserialize(serialize(s)) fails: {e}"), with_image(mk, &img));
            return;
        }
        Ok(Ok(d)) => d,
    };
    let (a, b) = (fi_obs(s, &items), fi_obs(&d, &items));
    if a != b || d.lg_max_map_size() != s.lg_max_map_size() || d.maximum_map_capacity() != s.maximum_map_capacity() {
        let what = if a.0 != b.0 { "total_weight" } else if a.1 != b.1 { "maximum_error" } else if a.2 != b.2 { "num_active_items" } else if a.3 != b.3 { "is_empty" } else if a.4 != b.4 { "estimates/bounds" } else { "frequent_items/configuration" };
        ctx.violation(&format!("fi.roundtrip.queries.{}", what.replace('/', "_")), &format!("{what} differ after a round trip: {:?} vs {:?}", (a.0, a.1, a.2, a.3), (b.0, b.1, b.2, b.3)), with_image(mk, &img));
        return;
    }
    // re-serialization encodes the same state (table order may differ: compare decoded sets)
    match (spec_misc::fi_decode(&img, false), spec_misc::fi_decode(&d.serialize(), false)) {
        (Ok(x), Ok(y)) => {
            let set = |im: &spec_misc::FiImage| -> std::collections::BTreeSet<(u64, u64)> {
                match &im.items {
                    spec_misc::FiItems::Longs(v) => v.iter().copied().zip(im.counts.iter().copied()).collect(),
                    _ => Default::default(),
                }
            };
            if set(&x) != set(&y) || x.stream_weight != y.stream_weight || x.offset != y.offset || x.lg_max != y.lg_max || x.empty != y.empty {
                ctx.violation("fi.roundtrip.reserialize", "re-serialized image encodes a different state", with_image(mk, &img));
                return;
            }
        }
        _ => {
            ctx.violation("fi.roundtrip.reserialize", "own image not decodable by the spec decoder", with_image(mk, &img));
            return;
        }
    }
    // one-step bisimulation (queries only: purge sampling depends on table layout, which a
    // round trip legitimately changes, so the bounds may differ while both bracket the truth)
    for (x, c) in [(items[0], 1u64), (424242, 1), (items[0], 5)] {
        let mut aa = s.clone();
        let mut bb = d.clone();
        if catch(|| aa.update_with_count(x, c)).is_err() != catch(|| bb.update_with_count(x, c)).is_err() {
            ctx.violation("fi.roundtrip.continuation_panics", "update panics for only one of original/restored", with_image(mk, &img));
            return;
        }
        if aa.total_weight() != bb.total_weight() || aa.upper_bound(&x) < p.truth.get(&x).copied().unwrap_or(0) + c || bb.upper_bound(&x) < p.truth.get(&x).copied().unwrap_or(0) + c || bb.lower_bound(&x) > p.truth.get(&x).copied().unwrap_or(0) + c {
            ctx.violation("fi.roundtrip.continuation", &format!("after update({x},{c}) the restored sketch no longer brackets the truth or has a different total weight"), with_image(mk, &img));
            return;
        }
    }
    // long drive on both: enough distinct items for map growth and purges; both must keep
    // bracketing the exact counts (the C07 oracle applied to the restored sketch)
    {
        let mut aa = s.clone();
        let mut bb = d.clone();
        let mut truth = p.truth.clone();
        let n = (2 * s.maximum_map_capacity() + 8).min(300);
        let r = catch(|| {
            for i in 0..n {
                let x = 10_000 + (i % (n / 2 + 1)) as i64;
                let c = 1 + (i as u64 % 3);
                aa.update_with_count(x, c);
                bb.update_with_count(x, c);
                *truth.entry(x).or_insert(0) += c;
            }
        });
        if let Err(pi) = r {
            ctx.violation(&format!("panic|{}", pi.site_key()), &format!("FI long continuation panicked: {}", pi.message), with_image(mk, &img));
            return;
        }
        let tw: u64 = truth.values().sum();
        if aa.total_weight() != bb.total_weight() || bb.total_weight() != tw {
            ctx.violation("fi.roundtrip.long_continuation", &format!("after {n} more updates total_weight is {} (restored) / {} (original), exact {tw}", bb.total_weight(), aa.total_weight()), with_image(mk, &img));
            return;
        }
        for (x, &tv) in truth.iter() {
            for (who, sk) in [("original", &aa), ("restored", &bb)] {
                let (lb, ub) = (sk.lower_bound(x), sk.upper_bound(x));
                if lb > tv || ub < tv || ub - lb > sk.maximum_error() {
                    ctx.violation("fi.roundtrip.long_continuation", &format!("after {n} more updates the {who} sketch reports [{lb},{ub}] (max_error {}) for item {x} with exact count {tv}", sk.maximum_error()), with_image(mk, &img));
                    return;
                }
            }
        }
    }
    let mut ma = FrequentItemsSketch::<i64>::new(p.size);
    let mut mb = FrequentItemsSketch::<i64>::new(p.size);
    ma.merge(s);
    mb.merge(&d);
    if ma.total_weight() != mb.total_weight() || ma.maximum_error() != mb.maximum_error() {
        ctx.violation("fi.roundtrip.merge", &format!("merge of the restored sketch gives total/max_error {}/{} instead of {}/{}", mb.total_weight(), mb.maximum_error(), ma.total_weight(), ma.maximum_error()), with_image(mk, &img));
    }
}

/// C12 + C18 for a Frequent Items state.
pub fn fi_spec(ctx: &Ctx, p: &crate::c07::State, mk: &dyn Fn() -> Value) {
    let s = &p.s;
    let img = match catch(|| s.serialize()) {
        Ok(b) => b,
        Err(pi) => {
            ctx.violation(&format!("panic|{}", pi.site_key()), &format!("FI serialize panicked: {}", pi.message), mk());
            return;
        }
    };
    if s.num_active_items() > s.maximum_map_capacity() {
        ctx.violation("fi.size.capacity", &format!("{} active items, maximum_map_capacity {}", s.num_active_items(), s.maximum_map_capacity()), mk());
    }
    match spec_misc::fi_decode(&img, false) {
        Err(e) => {
            ctx.violation("fi.image.undecodable", &format!("the spec decoder rejects the emitted image: {e}"), with_image(mk, &img));
        }
        Ok(im) => {
            let mut bad = vec![];
            if im.total_len != img.len() {
                bad.push(("fi.image.length", format!("image is {} bytes, the layout accounts for {}", img.len(), im.total_len)));
            }
            if im.empty != (p.weight == 0) {
                bad.push(("fi.image.empty_flag", format!("EMPTY flag {} but stream weight {}", im.empty, p.weight)));
            }
            if !im.empty {
                if im.stream_weight != p.weight || im.stream_weight != s.total_weight() {
                    bad.push(("fi.image.stream_weight", format!("stream weight {} in the image, exact weight {}", im.stream_weight, p.weight)));
                }
                if im.offset != s.maximum_error() {
                    bad.push(("fi.image.offset", format!("offset {} in the image, maximum_error {}", im.offset, s.maximum_error())));
                }
                if im.counts.len() != s.num_active_items() {
                    bad.push(("fi.image.active_items", format!("{} items in the image, {} active", im.counts.len(), s.num_active_items())));
                }
                if let spec_misc::FiItems::Longs(v) = &im.items {
                    for (x, c) in v.iter().zip(im.counts.iter()) {
                        let item = *x as i64;
                        if s.lower_bound(&item) != *c || *c == 0 {
                            bad.push(("fi.image.counts", format!("item {item} has count {c} in the image but lower_bound {}", s.lower_bound(&item))));
                            break;
                        }
                    }
                }
                if im.lg_max != s.lg_max_map_size() || im.lg_cur != s.lg_cur_map_size() {
                    bad.push(("fi.image.lg_sizes", format!("lg sizes {}/{} in the image, sketch {}/{}", im.lg_max, im.lg_cur, s.lg_max_map_size(), s.lg_cur_map_size())));
                }
                if img.len() != 32 + 16 * im.counts.len() {
                    bad.push(("fi.size.image", format!("image is {} bytes for {} items", img.len(), im.counts.len())));
                }
            } else if img.len() != 8 {
                bad.push(("fi.size.image", format!("empty image is {} bytes", img.len())));
            }
            for (k, w) in bad {
                ctx.violation(k, &w, with_image(mk, &img));
            }
        }
    }
}

fn td_obs(t: &mut datasketches::tdigest::TDigestMut) -> (u16, bool, Option<u64>, Option<u64>, u64, Vec<u64>) {
    let mut q = vec![];
    for i in 0..=8 {
        q.push(t.quantile(i as f64 / 8.0).map(|x| x.to_bits()).unwrap_or(0));
    }
    if let (Some(a), Some(b)) = (t.min_value(), t.max_value()) {
        for i in 0..=8 {
            q.push(t.rank(a + (b - a) * i as f64 / 8.0).map(|x| x.to_bits()).unwrap_or(0));
        }
    }
    (t.k(), t.is_empty(), t.min_value().map(|x| x.to_bits()), t.max_value().map(|x| x.to_bits()), t.total_weight(), q)
}

/// C11 for a t-digest state.
pub fn td_roundtrip(ctx: &Ctx, t: &datasketches::tdigest::TDigestMut, mk: &dyn Fn() -> Value) {
    use datasketches::tdigest::TDigestMut;
    let mut s = t.clone();
    let img = match catch(|| s.serialize()) {
        Ok(b) => b,
        Err(p) => {
            ctx.violation(&format!("panic|{}", p.site_key()), &format!("t-digest serialize panicked: {}", p.message), mk());
            return;
        }
    };
    let mut d = match catch(|| TDigestMut::deserialize(&img, false)) {
        Err(p) => {
            ctx.violation(&format!("panic|{}", p.site_key()), &format!("t-digest deserialize of own image panicked: {}", p.message), with_image(mk, &img));
            return;
        }
        Ok(Err(e)) => {
            ctx.violation("td.roundtrip.rejected", &format!("deserialize(serialize(s)) fails: {e}"), with_image(mk, &img));
            return;
        }
        Ok(Ok(d)) => d,
    };
    // `s` has been compressed by serialize(); the original `t` may still have buffered values
    let mut orig = t.clone();
    match catch(|| (td_obs(&mut orig), td_obs(&mut s), td_obs(&mut d))) {
        Err(p) => {
            ctx.violation(&format!("panic|{}", p.site_key()), &format!("t-digest queries panicked: {}", p.message), with_image(mk, &img));
            return;
        }
        Ok((o, a, b)) => {
            if a != b || o != a {
                let what = if a.4 != b.4 { "total_weight" } else if a.2 != b.2 || a.3 != b.3 { "min/max" } else if a.0 != b.0 { "k" } else { "rank/quantile grid" };
                ctx.violation(&format!("td.roundtrip.queries.{}", what.replace(['/', ' '], "_")), &format!("{what} differ between the digest, its serialized self and the restored digest"), with_image(mk, &img));
                return;
            }
        }
    }
    match catch(|| d.serialize()) {
        Ok(img2) => {
            if img2 != img {
                ctx.violation("td.roundtrip.reserialize", "re-serialization is not byte-identical", with_image(mk, &img));
                return;
            }
        }
        Err(p) => {
            ctx.violation(&format!("panic|{}", p.site_key()), &format!("re-serialize panicked: {}", p.message), with_image(mk, &img));
            return;
        }
    }
    // one-step bisimulation: the same batch of updates / a merge on both gives the same image
    for batch in 0..3 {
        let mut a = s.clone();
        let mut b = d.clone();
        let r = catch(|| {
            match batch {
                0 => {
                    a.update(0.5);
                    b.update(0.5);
                }
                1 => {
                    for i in 0..(4 * (a.k() as usize) + 50) {
                        let v = ((i * 37) % 101) as f64 - 50.0;
                        a.update(v);
                        b.update(v);
                    }
                }
                _ => {
                    a.merge(&d);
                    b.merge(&s);
                }
            }
            (a.serialize(), b.serialize())
        });
        match r {
            Err(p) => {
                ctx.violation(&format!("panic|{}", p.site_key()), &format!("continuation panicked: {}", p.message), with_image(mk, &img));
                return;
            }
            Ok((x, y)) => {
                if x != y {
                    ctx.violation("td.roundtrip.continuation", &format!("continuation {batch} (0: one update, 1: a batch crossing a compress, 2: merge) diverges between original and restored digest"), with_image(mk, &img));
                    return;
                }
            }
        }
    }
}

/// C12 + C18 for a t-digest state.
pub fn td_spec(ctx: &Ctx, t: &datasketches::tdigest::TDigestMut, mk: &dyn Fn() -> Value) {
    let mut s = t.clone();
    let img = match catch(|| s.serialize()) {
        Ok(b) => b,
        Err(p) => {
            ctx.violation(&format!("panic|{}", p.site_key()), &format!("t-digest serialize panicked: {}", p.message), mk());
            return;
        }
    };
    match crate::tdm::decode(&img) {
        Err(e) => {
            ctx.violation("td.image.undecodable", &format!("the spec decoder rejects the emitted image: {e}"), with_image(mk, &img));
        }
        Ok(im) => {
            let mut bad = vec![];
            if im.k != t.k() {
                bad.push(("td.image.k", format!("k {} in the image, digest {}", im.k, t.k())));
            }
            if im.total_weight() != t.total_weight() {
                bad.push(("td.image.total_weight", format!("centroid weights + buffered sum to {}, total_weight {}", im.total_weight(), t.total_weight())));
            }
            if !t.is_empty() && (Some(im.min.to_bits()) != t.min_value().map(f64::to_bits) || Some(im.max.to_bits()) != t.max_value().map(f64::to_bits)) {
                bad.push(("td.image.min_max", format!("min/max {}/{} in the image, digest {:?}/{:?}", im.min, im.max, t.min_value(), t.max_value())));
            }
            if (im.flags & crate::tdm::FLAG_EMPTY != 0) != t.is_empty() {
                bad.push(("td.image.empty_flag", format!("EMPTY flag {} but is_empty {}", im.flags & crate::tdm::FLAG_EMPTY != 0, t.is_empty())));
            }
            if im.centroids.windows(2).any(|w| w[0].0 > w[1].0) || im.centroids.iter().any(|c| c.1 == 0) {
                bad.push(("td.image.centroids", "centroid means not sorted or a zero weight".to_string()));
            }
            // C18: image size bounded by k alone
            if img.len() > 32 + 16 * (2 * t.k() as usize + 30) {
                bad.push(("td.size.image", format!("image is {} bytes for k {}", img.len(), t.k())));
            }
            for (k, w) in bad {
                ctx.violation(k, &w, with_image(mk, &img));
            }
        }
    }
}
