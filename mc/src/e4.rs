//! E4 — fault enumerator for byte images: every case runs in a worker subprocess under an
//! allocator that refuses oversized single allocations and under a per-case watchdog.

use crate::common::{PanicInfo, catch, hex, unhex};
use std::alloc::{GlobalAlloc, Layout, System};
use std::io::{BufRead, BufReader, Write};
use std::process::{Child, ChildStdin, Command, Stdio};
use std::sync::atomic::{AtomicUsize, Ordering};

/// 0 = unlimited. A single allocation larger than this is refused (null -> abort).
pub static ALLOC_LIMIT: AtomicUsize = AtomicUsize::new(0);
pub static ALLOC_PEAK: AtomicUsize = AtomicUsize::new(0);

pub struct Guard;

fn write_refusal(size: usize) {
    // allocation-free: format into a stack buffer and write(2) to stdout
    let mut buf = [0u8; 40];
    let prefix = b"\nALLOC ";
    buf[..prefix.len()].copy_from_slice(prefix);
    let mut n = size;
    let mut digits = [0u8; 20];
    let mut d = 0;
    loop {
        digits[d] = b'0' + (n % 10) as u8;
        n /= 10;
        d += 1;
        if n == 0 {
            break;
        }
    }
    let mut p = prefix.len();
    for i in (0..d).rev() {
        buf[p] = digits[i];
        p += 1;
    }
    buf[p] = b'\n';
    p += 1;
    use std::os::fd::FromRawFd;
    let mut f = unsafe { std::fs::File::from_raw_fd(1) };
    let _ = f.write_all(&buf[..p]);
    std::mem::forget(f);
}

unsafe impl GlobalAlloc for Guard {
    unsafe fn alloc(&self, l: Layout) -> *mut u8 {
        let lim = ALLOC_LIMIT.load(Ordering::Relaxed);
        if lim != 0 {
            if l.size() > lim {
                write_refusal(l.size());
                ALLOC_LIMIT.store(0, Ordering::Relaxed); // let the abort path run unhindered
                return std::ptr::null_mut();
            }
            ALLOC_PEAK.fetch_max(l.size(), Ordering::Relaxed);
        }
        unsafe { System.alloc(l) }
    }
    unsafe fn dealloc(&self, p: *mut u8, l: Layout) {
        unsafe { System.dealloc(p, l) }
    }
    unsafe fn alloc_zeroed(&self, l: Layout) -> *mut u8 {
        let lim = ALLOC_LIMIT.load(Ordering::Relaxed);
        if lim != 0 {
            if l.size() > lim {
                write_refusal(l.size());
                return std::ptr::null_mut();
            }
            ALLOC_PEAK.fetch_max(l.size(), Ordering::Relaxed);
        }
        unsafe { System.alloc_zeroed(l) }
    }
    unsafe fn realloc(&self, p: *mut u8, l: Layout, new_size: usize) -> *mut u8 {
        let lim = ALLOC_LIMIT.load(Ordering::Relaxed);
        if lim != 0 {
            if new_size > lim {
                write_refusal(new_size);
                return std::ptr::null_mut();
            }
            ALLOC_PEAK.fetch_max(new_size, Ordering::Relaxed);
        }
        unsafe { System.realloc(p, l, new_size) }
    }
}

#[derive(Clone, Debug, PartialEq)]
pub enum Verdict {
    Ok,
    Err,
    Panic(PanicInfo2),
    /// panic in the post-script on a value that deserialize accepted
    PostPanic(PanicInfo2),
    Alloc(usize),
    Hang,
    Died(String),
}

#[derive(Clone, Debug, PartialEq)]
pub struct PanicInfo2 {
    pub site: String,
    pub message: String,
    pub location: String,
}

impl From<PanicInfo> for PanicInfo2 {
    fn from(p: PanicInfo) -> Self {
        PanicInfo2 { site: p.site_key(), message: p.message.replace('\n', " "), location: format!("{}:{}", p.file, p.line) }
    }
}

/// A single allocation during deserialize may be at most max(8 MiB, 64 x input length): the
/// floor covers working memory that only depends on a small configuration field (a t-digest
/// with k = 65535 needs 4.2 MiB of buffers whatever the input), the factor covers decoded data.
pub fn alloc_limit_for(len: usize) -> usize {
    (8usize << 20).max(64 * len)
}

/// Worker loop: reads "entry hex" lines from stdin, answers one line per case.
pub fn worker_main(run_case: &dyn Fn(usize, &[u8]) -> (Result<bool, PanicInfo>, Option<PanicInfo>)) -> i32 {
    let stdin = std::io::stdin();
    let mut out = std::io::stdout();
    let mut line = String::new();
    loop {
        line.clear();
        match stdin.lock().read_line(&mut line) {
            Ok(0) | Err(_) => return 0,
            Ok(_) => {}
        }
        let mut it = line.split_whitespace();
        let (Some(e), h) = (it.next(), it.next().unwrap_or("")) else { continue };
        let entry: usize = e.parse().unwrap_or(0);
        let bytes = unhex(h);
        // the limit covers deserialize and the post-script (which gets a floor of 4 MiB)
        let (r, post) = {
            let _ = writeln!(out, "BEGIN");
            let _ = out.flush();
            ALLOC_PEAK.store(0, Ordering::Relaxed);
            run_case(entry, &bytes)
        };
        ALLOC_LIMIT.store(0, Ordering::Relaxed);
        let peak = ALLOC_PEAK.load(Ordering::Relaxed);
        let msg = match (r, post) {
            (Err(p), _) => {
                let p: PanicInfo2 = p.into();
                format!("PANIC\t{}\t{}\t{}", p.site.replace(['\t', '\n'], " "), p.message.replace('\t', " "), p.location)
            }
            (Ok(_), Some(p)) => {
                let p: PanicInfo2 = p.into();
                format!("POSTPANIC\t{}\t{}\t{}", p.site.replace(['\t', '\n'], " "), p.message.replace('\t', " "), p.location)
            }
            (Ok(true), None) => format!("OK\t{peak}"),
            (Ok(false), None) => format!("ERR\t{peak}"),
        };
        let _ = writeln!(out, "{msg}");
        let _ = out.flush();
    }
}

pub struct Worker {
    child: Child,
    stdin: ChildStdin,
    rx: std::sync::mpsc::Receiver<String>,
}

impl Worker {
    pub fn spawn() -> std::io::Result<Worker> {
        Self::spawn_profile(false)
    }

    /// `chk`: the worker of the chk build (debug assertions + overflow checks) next to this
    /// executable (`../chk/mcx`).
    pub fn spawn_profile(chk: bool) -> std::io::Result<Worker> {
        let me = std::env::current_exe()?;
        let exe = if chk {
            let p = me.parent().map(|d| d.join("../chk/mcx")).unwrap_or_default();
            if !p.exists() {
                return Err(std::io::Error::new(std::io::ErrorKind::NotFound, format!("chk build of the harness not found at {} (run: cargo build --profile chk)", p.display())));
            }
            p
        } else {
            me
        };
        let mut child = Command::new(exe).arg("worker").stdin(Stdio::piped()).stdout(Stdio::piped()).stderr(Stdio::null()).spawn()?;
        let stdin = child.stdin.take().unwrap();
        let mut stdout = BufReader::new(child.stdout.take().unwrap());
        let (tx, rx) = std::sync::mpsc::channel::<String>();
        // reader thread: forwards the worker's lines; ends at EOF (worker death)
        std::thread::spawn(move || {
            let mut line = String::new();
            loop {
                line.clear();
                match stdout.read_line(&mut line) {
                    Ok(0) | Err(_) => break,
                    Ok(_) => {
                        if tx.send(line.trim_end().to_string()).is_err() {
                            break;
                        }
                    }
                }
            }
        });
        Ok(Worker { child, stdin, rx })
    }

    /// Runs one case; on worker death or hang the worker is gone and must be respawned.
    pub fn run(&mut self, entry: usize, bytes: &[u8], timeout_ms: u64) -> (Verdict, bool) {
        if writeln!(self.stdin, "{} {}", entry, hex(bytes)).is_err() || self.stdin.flush().is_err() {
            return (Verdict::Died("cannot write to worker".into()), false);
        }
        let deadline = std::time::Instant::now() + std::time::Duration::from_millis(timeout_ms);
        let mut alloc: Option<usize> = None;
        loop {
            let left = deadline.saturating_duration_since(std::time::Instant::now());
            match self.rx.recv_timeout(left) {
                Ok(l) => {
                    if l == "BEGIN" || l.is_empty() {
                        continue;
                    }
                    if let Some(sz) = l.strip_prefix("ALLOC ") {
                        // keep the first refusal: the abort path allocates again while symbolizing
                        if alloc.is_none() {
                            alloc = sz.trim().parse().ok();
                        }
                        continue;
                    }
                    let parts: Vec<&str> = l.split('\t').collect();
                    let pi = || PanicInfo2 { site: parts.get(1).unwrap_or(&"").to_string(), message: parts.get(2).unwrap_or(&"").to_string(), location: parts.get(3).unwrap_or(&"").to_string() };
                    let v = match parts[0] {
                        "OK" => Verdict::Ok,
                        "ERR" => Verdict::Err,
                        "PANIC" => Verdict::Panic(pi()),
                        "POSTPANIC" => Verdict::PostPanic(pi()),
                        other => Verdict::Died(format!("unexpected worker output {other:?}")),
                    };
                    return (v, true);
                }
                Err(std::sync::mpsc::RecvTimeoutError::Timeout) => {
                    let _ = self.child.kill();
                    let _ = self.child.wait();
                    return (Verdict::Hang, false);
                }
                Err(std::sync::mpsc::RecvTimeoutError::Disconnected) => {
                    let _ = self.child.kill();
                    let _ = self.child.wait();
                    return match alloc {
                        Some(sz) => (Verdict::Alloc(sz), false),
                        None => (Verdict::Died("worker died without a verdict (abort / stack overflow / OOM)".into()), false),
                    };
                }
            }
        }
    }
}

impl Drop for Worker {
    fn drop(&mut self) {
        let _ = self.child.kill();
        let _ = self.child.wait();
    }
}

/// Runs all cases on a pool of worker subprocesses; `sink` receives each verdict.
pub fn run_cases<C: Sync>(cases: &[C], nworkers: usize, enc: &(dyn Fn(&C) -> (usize, Vec<u8>) + Sync), sink: &(dyn Fn(&C, &Verdict) + Sync)) -> Result<(), String> {
    run_cases_profile(cases, nworkers, false, enc, sink)
}

pub fn run_cases_profile<C: Sync>(cases: &[C], nworkers: usize, chk: bool, enc: &(dyn Fn(&C) -> (usize, Vec<u8>) + Sync), sink: &(dyn Fn(&C, &Verdict) + Sync)) -> Result<(), String> {
    let next = AtomicUsize::new(0);
    let err = std::sync::Mutex::new(None::<String>);
    std::thread::scope(|sc| {
        for _ in 0..nworkers {
            sc.spawn(|| {
                let mut w = match Worker::spawn_profile(chk) {
                    Ok(w) => w,
                    Err(e) => {
                        *err.lock().unwrap() = Some(format!("cannot spawn worker: {e}"));
                        return;
                    }
                };
                loop {
                    let i = next.fetch_add(1, Ordering::Relaxed);
                    if i >= cases.len() {
                        break;
                    }
                    let (entry, bytes) = enc(&cases[i]);
                    let (v, alive) = w.run(entry, &bytes, 3000);
                    sink(&cases[i], &v);
                    if !alive {
                        w = match Worker::spawn_profile(chk) {
                            Ok(w) => w,
                            Err(e) => {
                                *err.lock().unwrap() = Some(format!("cannot respawn worker: {e}"));
                                return;
                            }
                        };
                    }
                }
            });
        }
    });
    match err.into_inner().unwrap() {
        Some(e) => Err(e),
        None => Ok(()),
    }
}

/// Helper for entry points: run `f` (deserialize) then `post` under the allocation limit.
pub fn guarded<T>(len: usize, f: impl FnOnce() -> Result<T, datasketches::error::Error>, post: impl FnOnce(T)) -> (Result<bool, PanicInfo>, Option<PanicInfo>) {
    ALLOC_LIMIT.store(alloc_limit_for(len), Ordering::Relaxed);
    let r = catch(f);
    match r {
        Err(p) => {
            ALLOC_LIMIT.store(0, Ordering::Relaxed);
            (Err(p), None)
        }
        Ok(Err(_)) => {
            ALLOC_LIMIT.store(0, Ordering::Relaxed);
            (Ok(false), None)
        }
        Ok(Ok(v)) => {
            // using an accepted value may legitimately allocate in proportion to its configured size
            // (e.g. k registers), which the input length does not bound; only guard the host
            ALLOC_LIMIT.store(1 << 30, Ordering::Relaxed);
            let pr = catch(|| post(v));
            ALLOC_LIMIT.store(0, Ordering::Relaxed);
            (Ok(true), pr.err())
        }
    }
}
