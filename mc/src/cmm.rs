//! Count-Min reference model (`ref_cm`: exact counts + model table) and the C08 oracle.
//!
//! The model knows nothing of /repo: the bucket of item x in row r is
//! `ref_murmur(bytes(x), seed_r).h1 % num_buckets` with `seed_r = ref_murmur(le64(r), seed).h1`
//! where `bytes(x)` is the byte sequence the item's `Hash` impl feeds a hasher (recorded with
//! `c16::Recorder`) and the hash is `refhash::murmur3_x64_128` (written from the published
//! algorithm). The real table is read from `serialize()`.

use crate::c16::recorded_bytes;
use crate::common::catch;
use crate::refhash;
use datasketches::countmin::CountMinSketch;
use datasketches::countmin::CountMinValue;
use serde_json::{Value, json};
use std::sync::atomic::{AtomicU64, Ordering};

// ---------------------------------------------------------------------------------------
// Items of three kinds (different `Hash` write patterns); shared with the Bloom model
// ---------------------------------------------------------------------------------------

#[derive(Clone, Debug, PartialEq, Eq, Hash, PartialOrd, Ord)]
pub enum Item {
    U(u64),
    S(String),
    B(Vec<u8>),
}

impl Item {
    /// The bytes the item's `Hash` impl feeds to a hasher (u64: 8 LE bytes; &str: bytes + 0xFF;
    /// &[u8]: usize length prefix + bytes).
    pub fn bytes(&self) -> Vec<u8> {
        match self {
            Item::U(x) => recorded_bytes(x),
            Item::S(s) => recorded_bytes(&s.as_str()),
            Item::B(b) => recorded_bytes(&b.as_slice()),
        }
    }
    pub fn json(&self) -> Value {
        match self {
            Item::U(x) => json!({"u64": x}),
            Item::S(s) => json!({"str": s}),
            Item::B(b) => json!({"bytes": b}),
        }
    }
    pub fn from_json(v: &Value) -> Item {
        if let Some(x) = v.get("u64") {
            Item::U(x.as_u64().unwrap())
        } else if let Some(s) = v.get("str") {
            Item::S(s.as_str().unwrap().to_string())
        } else {
            Item::B(v["bytes"].as_array().unwrap().iter().map(|b| b.as_u64().unwrap() as u8).collect())
        }
    }
    pub fn kind(&self) -> &'static str {
        match self {
            Item::U(_) => "u64",
            Item::S(_) => "&str",
            Item::B(_) => "&[u8]",
        }
    }
}

/// Candidate j of the (fixed, ordered) item universe: two u64 then one &str then one byte slice.
pub fn candidate(j: usize) -> Item {
    match j % 4 {
        0 | 1 => Item::U(j as u64),
        2 => Item::S(format!("s{j}")),
        _ => Item::B(vec![j as u8, (j >> 8) as u8, 0xA5]),
    }
}

// ---------------------------------------------------------------------------------------
// Counter types
// ---------------------------------------------------------------------------------------

pub trait Cv: CountMinValue + Send + Sync + std::fmt::Debug + 'static {
    const NAME: &'static str;
    const UNSIGNED: bool;
    /// T::MAX as u64
    const MAXU: u64;
    fn from_u64(v: u64) -> Self;
    fn to_i128(self) -> i128;
    /// `halve` / `decay` exist only for the unsigned types; the signed impls are never called.
    fn halve_sk(s: &mut CountMinSketch<Self>);
    fn decay_sk(s: &mut CountMinSketch<Self>, d: f64);
}

macro_rules! cv_unsigned {
    ($t:ty, $n:expr) => {
        impl Cv for $t {
            const NAME: &'static str = $n;
            const UNSIGNED: bool = true;
            const MAXU: u64 = <$t>::MAX as u64;
            fn from_u64(v: u64) -> Self {
                assert!(v <= Self::MAXU, "model precondition: weight fits the counter type");
                v as $t
            }
            fn to_i128(self) -> i128 {
                self as i128
            }
            fn halve_sk(s: &mut CountMinSketch<Self>) {
                s.halve()
            }
            fn decay_sk(s: &mut CountMinSketch<Self>, d: f64) {
                s.decay(d)
            }
        }
    };
}
macro_rules! cv_signed {
    ($t:ty, $n:expr) => {
        impl Cv for $t {
            const NAME: &'static str = $n;
            const UNSIGNED: bool = false;
            const MAXU: u64 = <$t>::MAX as u64;
            fn from_u64(v: u64) -> Self {
                assert!(v <= Self::MAXU, "model precondition: weight fits the counter type");
                v as $t
            }
            fn to_i128(self) -> i128 {
                self as i128
            }
            fn halve_sk(_: &mut CountMinSketch<Self>) {
                unreachable!("halve is not offered for signed counter types")
            }
            fn decay_sk(_: &mut CountMinSketch<Self>, _: f64) {
                unreachable!("decay is not offered for signed counter types")
            }
        }
    };
}
cv_unsigned!(u8, "u8");
cv_unsigned!(u16, "u16");
cv_unsigned!(u32, "u32");
cv_unsigned!(u64, "u64");
cv_signed!(i8, "i8");
cv_signed!(i16, "i16");
cv_signed!(i32, "i32");
cv_signed!(i64, "i64");

pub const TYPES: [&str; 8] = ["u8", "u16", "u32", "u64", "i8", "i16", "i32", "i64"];

/// Calls a generic function with the counter type named by a string.
#[macro_export]
macro_rules! cm_dispatch {
    ($name:expr, $f:ident ( $($a:expr),* )) => {
        match $name {
            "u8" => $f::<u8>($($a),*),
            "u16" => $f::<u16>($($a),*),
            "u32" => $f::<u32>($($a),*),
            "u64" => $f::<u64>($($a),*),
            "i8" => $f::<i8>($($a),*),
            "i16" => $f::<i16>($($a),*),
            "i32" => $f::<i32>($($a),*),
            "i64" => $f::<i64>($($a),*),
            other => panic!("unknown counter type {other}"),
        }
    };
}

pub fn max_of(ty: &str) -> u64 {
    fn m<T: Cv>() -> u64 {
        T::MAXU
    }
    cm_dispatch!(ty, m())
}
pub fn is_unsigned(ty: &str) -> bool {
    fn m<T: Cv>() -> bool {
        T::UNSIGNED
    }
    cm_dispatch!(ty, m())
}

// ---------------------------------------------------------------------------------------
// Layout: the reference bucket of every query-domain item in every row
// ---------------------------------------------------------------------------------------

pub const DOMAIN: usize = 256;
pub const CANDIDATES: usize = 512;
pub const ALPHABET_ITEMS: usize = 6;

pub fn row_seed(seed: u64, row: usize) -> u64 {
    refhash::murmur3_x64_128(&(row as u64).to_le_bytes(), seed).0
}

pub fn ref_bucket(bytes: &[u8], seed: u64, row: usize, buckets: u32) -> u32 {
    (refhash::murmur3_x64_128(bytes, row_seed(seed, row)).0 % buckets as u64) as u32
}

#[derive(Clone, Debug)]
pub struct Layout {
    pub hashes: u8,
    pub buckets: u32,
    pub seed: u64,
    /// query domain; the first `active` items are the only ones that are ever updated
    pub items: Vec<Item>,
    pub active: usize,
    /// bucket[i][r]
    pub bucket: Vec<Vec<u32>>,
}

impl Layout {
    fn buckets_of(hashes: u8, buckets: u32, seed: u64, it: &Item) -> Vec<u32> {
        let b = it.bytes();
        (0..hashes as usize).map(|r| ref_bucket(&b, seed, r, buckets)).collect()
    }

    /// Brute-force choice of the 6 alphabet items among the 512 candidates:
    /// [0],[1]: the pair colliding in the most rows (all rows whenever such a pair exists);
    /// [2]: collides with [0] in some but not all rows; [3]: collides with [0] in no row;
    /// [4]: first unused &str; [5]: first unused byte slice.
    pub fn choose_alphabet(hashes: u8, buckets: u32, seed: u64) -> Vec<Item> {
        let cands: Vec<Item> = (0..CANDIDATES).map(candidate).collect();
        let bk: Vec<Vec<u32>> = cands.iter().map(|c| Self::buckets_of(hashes, buckets, seed, c)).collect();
        let same = |a: usize, b: usize| (0..hashes as usize).filter(|&r| bk[a][r] == bk[b][r]).count();
        let mut best = (0usize, 0usize, 1usize);
        'outer: for a in 0..CANDIDATES {
            for b in a + 1..CANDIDATES {
                let s = same(a, b);
                if s > best.0 {
                    best = (s, a, b);
                    if s == hashes as usize {
                        break 'outer;
                    }
                }
            }
        }
        let (_, a, b) = best;
        let mut chosen = vec![a, b];
        let partial = (0..CANDIDATES).find(|&c| !chosen.contains(&c) && same(a, c) > 0 && same(a, c) < hashes as usize);
        let c = partial.unwrap_or_else(|| (0..CANDIDATES).find(|c| !chosen.contains(c)).unwrap());
        chosen.push(c);
        let apart = (0..CANDIDATES).find(|&d| !chosen.contains(&d) && same(a, d) == 0 && same(b, d) == 0);
        let d = apart.unwrap_or_else(|| (0..CANDIDATES).find(|d| !chosen.contains(d)).unwrap());
        chosen.push(d);
        let e = (0..CANDIDATES).find(|&e| !chosen.contains(&e) && matches!(cands[e], Item::S(_))).unwrap();
        chosen.push(e);
        let f = (0..CANDIDATES).find(|&f| !chosen.contains(&f) && matches!(cands[f], Item::B(_))).unwrap();
        chosen.push(f);
        chosen.into_iter().map(|i| cands[i].clone()).collect()
    }

    /// Query domain = `active` items first, then candidates in order up to DOMAIN items.
    pub fn build(hashes: u8, buckets: u32, seed: u64, active: Vec<Item>) -> Layout {
        let n_active = active.len();
        let mut items = active;
        let mut j = 0;
        while items.len() < DOMAIN.max(n_active) && j < CANDIDATES {
            let c = candidate(j);
            if !items.contains(&c) {
                items.push(c);
            }
            j += 1;
        }
        let bucket = items.iter().map(|it| Self::buckets_of(hashes, buckets, seed, it)).collect();
        Layout { hashes, buckets, seed, items, active: n_active, bucket }
    }

    pub fn new(hashes: u8, buckets: u32, seed: u64) -> Layout {
        Self::build(hashes, buckets, seed, Self::choose_alphabet(hashes, buckets, seed))
    }

    pub fn rows_colliding(&self, a: usize, b: usize) -> usize {
        (0..self.hashes as usize).filter(|&r| self.bucket[a][r] == self.bucket[b][r]).count()
    }

    pub fn cfg_json(&self, ty: &str) -> Value {
        json!({"type": ty, "hashes": self.hashes, "buckets": self.buckets, "seed": self.seed})
    }
}

// ---------------------------------------------------------------------------------------
// Ops, model, pair
// ---------------------------------------------------------------------------------------

#[derive(Clone, Debug, PartialEq)]
pub enum Op {
    /// update_with_weight(items[i], w)
    Update(u8, u64),
    /// merge(pool[j])
    Merge(u8),
    Halve,
    Decay(f64),
}

pub const DECAYS: [f64; 3] = [0.5, 1.0, 0.999];

/// The alphabet of DESIGN 3/C08, simplest first.
pub fn alphabet(ty: &str) -> Vec<Op> {
    let maxu = max_of(ty);
    let mut v = vec![];
    for w in [1u64, 2, maxu / 4] {
        for i in 0..ALPHABET_ITEMS as u8 {
            v.push(Op::Update(i, w));
        }
    }
    for j in 0..4 {
        v.push(Op::Merge(j));
    }
    if is_unsigned(ty) {
        v.push(Op::Halve);
        for d in DECAYS {
            v.push(Op::Decay(d));
        }
    }
    v
}

/// Pool of 4 same-configuration sketches, as update lists over the alphabet items.
pub fn pool_recipes(ty: &str) -> Vec<Vec<(u8, u64)>> {
    let m = max_of(ty);
    vec![vec![(0, 1)], vec![(1, 2), (2, 1), (0, 1)], vec![(5, m / 4), (3, 2)], vec![]]
}

#[derive(Clone, Debug, PartialEq)]
pub struct Model {
    pub table: Vec<u64>,
    pub total: u64,
    /// exact (scaled) true weight of the active items; every other item has truth 0
    pub truth: Vec<u64>,
}

pub fn decay_u(x: u64, d: f64, maxu: u64) -> u64 {
    // "multiplies by decay and truncates back into T" (float-to-int `as` saturates)
    ((x as f64 * d).trunc() as u64).min(maxu)
}

#[derive(Clone)]
pub struct Pair<T: Cv> {
    pub s: CountMinSketch<T>,
    pub m: Model,
    /// canonical key of the state: sparse REAL table (from serialize()) + total + truths
    pub key: Vec<u8>,
    /// hash of the op history; part of the key only while the image is the empty form, which
    /// says nothing about the in-memory counters
    pub hist: u64,
}

pub enum Applied {
    Refused,
    /// violations (key, what) and the serialized image of the successor
    Done(Vec<(String, String)>, Vec<u8>),
}

pub const EDGE_NAMES: [&str; 24] = [
    "update with weight 1",
    "update with weight 2",
    "update with weight T::MAX/4",
    "update into an empty sketch",
    "update of an item that collides in ALL rows with an already counted item (its estimate must over-count, never under-count)",
    "update of an item that collides in SOME rows with an already counted item",
    "update of an item sharing no bucket with any counted item",
    "update of a &str item",
    "update of a byte-slice item",
    "merge(non-empty into non-empty)",
    "merge(empty operand)",
    "merge into an empty sketch",
    "halve",
    "halve truncates an odd counter",
    "halve of an empty sketch",
    "decay(0.5)",
    "decay(1.0)",
    "decay(0.999)",
    "decay truncates a counter to 0",
    "state with estimate(x) > truth(x) for a counted item",
    "state with estimate(x) > 0 for a never-updated item",
    "state where total_weight reached more than T::MAX/2",
    "upper_bound evaluated where estimate + eps*total exceeds T::MAX",
    "op refused by the model (total would exceed T::MAX)",
];

pub struct Edges(pub Vec<AtomicU64>);
impl Default for Edges {
    fn default() -> Self {
        Edges((0..EDGE_NAMES.len()).map(|_| AtomicU64::new(0)).collect())
    }
}
impl Edges {
    pub fn hit(&self, name_prefix: &str) {
        let i = EDGE_NAMES.iter().position(|n| n.starts_with(name_prefix)).expect("edge name");
        self.0[i].fetch_add(1, Ordering::Relaxed);
    }
    pub fn get(&self, name_prefix: &str) -> u64 {
        let i = EDGE_NAMES.iter().position(|n| n.starts_with(name_prefix)).expect("edge name");
        self.0[i].load(Ordering::Relaxed)
    }
    pub fn flush(&self, ctx: &crate::common::Ctx) {
        let mut e = ctx.edges.lock().unwrap();
        for (i, n) in EDGE_NAMES.iter().enumerate() {
            let v = self.0[i].load(Ordering::Relaxed);
            if v > 0 {
                *e.entry(n.to_string()).or_insert(0) += v;
            }
        }
    }
}

fn sk_update<T: Cv>(s: &mut CountMinSketch<T>, it: &Item, w: T) {
    match it {
        Item::U(x) => s.update_with_weight(*x, w),
        Item::S(x) => s.update_with_weight(x.as_str(), w),
        Item::B(x) => s.update_with_weight(x.as_slice(), w),
    }
}
fn sk_query<T: Cv>(s: &CountMinSketch<T>, it: &Item, with_bounds: bool) -> (T, Option<(T, T)>) {
    match it {
        Item::U(x) => (s.estimate(*x), with_bounds.then(|| (s.lower_bound(*x), s.upper_bound(*x)))),
        Item::S(x) => (s.estimate(x.as_str()), with_bounds.then(|| (s.lower_bound(x.as_str()), s.upper_bound(x.as_str())))),
        Item::B(x) => (s.estimate(x.as_slice()), with_bounds.then(|| (s.lower_bound(x.as_slice()), s.upper_bound(x.as_slice())))),
    }
}

/// Keeps the first violation of each key.
fn dedup_keys(out: &mut Vec<(String, String)>) {
    let mut seen_keys: Vec<String> = vec![];
    out.retain(|(k, _)| {
        if seen_keys.contains(k) {
            false
        } else {
            seen_keys.push(k.clone());
            true
        }
    });
}

fn panic_vio(site: &str, p: &crate::common::PanicInfo) -> (String, String) {
    (format!("panic|{}", p.site_key()), format!("{site} panicked: {} at {}:{}", p.message, p.file, p.line))
}

impl<T: Cv> Pair<T> {
    /// A fresh real sketch + empty model; Err if the constructor panics.
    pub fn new(lay: &Layout) -> Result<Self, (String, String)> {
        let s = catch(|| CountMinSketch::<T>::with_seed(lay.hashes, lay.buckets, lay.seed)).map_err(|p| panic_vio("with_seed", &p))?;
        let n = lay.hashes as usize * lay.buckets as usize;
        Ok(Pair { s, m: Model { table: vec![0; n], total: 0, truth: vec![0; lay.active] }, key: vec![], hist: 0 })
    }

    /// Applies one op to the real sketch and to the model, then evaluates the oracle.
    /// `bounds_n`: lower_bound/upper_bound are queried for the first `bounds_n` domain items
    /// (estimate is always queried for the whole domain).
    pub fn apply(&mut self, lay: &Layout, pool: &[Pair<T>], op: &Op, edges: &Edges, bounds_n: usize, first_visit: &dyn Fn(&[u8]) -> bool) -> Applied {
        self.hist = (self.hist ^ (format!("{op:?}").bytes().fold(0xcbf29ce484222325u64, |h, b| (h ^ b as u64).wrapping_mul(0x100000001b3)))).wrapping_mul(0x9E3779B97F4A7C15).wrapping_add(1);
        let w = lay.buckets as usize;
        let d = lay.hashes as usize;
        match op {
            Op::Update(i, wt) => {
                let i = *i as usize;
                if self.m.total.checked_add(*wt).map(|t| t > T::MAXU).unwrap_or(true) {
                    edges.hit("op refused");
                    return Applied::Refused;
                }
                edges.hit(match *wt {
                    1 => "update with weight 1",
                    2 => "update with weight 2",
                    _ => "update with weight T::MAX/4",
                });
                if self.m.total == 0 {
                    edges.hit("update into an empty sketch");
                } else {
                    let mut all = false;
                    let mut some = false;
                    for j in 0..lay.active {
                        if j != i && self.m.truth[j] > 0 {
                            let c = lay.rows_colliding(i, j);
                            all |= c == d;
                            some |= c > 0 && c < d;
                        }
                    }
                    if all {
                        edges.hit("update of an item that collides in ALL rows");
                    }
                    if some {
                        edges.hit("update of an item that collides in SOME rows");
                    }
                    if !all && !some && self.m.truth[i] == 0 {
                        edges.hit("update of an item sharing no bucket");
                    }
                }
                match &lay.items[i] {
                    Item::S(_) => edges.hit("update of a &str item"),
                    Item::B(_) => edges.hit("update of a byte-slice item"),
                    _ => {}
                }
                let wv = T::from_u64(*wt);
                let item = &lay.items[i];
                if let Err(p) = catch(|| sk_update(&mut self.s, item, wv)) {
                    return Applied::Done(vec![panic_vio("update_with_weight", &p)], vec![]);
                }
                for r in 0..d {
                    self.m.table[r * w + lay.bucket[i][r] as usize] += *wt;
                }
                self.m.total += *wt;
                self.m.truth[i] += *wt;
            }
            Op::Merge(j) => {
                let o = &pool[*j as usize];
                if self.m.total.checked_add(o.m.total).map(|t| t > T::MAXU).unwrap_or(true) {
                    edges.hit("op refused");
                    return Applied::Refused;
                }
                edges.hit(if o.m.total == 0 {
                    "merge(empty operand)"
                } else if self.m.total == 0 {
                    "merge into an empty sketch"
                } else {
                    "merge(non-empty into non-empty)"
                });
                if let Err(p) = catch(|| self.s.merge(&o.s)) {
                    return Applied::Done(vec![panic_vio("merge", &p)], vec![]);
                }
                // element-wise sum of the two operands' tables (each was shown equal to its
                // decoded real table when that state was created)
                for (a, b) in self.m.table.iter_mut().zip(&o.m.table) {
                    *a += *b;
                }
                self.m.total += o.m.total;
                for (a, b) in self.m.truth.iter_mut().zip(&o.m.truth) {
                    *a += *b;
                }
            }
            Op::Halve => {
                assert!(T::UNSIGNED);
                edges.hit(if self.m.total == 0 { "halve of an empty sketch" } else { "halve" });
                if self.m.table.iter().any(|c| c & 1 == 1) {
                    edges.hit("halve truncates an odd counter");
                }
                if let Err(p) = catch(|| T::halve_sk(&mut self.s)) {
                    return Applied::Done(vec![panic_vio("halve", &p)], vec![]);
                }
                for c in self.m.table.iter_mut() {
                    *c >>= 1;
                }
                self.m.total >>= 1;
                for t in self.m.truth.iter_mut() {
                    *t >>= 1;
                }
            }
            Op::Decay(f) => {
                assert!(T::UNSIGNED);
                edges.hit(if *f == 0.5 {
                    "decay(0.5)"
                } else if *f == 1.0 {
                    "decay(1.0)"
                } else {
                    "decay(0.999)"
                });
                if self.m.table.iter().any(|&c| c > 0 && decay_u(c, *f, T::MAXU) == 0) {
                    edges.hit("decay truncates a counter to 0");
                }
                let f = *f;
                if let Err(p) = catch(|| T::decay_sk(&mut self.s, f)) {
                    return Applied::Done(vec![panic_vio("decay", &p)], vec![]);
                }
                for c in self.m.table.iter_mut() {
                    *c = decay_u(*c, f, T::MAXU);
                }
                self.m.total = decay_u(self.m.total, f, T::MAXU);
                for t in self.m.truth.iter_mut() {
                    *t = decay_u(*t, f, T::MAXU);
                }
            }
        }
        let (vs, img) = self.check_state(lay, edges, bounds_n, first_visit);
        Applied::Done(vs, img)
    }

    /// The oracle of C08, evaluated on the current state. Also refreshes `self.key`.
    /// `first_visit(key)`: the domain queries (pure functions of the table, the total and the
    /// configuration, all of which are in the key) are evaluated only when it returns true,
    /// i.e. once per distinct state; table/total/accessor clauses are evaluated on every arrival.
    pub fn check_state(&mut self, lay: &Layout, edges: &Edges, bounds_n: usize, first_visit: &dyn Fn(&[u8]) -> bool) -> (Vec<(String, String)>, Vec<u8>) {
        let mut out: Vec<(String, String)> = vec![];
        let w = lay.buckets as usize;
        let d = lay.hashes as usize;
        let n = w * d;
        let img = match catch(|| self.s.serialize()) {
            Ok(i) => i,
            Err(p) => return (vec![panic_vio("serialize", &p)], vec![]),
        };
        let header_ok = img.len() >= 16
            && img[0] == 2
            && img[1] == 1
            && img[2] == 18
            && u32::from_le_bytes([img[8], img[9], img[10], img[11]]) == lay.buckets
            && img[12] == lay.hashes
            && ((img[3] & 1 == 1) == (img.len() == 16))
            && (img.len() == 16 || img.len() == 24 + 8 * n);
        if !header_ok {
            out.push(("cm.image".into(), format!("serialize() produced {} bytes with preamble {:02x?}; expected 16 (empty) or {} bytes, preLongs 2, serVer 1, family 18, buckets {}, hashes {}", img.len(), &img[..img.len().min(16)], 24 + 8 * n, lay.buckets, lay.hashes)));
            return (out, img);
        }
        let empty_img = img.len() == 16;
        let real_at = |i: usize| -> u64 {
            if empty_img {
                0
            } else {
                u64::from_le_bytes(img[24 + 8 * i..32 + 8 * i].try_into().unwrap())
            }
        };
        let real_total = if empty_img { 0 } else { u64::from_le_bytes(img[16..24].try_into().unwrap()) };
        // table == model table
        let mut mism = 0usize;
        let mut first = None;
        let mut key: Vec<u8> = Vec::with_capacity(96);
        for i in 0..n {
            let r = real_at(i);
            if r != self.m.table[i] {
                mism += 1;
                if first.is_none() {
                    first = Some(i);
                }
            }
            if r != 0 {
                key.extend_from_slice(&(i as u32).to_le_bytes());
                key.extend_from_slice(&r.to_le_bytes());
            }
        }
        key.extend_from_slice(&real_total.to_le_bytes());
        for t in &self.m.truth {
            key.extend_from_slice(&t.to_le_bytes());
        }
        if empty_img && self.hist != 0 {
            key.extend_from_slice(&self.hist.to_le_bytes());
        }
        self.key = key;
        if let Some(i) = first {
            out.push((
                "cm.table".into(),
                format!(
                    "{mism} of {n} counters differ from the model table; first: counter[row {}, bucket {}] = {} (as i64 {}), model {}",
                    i / w,
                    i % w,
                    real_at(i),
                    real_at(i) as i64,
                    self.m.table[i]
                ),
            ));
        }
        if real_total != self.m.total {
            out.push(("cm.total_weight".into(), format!("serialized total_weight {} (as i64 {}), exact sum of weights {}", real_total, real_total as i64, self.m.total)));
        }
        let acc = catch(|| (self.s.total_weight().to_i128(), self.s.is_empty(), self.s.relative_error(), self.s.num_hashes(), self.s.num_buckets(), self.s.seed()));
        match acc {
            Err(p) => out.push(panic_vio("accessors", &p)),
            Ok((tw, emp, re, nh, nb, sd)) => {
                if tw != self.m.total as i128 {
                    out.push(("cm.total_weight".into(), format!("total_weight() = {tw}, exact sum of weights {}", self.m.total)));
                }
                if emp != (self.m.total == 0) {
                    out.push(("cm.is_empty".into(), format!("is_empty() = {emp} with exact total weight {}", self.m.total)));
                }
                if re.to_bits() != (std::f64::consts::E / lay.buckets as f64).to_bits() || nh != lay.hashes || nb != lay.buckets || sd != lay.seed {
                    out.push(("cm.config".into(), format!("relative_error {re} / num_hashes {nh} / num_buckets {nb} / seed {sd} differ from the configuration")));
                }
            }
        }
        if self.m.total > T::MAXU / 2 {
            edges.hit("state where total_weight reached");
        }
        // The key is built from the IMAGE; an empty-form image carries no table, so it says
        // nothing about the in-memory counters: always query the live object there.
        let seen_before = !first_visit(&self.key);
        if !out.is_empty() || (seen_before && !empty_img) {
            dedup_keys(&mut out);
            return (out, img);
        }
        // every item of the query domain
        let items = &lay.items;
        let s = &self.s;
        let q = catch(|| {
            items
                .iter()
                .enumerate()
                .map(|(i, it)| {
                    let (e, b) = sk_query(s, it, i < bounds_n);
                    (e.to_i128(), b.map(|(l, u)| (l.to_i128(), u.to_i128())))
                })
                .collect::<Vec<_>>()
        });
        let q = match q {
            Ok(q) => q,
            Err(p) => {
                out.push(panic_vio("estimate/lower_bound/upper_bound", &p));
                return (out, img);
            }
        };
        let err_term = ((std::f64::consts::E / lay.buckets as f64) * (self.m.total as f64)).trunc() as u64;
        let mut over_counted = false;
        let mut ghost = false;
        for (i, (est, bounds)) in q.iter().enumerate() {
            let truth = if i < self.m.truth.len() { self.m.truth[i] } else { 0 };
            let want = (0..d).map(|r| self.m.table[r * w + lay.bucket[i][r] as usize]).min().unwrap();
            let est = *est;
            if est < truth as i128 {
                out.push(("cm.underestimate".into(), format!("estimate({:?}) = {est} is below the true weight {truth}", items[i])));
            }
            if est > self.m.total as i128 {
                out.push(("cm.estimate_above_total".into(), format!("estimate({:?}) = {est} exceeds total_weight {}", items[i], self.m.total)));
            }
            if est != want as i128 {
                out.push(("cm.estimate".into(), format!("estimate({:?}) = {est}, but the minimum of the item's model counters over the {d} rows is {want}", items[i])));
            }
            if est > truth as i128 {
                if truth > 0 {
                    over_counted = true;
                } else {
                    ghost = true;
                }
            }
            if let Some((lb, ub)) = bounds {
                if *lb != est {
                    out.push(("cm.lower_bound".into(), format!("lower_bound({:?}) = {lb} != estimate {est}", items[i])));
                }
                let want_ub = est + err_term as i128;
                if want_ub > T::MAXU as i128 {
                    edges.hit("upper_bound evaluated where");
                    if *ub < est {
                        out.push((
                            "cm.upper_bound.overflow".into(),
                            format!(
                                "upper_bound({:?}) = {ub} is BELOW estimate {est}: estimate + floor((e/{})*{}) = {want_ub} exceeds {}::MAX = {} and the addition wraps (panics with overflow checks on) although total_weight fits the type",
                                items[i],
                                lay.buckets,
                                self.m.total,
                                T::NAME,
                                T::MAXU
                            ),
                        ));
                    }
                } else if *ub != want_ub {
                    out.push(("cm.upper_bound".into(), format!("upper_bound({:?}) = {ub}, expected estimate {est} + floor((e/{})*{}) = {want_ub}", items[i], lay.buckets, self.m.total)));
                }
            }
            if out.len() > 8 {
                break;
            }
        }
        if over_counted {
            edges.hit("state with estimate(x) > truth(x)");
        }
        if ghost {
            edges.hit("state with estimate(x) > 0 for a never-updated");
        }
        dedup_keys(&mut out);
        (out, img)
    }
}

/// Violations that do not invalidate the state (pure query results): exploration continues.
pub fn is_query_only(key: &str) -> bool {
    key == "cm.upper_bound.overflow"
}

// ---------------------------------------------------------------------------------------
// Pool, replay JSON, replay
// ---------------------------------------------------------------------------------------

/// Builds one pool member by real updates, checking the oracle after every update.
pub fn build_member<T: Cv>(lay: &Layout, recipe: &[(u8, u64)], edges: &Edges) -> Result<Pair<T>, Vec<(String, String)>> {
    let mut p = Pair::<T>::new(lay).map_err(|v| vec![v])?;
    let (vs, _) = p.check_state(lay, edges, lay.items.len(), &|_| true);
    if !vs.is_empty() {
        return Err(vs);
    }
    for (i, w) in recipe {
        match p.apply(lay, &[], &Op::Update(*i, *w), edges, lay.items.len(), &|_| true) {
            Applied::Refused => panic!("pool recipe overflows the counter type"),
            Applied::Done(vs, _) => {
                if vs.iter().any(|(k, _)| !is_query_only(k)) {
                    return Err(vs);
                }
            }
        }
    }
    Ok(p)
}

pub fn op_json(lay: &Layout, recipes: &[Vec<(u8, u64)>], op: &Op) -> Value {
    match op {
        Op::Update(i, w) => json!({"update": {"item": lay.items[*i as usize].json(), "weight": w}}),
        Op::Merge(j) => json!({"merge": recipes[*j as usize].iter().map(|(i, w)| json!({"item": lay.items[*i as usize].json(), "weight": w})).collect::<Vec<_>>()}),
        Op::Halve => json!("halve"),
        Op::Decay(f) => json!({"decay": f}),
    }
}

pub fn replay_json(ty: &str, lay: &Layout, recipes: &[Vec<(u8, u64)>], ops: &[Op]) -> Value {
    json!({
        "kind": "cm_ops",
        "cfg": lay.cfg_json(ty),
        "ops": ops.iter().map(|o| op_json(lay, recipes, o)).collect::<Vec<_>>(),
        "note": "update = update_with_weight(item, weight) on a fresh CountMinSketch::<type>::with_seed(hashes, buckets, seed); merge = merge(&other) where other is a fresh sketch of the same configuration that received the listed updates",
    })
}

fn replay_t<T: Cv>(case: &Value) -> String {
    let cfg = &case["cfg"];
    let hashes = cfg["hashes"].as_u64().unwrap() as u8;
    let buckets = cfg["buckets"].as_u64().unwrap() as u32;
    let seed = cfg["seed"].as_u64().unwrap();
    // active items in order of first appearance
    let mut active: Vec<Item> = vec![];
    let mut note = |v: &Value| {
        let it = Item::from_json(&v["item"]);
        if !active.contains(&it) {
            active.push(it);
        }
    };
    let ops_j = case["ops"].as_array().cloned().unwrap_or_default();
    for o in &ops_j {
        if let Some(u) = o.get("update") {
            note(u);
        } else if let Some(m) = o.get("merge") {
            for u in m.as_array().unwrap() {
                note(u);
            }
        }
    }
    let lay = Layout::build(hashes, buckets, seed, active);
    let idx = |v: &Value| -> (u8, u64) {
        let it = Item::from_json(&v["item"]);
        (lay.items.iter().position(|x| *x == it).unwrap() as u8, v["weight"].as_u64().unwrap())
    };
    let edges = Edges::default();
    let mut log = String::new();
    let mut pool: Vec<Pair<T>> = vec![];
    let mut ops: Vec<Op> = vec![];
    for o in &ops_j {
        if let Some(u) = o.get("update") {
            let (i, w) = idx(u);
            ops.push(Op::Update(i, w));
        } else if let Some(m) = o.get("merge") {
            let recipe: Vec<(u8, u64)> = m.as_array().unwrap().iter().map(idx).collect();
            match build_member::<T>(&lay, &recipe, &edges) {
                Ok(p) => pool.push(p),
                Err(vs) => {
                    for (k, w) in vs {
                        log.push_str(&format!("building merge operand {:?}: VIOLATES {k}: {w}\n", recipe));
                    }
                    return log;
                }
            }
            ops.push(Op::Merge((pool.len() - 1) as u8));
        } else if o == "halve" {
            ops.push(Op::Halve);
        } else if let Some(f) = o.get("decay") {
            ops.push(Op::Decay(f.as_f64().unwrap()));
        }
    }
    let mut p = match Pair::<T>::new(&lay) {
        Ok(p) => p,
        Err((k, w)) => return format!("constructor: VIOLATES {k}: {w}\n"),
    };
    for (i, op) in ops.iter().enumerate() {
        if (matches!(op, Op::Halve | Op::Decay(_))) && !T::UNSIGNED {
            log.push_str(&format!("step {i}: {:?} is not available for {}\n", op, T::NAME));
            continue;
        }
        match p.apply(&lay, &pool, op, &edges, lay.items.len(), &|_| true) {
            Applied::Refused => log.push_str(&format!("step {i} {:?}: refused by the model (total would exceed {}::MAX)\n", op, T::NAME)),
            Applied::Done(vs, _) => {
                for (k, w) in &vs {
                    log.push_str(&format!("step {i} {:?}: VIOLATES {k}: {w}\n", op));
                }
                if vs.iter().any(|(k, _)| k.starts_with("panic|")) {
                    break;
                }
            }
        }
    }
    let ests: Vec<i128> = (0..lay.active).map(|i| catch(|| sk_query(&p.s, &lay.items[i], false).0.to_i128()).unwrap_or(-1)).collect();
    log.push_str(&format!("final: total_weight model={} truths={:?} estimates={:?}\n", p.m.total, p.m.truth, ests));
    log
}

pub fn replay(case: &Value) -> String {
    let ty = case["cfg"]["type"].as_str().unwrap_or("u64").to_string();
    cm_dispatch!(ty.as_str(), replay_t(case))
}

/// Executes an op list and describes every step (used for the evidence samples).
pub fn describe<T: Cv>(lay: &Layout, recipes: &[Vec<(u8, u64)>], ops: &[Op]) -> Value {
    let edges = Edges::default();
    let pool: Vec<Pair<T>> = recipes.iter().map(|r| build_member::<T>(lay, r, &edges).ok().unwrap()).collect();
    let mut p = Pair::<T>::new(lay).ok().unwrap();
    let mut steps = vec![];
    for op in ops {
        let r = p.apply(lay, &pool, op, &edges, lay.items.len(), &|_| true);
        let vio: Vec<String> = match r {
            Applied::Refused => vec!["refused".into()],
            Applied::Done(vs, _) => vs.into_iter().map(|(k, _)| k).collect(),
        };
        let est: Vec<String> = (0..lay.active).map(|i| sk_query(&p.s, &lay.items[i], false).0.to_i128().to_string()).collect();
        steps.push(json!({
            "op": op_json(lay, recipes, op),
            "model_total": p.m.total,
            "truth_of_alphabet_items": p.m.truth,
            "estimate_of_alphabet_items": est,
            "nonzero_counters": p.m.table.iter().filter(|c| **c > 0).count(),
            "violations": vio,
        }));
    }
    json!({"cfg": lay.cfg_json(T::NAME), "alphabet_items": lay.items[..lay.active].iter().map(|i| i.json()).collect::<Vec<_>>(), "steps": steps})
}
