//! Extra C14 seeds (t-digest float / reference encodings) attached with the t-digest codec.
use crate::c14::Seed;
pub fn extra_seeds() -> Vec<Seed> {
    vec![]
}
