//! C07 — Frequent-items bounds always bracket the true count, across updates and merges.
//!
//! Four explorers, all on the real `FrequentItemsSketch`, nothing sampled:
//!  A. stateless DFS of ALL op sequences on an 8-slot map (no state merging: purge samples in
//!     table order, so equal content does not mean equal future);
//!  B. the same from non-initial start states over a mixed alphabet with merge/reset/serde;
//!  C. deviation-bounded default runs (E2) for map sizes 8..2048;
//!  D. merge trees over a pool of sketches of sizes 8, 16 (and one 32).
//!
//! `ctx.reduced` (observer runs of C11/C12/C17/C18): same explorers at smaller bounds —
//! DFS depth 6 (thorough 7) over 8 items, 13-op depth 4 (5), start-state DFS depth 3 (4),
//! E2 sizes 8, 16 (every position, 1 deviation), 64 (8-point grid), thorough + 1024 (4-point
//! grid), merge trees with 2 and 3 leaves + chains, no String exploration.

use crate::common::{Ctx, Tier};
use crate::engine::{self, Step};
use crate::fim::{self, Alphabet, E, Edges, FiItem, Mode, Op, Pair, Src};
use rayon::prelude::*;
use serde_json::{Value, json};
use std::sync::Arc;

pub type State = Pair<i64>;
pub type Observer = dyn Fn(&Ctx, &State, &dyn Fn() -> Value) + Sync;
pub fn no_observer(_: &Ctx, _: &State, _: &dyn Fn() -> Value) {}

fn dbg() -> bool {
    std::env::var("VERIF_DEBUG").is_ok()
}

/// Items outside the adversarial alphabet (plain integers; MurmurHash spreads them).
fn filler<T: FiItem>(k: u64) -> T {
    T::candidate(1_000_000 + k)
}

fn focus_of<T: FiItem>(alpha: &Alphabet<T>, n_items: usize) -> Vec<T> {
    let mut f: Vec<T> = alpha.items[..n_items].to_vec();
    f.extend(alpha.never.iter().cloned());
    f
}

fn up<T: FiItem>(t: &T, w: u64) -> Op<T> {
    Op::Up(t.clone(), w)
}

// ---------------------------------------------------------------------------------------
// pool of source sketches

fn pool_recipes<T: FiItem>(alpha: &Alphabet<T>) -> Vec<(String, usize, Vec<Op<T>>)> {
    let a = &alpha.items;
    let mut v: Vec<(String, usize, Vec<Op<T>>)> = vec![];
    for size in [8usize, 16] {
        let cap = size * 3 / 4;
        let item = |i: usize| -> T { if i < a.len() { a[i].clone() } else { filler::<T>(i as u64) } };
        v.push((format!("{size}:fresh"), size, vec![]));
        v.push((format!("{size}:3 items"), size, vec![up(&a[0], 1), up(&a[1], 2), up(&a[7], 1)]));
        v.push((format!("{size}:full"), size, (0..cap).map(|i| Op::Up(item(i), (i as u64 % 3) + 1)).collect()));
        v.push((format!("{size}:purged to empty"), size, (0..=cap).map(|i| Op::Up(item(i), 1)).collect()));
        {
            // two purges with survivors: a0 (5) and a1 (3) outlive two rounds of unit-weight noise
            let mut ops = vec![up(&a[0], 5), up(&a[1], 3)];
            for k in 0..(2 * (cap - 1)) {
                ops.push(Op::Up(filler::<T>(100 + k as u64), 1));
            }
            v.push((format!("{size}:purged twice"), size, ops));
        }
        {
            let mut ops = vec![up(&a[0], 10)];
            for k in 0..(cap + 2) {
                ops.push(Op::Up(if k % 2 == 0 { item(k + 1) } else { filler::<T>(200 + k as u64) }, 1));
            }
            ops.push(up(&a[0], 1));
            v.push((format!("{size}:heavy hitter"), size, ops));
        }
    }
    {
        let mut ops: Vec<Op<T>> = (0..7).map(|i| up(&a[i], 1)).collect();
        ops.push(up(&a[0], 1));
        ops.push(up(&a[5], 1));
        v.push(("8:purged to empty, then 2 items".into(), 8, ops));
    }
    {
        let mut ops = vec![up(&a[0], 20)];
        for k in 0..30u64 {
            ops.push(Op::Up(filler::<T>(300 + k), 1));
        }
        v.push(("32:heavy hitter, one purge".into(), 32, ops));
    }
    v
}

struct Pool<T: FiItem> {
    all: Vec<Arc<Src<T>>>,
}

impl<T: FiItem> Pool<T> {
    fn by_name(&self, n: &str) -> Arc<Src<T>> {
        self.all.iter().find(|s| s.name == n).unwrap_or_else(|| panic!("pool entry {n}")).clone()
    }
}

fn build_pool<T: FiItem>(ctx: &Ctx, alpha: &Alphabet<T>, ed: &Edges, extra: Vec<(String, usize, Vec<Op<T>>)>) -> Pool<T> {
    let focus = focus_of(alpha, alpha.items.len());
    let mut all = vec![];
    let mut recipes = pool_recipes(alpha);
    recipes.extend(extra);
    for (name, size, ops) in recipes {
        let n = ops.len() as u64;
        let orig = ops.clone();
        let (src, vs) = fim::build(&name, size, ops, ed, &focus);
        ctx.add_states(n);
        ctx.add_transitions(n);
        for (i, v) in vs {
            let ops = || orig[..=i].to_vec();
            fim::report(ctx, vec![v], size, &ops);
        }
        all.push(src);
    }
    Pool { all }
}

// ---------------------------------------------------------------------------------------
// A/B: stateless DFS

fn dfs<T: FiItem>(
    ctx: &Ctx,
    what: &str,
    size: usize,
    prefix: &[Op<T>],
    init: &Pair<T>,
    ops: &[Op<T>],
    depth: usize,
    focus: &[T],
    ed: &Edges,
    obs: &(dyn Fn(&Ctx, &Pair<T>, &dyn Fn() -> Value) + Sync),
) {
    let t0 = std::time::Instant::now();
    // 'static copies for the hang watchdog's case description (a few KB per call, never freed)
    let prefix_s: &'static [Op<T>] = Box::leak(prefix.to_vec().into_boxed_slice());
    let ops_s: &'static [Op<T>] = Box::leak(ops.to_vec().into_boxed_slice());
    let step = |p: &Pair<T>, op: &Op<T>, path: &[u16]| -> Step<Pair<T>> {
        let mut n = p.clone();
        let (pv, ov) = (path.to_vec(), op.clone());
        let _g = ed.watch.enter(Box::new(move || {
            let h: Vec<Op<T>> = prefix_s.iter().cloned().chain(pv.iter().map(|&i| ops_s[i as usize].clone())).chain([ov.clone()]).collect();
            ("fi.dfs_step".to_string(), fim::recipe_json(size, &h))
        }));
        let vs = n.apply(op, ed, focus, Mode::Full);
        let hist = || -> Vec<Op<T>> { prefix.iter().cloned().chain(path.iter().map(|&i| ops[i as usize].clone())).chain([op.clone()]).collect() };
        if !vs.is_empty() && fim::report(ctx, vs, size, &hist) {
            return Step::Stop;
        }
        obs(ctx, &n, &|| fim::recipe_json(size, &hist()));
        Step::Next(n)
    };
    let (nodes, leaves) = engine::dfs_all(init, ops, depth, &step);
    ctx.add_states(nodes);
    ctx.add_transitions(nodes);
    ctx.count(&format!("DFS [{what}] sequences of length {depth} (leaves)"), leaves);
    ctx.count(&format!("DFS [{what}] nodes (= sequences of length 1..={depth})"), nodes);
    if dbg() {
        eprintln!("  dfs [{what}] depth {depth} over {} ops: {nodes} nodes, {leaves} leaves, {:.1}s", ops.len(), t0.elapsed().as_secs_f64());
    }
}

/// Runs `ops` on a fresh sketch (reporting violations) and returns the state.
fn run_prefix<T: FiItem>(ctx: &Ctx, size: usize, ops: &[Op<T>], focus: &[T], ed: &Edges) -> Pair<T> {
    let mut p = Pair::<T>::new(size);
    for (i, op) in ops.iter().enumerate() {
        let h: Vec<Op<T>> = ops[..=i].to_vec();
        let _g = ed.watch.enter(Box::new(move || ("fi.prefix_step".to_string(), fim::recipe_json(size, &h))));
        let vs = p.apply(op, ed, focus, Mode::Full);
        let hist = || ops[..=i].to_vec();
        if fim::report(ctx, vs, size, &hist) {
            break;
        }
    }
    ctx.add_states(ops.len() as u64);
    ctx.add_transitions(ops.len() as u64);
    p
}

fn start_states(alpha: &Alphabet<i64>) -> Vec<(&'static str, usize, Vec<Op<i64>>)> {
    let a = &alpha.items;
    let u = |i: usize| up(&a[i], 1);
    let mut v = vec![];
    v.push(("8: six unit counters, next new item purges everything", 8, (0..6).map(u).collect::<Vec<_>>()));
    v.push(("8: six counters with weights 3,2,1,1,1,1", 8, vec![up(&a[0], 3), up(&a[4], 2), u(1), u(5), u(2), u(7)]));
    // two heavy counters and four light ones: the place where maximum_error/total_weight is
    // largest on the 8-table (a median taken one rank too high breaks epsilon here)
    v.push(("8: counters 20,20,1,1,1,1, next new item purges", 8, vec![up(&a[0], 20), up(&a[5], 20), u(1), u(4), u(2), u(7)]));
    v.push(("8: after a purge with survivors", 8, vec![up(&a[1], 3), up(&a[3], 2), up(&a[5], 2), u(0), u(2), u(4), u(6)]));
    v.push(("8: after a purge that removed every counter", 8, (0..7).map(u).collect()));
    {
        let mut ops = vec![up(&a[2], 4), up(&a[4], 3), up(&a[5], 2)];
        for k in [0usize, 1, 3, 6, 7, 8, 9, 0, 1] {
            ops.push(u(k));
        }
        v.push(("8: after two purges", 8, ops));
    }
    v.push(("16: six counters in the 8-slot table, next new item resizes", 16, (0..6).map(u).collect()));
    {
        let mut ops: Vec<Op<i64>> = (0..10).map(u).collect();
        ops.push(Op::Up(filler::<i64>(1), 2));
        ops.push(Op::Up(filler::<i64>(2), 2));
        v.push(("16: twelve counters, next new item purges", 16, ops));
    }
    {
        let mut ops: Vec<Op<i64>> = vec![up(&a[0], 3), up(&a[1], 2), up(&a[4], 2), up(&a[5], 2)];
        for k in 2..10 {
            if k != 4 && k != 5 {
                ops.push(u(k));
            }
        }
        for k in 1..=4 {
            ops.push(Op::Up(filler::<i64>(k), 1));
        }
        v.push(("16: after a purge with survivors", 16, ops));
    }
    v
}

// ---------------------------------------------------------------------------------------
// C: E2 default runs with bounded deviations

pub fn default_runs<T: FiItem>(size: usize, alpha: &Alphabet<T>) -> Vec<(&'static str, Vec<Op<T>>)> {
    let a = &alpha.items;
    let cap = size * 3 / 4;
    let len = 4 * cap + 6;
    let item = |i: usize| -> T { if i < a.len() { a[i].clone() } else { filler::<T>(i as u64) } };
    let distinct: Vec<Op<T>> = (0..len).map(|i| Op::Up(item(i), 1)).collect();
    let equal: Vec<Op<T>> = (0..len).map(|i| Op::Up(item(i / 2), 1)).collect();
    let zipf: Vec<Op<T>> = {
        let n = (4 * cap) as f64;
        (0..len)
            .map(|t| {
                let u = ((t + 1) as f64 * 0.618_033_988_749_894_9).fract();
                let k = (n.powf(u).floor() as usize).clamp(1, 4 * cap) - 1;
                Op::Up(item(k), 1 + (t % 7 == 3) as u64)
            })
            .collect()
    };
    let heavy: Vec<Op<T>> = (0..len).map(|t| if t % 3 == 0 { up(&a[0], 1) } else { Op::Up(item(10 + t), 1) }).collect();
    let tail = (cap / 2).max(4);
    let heavy_last: Vec<Op<T>> = (0..len).map(|t| if t + tail >= len { up(&a[0], 1) } else { Op::Up(item(10 + t), 1) }).collect();
    // per block of capacity+1 updates: two items of weight 20 (same two every block), the rest unit-weight noise
    let two_heavy: Vec<Op<T>> = (0..len)
        .map(|t| match t % (cap + 1) {
            0 => up(&a[0], 20),
            1 => up(&a[5], 20),
            _ => Op::Up(item(10 + t), 1),
        })
        .collect();
    vec![
        ("two items of weight 20 per block + unit noise (largest maximum_error/total_weight)", two_heavy),
        ("all distinct, weight 1 (every purge removes every counter)", distinct),
        ("all equal counts (each item twice in a row)", equal),
        ("zipf-like deterministic (log-uniform rank by golden-ratio sequence, every 7th weight 2)", zipf),
        ("one heavy hitter every 3rd update + distinct noise", heavy),
        ("distinct noise, heavy hitter arrives last", heavy_last),
    ]
}

fn executed<T: FiItem>(run: &[Op<T>], trace: &[(usize, Op<T>)], pos: usize, is_run_op: bool) -> Vec<Op<T>> {
    let mut ops = vec![];
    let mut ti = 0;
    for i in 0..=pos.min(run.len()) {
        while ti < trace.len() && trace[ti].0 == i {
            ops.push(trace[ti].1.clone());
            ti += 1;
        }
        if i < pos {
            ops.push(run[i].clone());
        }
    }
    if is_run_op {
        ops.push(run[pos].clone());
    }
    ops
}

/// On tables > 64 the all-items clauses run every FULL_EVERY-th step of a default run
/// (and at every purge/resize/merge/reset/serde, on every deviation, and at the end).
const FULL_EVERY: usize = 128;

const N_RUNS: usize = 6;

struct E2Plan {
    size: usize,
    bound: usize,
    /// number of evenly spaced positions for a first / second deviation (0 = every position)
    grid1: usize,
    grid2: usize,
    /// quick tier on the 1024 table: merge deviations from 8 instead of 17 sources, and extra
    /// deviation positions only around purges (not around the 7 resizes on the way up)
    lean: bool,
}

fn run_e2(ctx: &Ctx, plan: &E2Plan, run_index: usize, alpha: &Alphabet<i64>, pool: &Pool<i64>, ed: &Edges, obs: &Observer) {
    let size = plan.size;
    let t0 = std::time::Instant::now();
    let focus = focus_of(alpha, alpha.items.len());
    let a = &alpha.items;
    // deviation alphabet
    let mut dev: Vec<Op<i64>> = vec![];
    if size <= 16 {
        dev.extend(a.iter().map(|t| up(t, 1)));
        dev.extend([up(&a[0], 3), up(&a[1], 2), up(&a[2], 0)]);
    } else {
        dev.extend([up(&a[0], 1), up(&a[0], 3), up(&a[1], 2), up(&a[2], 0), up(&a[4], 1), up(&a[5], 1)]);
        dev.push(Op::Up(filler::<i64>(900_000), 1));
        dev.push(Op::Up(filler::<i64>(900_001), 1000));
        dev.push(Op::Up(filler::<i64>(12), 1)); // an early noise item, purged long ago or still tracked
    }
    for s in &pool.all {
        // pool of sizes 8/16/32 plus the sketches of this run's own size
        let own = s.name.starts_with(&format!("{size}:"));
        let mut base = s.size <= 32 && !s.name.contains(":e2 ");
        if plan.lean {
            base &= ["8:purged to empty", "8:purged twice", "16:heavy hitter", "16:full", "32:heavy hitter, one purge"].contains(&s.name.as_str());
        }
        if base || own {
            dev.push(Op::Merge(s.clone()));
        }
    }
    dev.push(Op::Reset);
    dev.push(Op::Serde);
    let mode = if size <= 64 { Mode::Full } else { Mode::Light };
    for (rname, run) in default_runs(size, alpha).into_iter().skip(run_index).take(1) {
        // dry run: positions of purges/resizes, to put deviations right before and after them
        let mut special = vec![false; run.len() + 1];
        {
            let mut p = State::new(size);
            let scratch = Edges::new();
            for (i, op) in run.iter().enumerate() {
                let (o, l) = (p.s.maximum_error(), p.s.lg_cur_map_size());
                let h: Vec<Op<i64>> = if i % 64 == 0 || size <= 64 { run[..=i].to_vec() } else { vec![] };
                let _g = ed.watch.enter(Box::new(move || ("fi.e2_default_run".to_string(), fim::recipe_json(size, &h))));
                let vs = p.apply(op, &scratch, &focus, Mode::Light);
                if fim::diverged(&vs) {
                    break;
                }
                if p.s.maximum_error() != o || (p.s.lg_cur_map_size() != l && !plan.lean) {
                    special[i] = true;
                    special[i + 1] = true;
                }
            }
        }
        let stride = |g: usize| if g == 0 { 1 } else { (run.len() / g).max(1) };
        let (s1, s2) = (stride(plan.grid1), stride(plan.grid2));
        let init = State::new(size);
        let run_ref = &run;
        let run_s: &'static [Op<i64>] = Box::leak(run.clone().into_boxed_slice());
        let stats = engine::deviations(
            &init,
            &run,
            plan.bound,
            &|_pos, _lvl, _p: &State| dev.clone(),
            &|pos, lvl| {
                let s = if lvl == 0 { s1 } else { s2 };
                pos % s == 0 || special[pos] || (lvl == 0 && pos == run_ref.len())
            },
            &|p: &mut State, op: &Op<i64>, trace: &[(usize, Op<i64>)], pos: usize| {
                let is_run_op = pos < run_ref.len() && std::ptr::eq(op, &run_ref[pos]);
                // big tables: full oracle on a grid, at structural steps, on deviations and at the end
                let m = if mode == Mode::Full || !is_run_op || pos % FULL_EVERY == 0 || pos + 1 == run_ref.len() { Mode::Full } else { Mode::Light };
                let tv = trace.to_vec();
                let _g = ed.watch.enter(Box::new(move || ("fi.e2_step".to_string(), fim::recipe_json(size, &executed(run_s, &tv, pos, is_run_op)))));
                let vs = p.apply(op, ed, &focus, m);
                let hist = || executed(run_ref, trace, pos, is_run_op);
                if !vs.is_empty() && fim::report(ctx, vs, size, &hist) {
                    return false;
                }
                obs(ctx, p, &|| fim::recipe_json(size, &hist()));
                true
            },
        );
        ctx.add_states(stats.steps);
        ctx.add_transitions(stats.steps);
        ctx.count(&format!("E2 size {size} bound {} executions", plan.bound), stats.executions);
        ctx.count(&format!("E2 size {size} steps"), stats.steps);
        if dbg() {
            eprintln!("  e2 size {size} b={} [{rname}] len={} execs={} steps={} t={:.1}s", plan.bound, run.len(), stats.executions, stats.steps, t0.elapsed().as_secs_f64());
        }
    }
}

/// Same-size sources for the E2 runs on larger tables (so that merged histories stay "one map size").
fn e2_pool_extras(alpha: &Alphabet<i64>, sizes: &[usize]) -> Vec<(String, usize, Vec<Op<i64>>)> {
    let a = &alpha.items;
    let mut v = vec![];
    for &size in sizes {
        if size <= 16 {
            continue;
        }
        let cap = size * 3 / 4;
        v.push((format!("{size}:e2 3 items"), size, vec![up(&a[0], 1), up(&a[1], 2), up(&a[7], 1)]));
        v.push((format!("{size}:e2 purged to empty"), size, (0..=cap as u64).map(|k| Op::Up(filler::<i64>(500_000 + k), 1)).collect()));
        {
            let mut ops = vec![up(&a[0], 50)];
            for k in 0..(cap as u64 + cap as u64 / 2) {
                ops.push(Op::Up(filler::<i64>(20 + k), 1 + (k % 3 == 0) as u64));
            }
            v.push((format!("{size}:e2 heavy hitter, purged"), size, ops));
        }
    }
    v
}

// ---------------------------------------------------------------------------------------
// D: merge trees

fn merge_node(ctx: &Ctx, left: &Arc<Src<i64>>, right: &Arc<Src<i64>>, ed: &Edges, focus: &[i64], obs: &Observer) -> Option<Arc<Src<i64>>> {
    let mut p = left.pair.clone();
    let op = Op::Merge(right.clone());
    let (l2, o2) = (left.clone(), op.clone());
    let _g = ed.watch.enter(Box::new(move || {
        let h: Vec<Op<i64>> = l2.ops.iter().cloned().chain([o2.clone()]).collect();
        ("fi.merge".to_string(), fim::recipe_json(l2.size, &h))
    }));
    let vs = p.apply(&op, ed, focus, Mode::Full);
    let hist = || -> Vec<Op<i64>> { left.ops.iter().cloned().chain([op.clone()]).collect() };
    if !vs.is_empty() && fim::report(ctx, vs, left.size, &hist) {
        return None;
    }
    obs(ctx, &p, &|| fim::recipe_json(left.size, &hist()));
    Some(Arc::new(Src { name: format!("({} + {})", left.name, right.name), size: left.size, ops: hist(), pair: p }))
}

fn run_trees(ctx: &Ctx, pool: &Pool<i64>, alpha: &Alphabet<i64>, ed: &Edges, obs: &Observer, pairs_only: bool) {
    let focus = focus_of(alpha, alpha.items.len());
    let base: Vec<Arc<Src<i64>>> = pool.all.iter().filter(|s| !s.name.contains(":e2 ")).cloned().collect();
    let n = base.len();
    if pairs_only {
        // all ordered trees with 2 leaves, sequentially, fresh sketches first
        for i in 0..n {
            for j in 0..n {
                merge_node(ctx, &base[i], &base[j], ed, &focus, obs);
            }
        }
        ctx.count("merge trees: ordered trees with 2 leaves", (n * n) as u64);
        ctx.add_states((n * n) as u64);
        ctx.add_transitions((n * n) as u64);
        return;
    }
    let merges = std::sync::atomic::AtomicU64::new(0);
    let cut = std::sync::atomic::AtomicU64::new(0);
    let m = |l: &Arc<Src<i64>>, r: &Arc<Src<i64>>| -> Option<Arc<Src<i64>>> {
        merges.fetch_add(1, std::sync::atomic::Ordering::Relaxed);
        let x = merge_node(ctx, l, r, ed, &focus, obs);
        if x.is_none() {
            cut.fetch_add(1, std::sync::atomic::Ordering::Relaxed);
        }
        x
    };
    // all ordered trees with 2 and 3 leaves (and 4 leaves in the thorough tier) over the full pool
    let four = ctx.tier == Tier::Thorough && !ctx.reduced;
    (0..n).into_par_iter().for_each(|i| {
        for j in 0..n {
            let ab = m(&base[i], &base[j]); // (a b)
            for k in 0..n {
                // ((a b) c)
                let abc = ab.as_ref().and_then(|ab| m(ab, &base[k]));
                // (a (b c))
                let bc = m(&base[j], &base[k]);
                let a_bc = bc.as_ref().and_then(|bc| m(&base[i], bc));
                if four {
                    for l in 0..n {
                        // the five shapes with 4 leaves
                        if let Some(abc) = &abc {
                            m(abc, &base[l]); // (((a b) c) d)
                        }
                        if let Some(a_bc) = &a_bc {
                            m(a_bc, &base[l]); // ((a (b c)) d)
                        }
                        let cd = m(&base[k], &base[l]);
                        if let (Some(ab), Some(cd)) = (&ab, &cd) {
                            m(ab, cd); // ((a b) (c d))
                        }
                        if let Some(bc) = &bc {
                            if let Some(bc_d) = m(bc, &base[l]) {
                                m(&base[i], &bc_d); // (a ((b c) d))
                            }
                        }
                        if let Some(cd) = &cd {
                            if let Some(b_cd) = m(&base[j], cd) {
                                m(&base[i], &b_cd); // (a (b (c d)))
                            }
                        }
                    }
                }
            }
        }
    });
    ctx.count("merge trees: ordered trees with 3 leaves (both shapes)", (2 * n * n * n) as u64);
    if four {
        ctx.count("merge trees: ordered trees with 4 leaves (all five shapes)", (5 * n * n * n * n) as u64);
    }
    // left-deep chains of 4 and 5 over a reduced pool
    let reduced_names: &[&str] = match ctx.tier {
        Tier::Quick => &["8:purged to empty", "8:purged twice", "16:heavy hitter", "8:full", "16:3 items"],
        Tier::Thorough => &["8:purged to empty", "8:purged twice", "16:heavy hitter", "8:full", "16:3 items", "16:purged to empty", "8:purged to empty, then 2 items"],
    };
    let red: Vec<Arc<Src<i64>>> = reduced_names.iter().map(|n| pool.by_name(n)).collect();
    let r = red.len();
    let chains = std::sync::atomic::AtomicU64::new(0);
    (0..r * r).into_par_iter().for_each(|ij| {
        let (i, j) = (ij / r, ij % r);
        let Some(ab) = m(&red[i], &red[j]) else { return };
        for k in 0..r {
            let Some(abc) = m(&ab, &red[k]) else { continue };
            for l in 0..r {
                chains.fetch_add(1, std::sync::atomic::Ordering::Relaxed);
                let Some(abcd) = m(&abc, &red[l]) else { continue };
                for q in 0..r {
                    chains.fetch_add(1, std::sync::atomic::Ordering::Relaxed);
                    m(&abcd, &red[q]);
                }
            }
        }
    });
    let merges = merges.into_inner();
    ctx.count("merge trees: left-deep chains of 4 and 5 sketches (reduced pool)", chains.into_inner());
    ctx.count("merge trees: merges executed and checked", merges);
    ctx.count("merge trees: trees cut at a reported violation", cut.into_inner());
    ctx.add_states(merges);
    ctx.add_transitions(merges);
}

// ---------------------------------------------------------------------------------------
// String items (smaller)

fn run_strings(ctx: &Ctx, ed: &Edges) {
    let alpha = fim::choose_alphabet::<String>();
    let pool = build_pool::<String>(ctx, &alpha, ed, vec![]);
    let nobs = |_: &Ctx, _: &Pair<String>, _: &dyn Fn() -> Value| {};
    let n = 8;
    let focus = focus_of(&alpha, n);
    let unit: Vec<Op<String>> = alpha.items[..n].iter().map(|t| up(t, 1)).collect();
    let depth = ctx.tier.pick(7, 8);
    dfs(ctx, "String items, size 8, unit updates", 8, &[], &Pair::<String>::new(8), &unit, depth, &focus, ed, &nobs);
    // from the full state: updates + weighted + merge + reset + serde
    let mut mixed = unit.clone();
    mixed.extend([up(&alpha.items[0], 3), up(&alpha.items[2], 0), Op::Reset, Op::Serde]);
    mixed.push(Op::Merge(pool.by_name("8:purged to empty")));
    mixed.push(Op::Merge(pool.by_name("16:heavy hitter")));
    for (name, size, pre) in [
        ("String: six unit counters", 8usize, (0..6).map(|i| up(&alpha.items[i], 1)).collect::<Vec<_>>()),
        ("String: after purge to empty", 8, (0..7).map(|i| up(&alpha.items[i], 1)).collect()),
        ("String: size 16, six counters", 16, (0..6).map(|i| up(&alpha.items[i], 1)).collect()),
    ] {
        let init = run_prefix(ctx, size, &pre, &focus, ed);
        dfs(ctx, name, size, &pre, &init, &mixed, ctx.tier.pick(4, 5), &focus, ed, &nobs);
    }
}

// ---------------------------------------------------------------------------------------

/// Start-up check of the machinery itself: the reference hash and probe order must describe
/// the real table (otherwise "colliding" items do not collide and edge names mean nothing).
fn selfcheck(ctx: &Ctx, alpha: &Alphabet<i64>) -> bool {
    let ed = Edges::new();
    let focus = focus_of(alpha, alpha.items.len());
    let mut ok = true;
    for size in [8usize, 16] {
        for rot in 0..6 {
            let mut p = State::new(size);
            let n = if size == 8 { 6 } else { 10 };
            for i in 0..n {
                let op = up(&alpha.items[(i + rot) % n], 1);
                let vs = p.apply(&op, &ed, &focus, Mode::Full);
                let _ = vs;
                // force a cross-check at every step through a serde op on a clone
                let mut q = p.clone();
                q.apply(&Op::Serde, &ed, &focus, Mode::Full);
            }
        }
    }
    let x = ed.total(E::LAYOUT_XCHECK);
    let bad = ed.total(E::LAYOUT_MISMATCH);
    if x == 0 || bad > 0 {
        ok = false;
    }
    ctx.count("selfcheck: layout model vs serialize() key order comparisons", x);
    ctx.count("selfcheck: disagreements", bad);
    ok
}

/// Weight lattice: at sizes 16, 32 and 64 every assignment of {light, heavy} weights to the
/// `capacity` distinct items that fill the map (all 2^12 at size 16; at most 4 / 3 heavy items at
/// 32 / 64), followed by the distinct item that forces the purge. This is the shape that decides
/// the epsilon clause: where the heavy counters sit in table order relative to the purge sample.
fn weight_lattice(ctx: &Ctx, ed: &Edges) {
    let jobs: Vec<(usize, usize)> = if ctx.reduced { vec![(16, 3)] } else { vec![(16, 12), (32, ctx.tier.pick(3, 4)), (64, ctx.tier.pick(2, 3))] };
    for (size, max_heavy) in jobs {
        let cap = size * 3 / 4;
        let items: Vec<i64> = (0..cap as i64).map(|i| 1000 + i * 7).collect();
        // subsets of heavy items with at most max_heavy members
        let mut subsets: Vec<Vec<usize>> = vec![vec![]];
        let mut frontier: Vec<Vec<usize>> = vec![vec![]];
        for _ in 0..max_heavy {
            let mut next = vec![];
            for sset in &frontier {
                let start = sset.last().map(|x| x + 1).unwrap_or(0);
                for i in start..cap {
                    let mut n = sset.clone();
                    n.push(i);
                    next.push(n);
                }
            }
            subsets.extend(next.iter().cloned());
            frontier = next;
        }
        let total = subsets.len() as u64;
        subsets.par_iter().for_each(|heavy| {
            for hw in [20u64, 1000] {
                let mut ops: Vec<Op<i64>> = items.iter().enumerate().map(|(i, &x)| Op::Up(x, if heavy.contains(&i) { hw } else { 1 })).collect();
                ops.push(Op::Up(999_999, 1)); // the distinct item that overflows the map: purge
                ops.push(Op::Up(items[0], 1));
                let mut p = Pair::<i64>::new(size);
                for (i, op) in ops.iter().enumerate() {
                    let vs = p.apply(op, ed, &[], Mode::Full);
                    let hist = || ops[..=i].to_vec();
                    if !vs.is_empty() && fim::report(ctx, vs, size, &hist) {
                        break;
                    }
                }
            }
        });
        ctx.add_states(total * 2 * (cap as u64 + 2));
        ctx.add_transitions(total * 2 * (cap as u64 + 2));
        ctx.count(&format!("weight lattice size {size}: heavy-item subsets (<= {max_heavy} of {cap}) x heavy weight {{20,1000}}"), total * 2);
    }
}

pub fn explore(ctx: &Ctx, obs: &Observer) {
    let ed = Edges::new();
    let done = std::sync::atomic::AtomicBool::new(false);
    std::thread::scope(|ts| {
        ts.spawn(|| fim::watchdog(ctx, &ed, &done));
        explore_inner(ctx, obs, &ed);
        weight_lattice(ctx, &ed);
        done.store(true, std::sync::atomic::Ordering::Relaxed);
    });
}

fn explore_inner(ctx: &Ctx, obs: &Observer, ed: &Edges) {
    let alpha = fim::choose_alphabet::<i64>();
    let homes = |m: u64| -> Vec<u64> { alpha.items.iter().chain(alpha.never.iter()).map(|t| t.ref_hash() & m).collect() };
    ctx.note(format!(
        "i64 alphabet {:?} never-offered {:?}; home slots in the 8-table {:?}, in the 16-table {:?} (last two = never-offered)",
        alpha.items,
        alpha.never,
        homes(7),
        homes(15)
    ));
    if !selfcheck(ctx, &alpha) {
        ctx.count("selfcheck failed", 1);
        eprintln!("machinery error: the reference hash / layout model does not describe the real table");
    }
    let alpha2 = fim::choose_alphabet2::<i64>();
    ctx.note(format!(
        "second i64 alphabet (one long wrapping cluster: every item has home slot 3 of 8 / 11 of 16) {:?} never-offered {:?}",
        alpha2.items, alpha2.never
    ));
    let only = std::env::var("VERIF_ONLY").ok();
    let want = |k: &str| only.as_deref().map(|o| o.split(',').any(|x| x == k)).unwrap_or(true);
    let sizes: Vec<usize> = match ctx.tier {
        Tier::Quick => vec![8, 16, 32, 64, 1024],
        Tier::Thorough => vec![8, 16, 32, 64, 1024, 2048],
    };
    let pool = build_pool::<i64>(ctx, &alpha, ed, e2_pool_extras(&alpha, &sizes));
    ctx.count("pool sketches", pool.all.len() as u64);

    // The smallest witnesses first (sequentially), so that a recorded replay is minimal:
    // fresh.merge(x) and x.merge(y) for every pool pair.
    if want("D") {
        run_trees(ctx, &pool, &alpha, ed, obs, true);
    }
    let (ed, alpha, alpha2, pool, sizes) = (ed, &alpha, &alpha2, &pool, &sizes);
    rayon::scope(|sc| {
        // ---- A: all sequences on the 8-slot map
        if want("A") {
            sc.spawn(move |_| {
                let (n_items, depth) = if ctx.reduced { ctx.tier.pick((8, 6), (8, 7)) } else { ctx.tier.pick((8, 8), (9, 9)) };
                let unit: Vec<Op<i64>> = alpha.items[..n_items].iter().map(|t| up(t, 1)).collect();
                let focus = focus_of(alpha, n_items);
                dfs(ctx, &format!("size 8, {n_items} unit-weight items"), 8, &[], &State::new(8), &unit, depth, &focus, ed, obs);
            });
            sc.spawn(move |_| {
                let mut full: Vec<Op<i64>> = alpha.items.iter().map(|t| up(t, 1)).collect();
                full.extend([up(&alpha.items[0], 3), up(&alpha.items[1], 2), up(&alpha.items[2], 0)]);
                let focus = focus_of(alpha, alpha.items.len());
                dfs(ctx, "size 8, 13-op alphabet (10 items, weights 3, 2, 0)", 8, &[], &State::new(8), &full, if ctx.reduced { ctx.tier.pick(4, 5) } else { ctx.tier.pick(5, 7) }, &focus, ed, obs);
            });
        }
        if want("A") {
            sc.spawn(move |_| {
                let depth = if ctx.reduced { ctx.tier.pick(6, 7) } else { ctx.tier.pick(7, 8) };
                let unit: Vec<Op<i64>> = alpha2.items[..8].iter().map(|t| up(t, 1)).collect();
                let focus = focus_of(alpha2, 8);
                dfs(ctx, "size 8, 8 unit-weight items that all share home slot 3", 8, &[], &State::new(8), &unit, depth, &focus, ed, obs);
            });
        }
        // ---- B: from non-initial states, mixed alphabet (both item alphabets)
        if want("B") {
            let mut starts: Vec<(String, usize, Vec<Op<i64>>, &Alphabet<i64>)> = vec![];
            for (tag, al) in [("", alpha), ("one-cluster items, ", alpha2)] {
                for (name, size, pre) in start_states(al) {
                    starts.push((format!("{tag}{name}"), size, pre, al));
                }
            }
            ctx.count("DFS start states (non-initial)", starts.len() as u64);
            for (name, size, pre, alpha) in starts {
                sc.spawn(move |_| {
                    let focus = focus_of(alpha, alpha.items.len());
                    let mut mixed: Vec<Op<i64>> = alpha.items[..8].iter().map(|t| up(t, 1)).collect();
                    mixed.extend([up(&alpha.items[0], 3), up(&alpha.items[2], 0), Op::Reset, Op::Serde]);
                    for n in ["8:purged to empty", "8:3 items", "16:heavy hitter", "8:purged twice"] {
                        mixed.push(Op::Merge(pool.by_name(n)));
                    }
                    let init = run_prefix(ctx, size, &pre, &focus, ed);
                    dfs(ctx, &format!("from: {name}"), size, &pre, &init, &mixed, if ctx.reduced { ctx.tier.pick(3, 4) } else { ctx.tier.pick(4, 5) }, &focus, ed, obs);
                });
            }
        }
        // ---- C: E2
        if want("C") {
            let mut plans: Vec<E2Plan> = sizes
                .iter()
                .filter(|&&size| !ctx.reduced || size <= 16 || size == 64 || (size == 1024 && ctx.tier == Tier::Thorough))
                .map(|&size| match (ctx.tier, size) {
                    (_, 8 | 16) if ctx.reduced => E2Plan { size, bound: 1, grid1: 0, grid2: 0, lean: false },
                    (_, _) if ctx.reduced => E2Plan { size, bound: 1, grid1: if size == 64 { 8 } else { 4 }, grid2: 0, lean: true },
                    (Tier::Quick, 8) => E2Plan { size, bound: 2, grid1: 0, grid2: 6, lean: false },
                    (Tier::Quick, 16) => E2Plan { size, bound: 1, grid1: 0, grid2: 0, lean: false },
                    (Tier::Quick, 32 | 64) => E2Plan { size, bound: 1, grid1: 24, grid2: 0, lean: false },
                    (Tier::Quick, _) => E2Plan { size, bound: 1, grid1: 6, grid2: 0, lean: true },
                    (Tier::Thorough, 8) => E2Plan { size, bound: 2, grid1: 0, grid2: 0, lean: false },
                    (Tier::Thorough, 16) => E2Plan { size, bound: 2, grid1: 0, grid2: 8, lean: false },
                    (Tier::Thorough, 32 | 64) => E2Plan { size, bound: 1, grid1: 0, grid2: 0, lean: false },
                    (Tier::Thorough, _) => E2Plan { size, bound: 1, grid1: 24, grid2: 0, lean: false },
                })
                .collect();
            // the big tables first (longest single tasks)
            plans.sort_by_key(|p| std::cmp::Reverse(p.size));
            for plan in plans {
                let plan = Arc::new(plan);
                for ri in 0..N_RUNS {
                    let plan = plan.clone();
                    sc.spawn(move |_| run_e2(ctx, &plan, ri, alpha, pool, ed, obs));
                }
            }
        }
        // ---- D: merge trees
        if want("D") {
            sc.spawn(move |_| {
                let t0 = std::time::Instant::now();
                run_trees(ctx, pool, alpha, ed, obs, false);
                if dbg() {
                    eprintln!("  trees {:.1}s", t0.elapsed().as_secs_f64());
                }
            });
        }
        // ---- String items
        if want("S") && !ctx.reduced {
            sc.spawn(move |_| {
                let t0 = std::time::Instant::now();
                run_strings(ctx, ed);
                if dbg() {
                    eprintln!("  strings {:.1}s", t0.elapsed().as_secs_f64());
                }
            });
        }
    });
    ctx.edges_merge(&ed.totals());
    // two real cases as samples
    let s1: Vec<Op<i64>> = (0..7).map(|i| up(&alpha.items[i], 1)).chain([up(&alpha.items[0], 1)]).collect();
    ctx.sample(json!({"explorer": "A (stateless DFS, size 8)", "case": fim::recipe_json(8, &s1),
        "note": "7 distinct unit updates: the 7th purges every counter (maximum_error 1, no counters); then one more update",
        "oracle": "for each of the 8 alphabet items and 2 never-offered items: lb<=f<=ub, ub-lb<=maximum_error, estimate in {0} or [lb,ub]; total_weight exact; maximum_error<=epsilon*W; frequent_items NFP/NFN with thresholds; rows sorted; num_active<=capacity"}));
    let s2: Vec<Op<i64>> = vec![up(&alpha.items[0], 1), Op::Merge(pool.by_name("8:purged to empty"))];
    ctx.sample(json!({"explorer": "D (merge trees)", "case": fim::recipe_json(8, &s2),
        "note": "merge of a source of total weight 7 whose purge removed every counter; the reference is the sum of exact maps and weights"}));
}

pub fn run(ctx: &Ctx) -> i32 {
    explore(ctx, &no_observer);
    let mut machinery_bad = false;
    {
        let c = ctx.counters.lock().unwrap();
        if c.contains_key("selfcheck failed") {
            machinery_bad = true;
        }
    }
    {
        let e = ctx.edges.lock().unwrap();
        let need = [
            E::PURGE,
            E::PURGE_ALL,
            E::PURGE_SOME,
            E::PURGE_AGAIN,
            E::RESIZE,
            E::MERGE_PURGE,
            E::MERGE_PURGED_EMPTY,
            E::DEL_SHIFT,
            E::DEL_SHIFT_WRAP,
            E::KOPC_LAST_OCCUPIED,
            E::INS_WRAP,
            E::UP_REINSERT,
        ];
        let full_run = std::env::var("VERIF_ONLY").is_err() && !ctx.reduced;
        let missing: Vec<&str> = need.iter().map(|&x| fim::EDGE_NAMES[x as usize]).filter(|n| !e.contains_key(*n)).collect();
        if !missing.is_empty() && full_run {
            eprintln!("machinery error: exploration is vacuous, edges not covered: {:?}", missing);
            machinery_bad = true;
        }
    }
    let cov = json!({
        "exhaustive": true,
        "bounds": {
            "A2": "second item alphabet (all ten items share home slot 3 of 8 / 11 of 16: one cluster 3..7,0,1 with a single hole): ALL unit-update sequences of length <= 7 (thorough 8) over 8 items",
            "A": "max_map_size 8 (6 counters): ALL sequences of unit updates of length <= 8 over 8 items (thorough: <= 9 over 9 items) and ALL sequences of length <= 5 (thorough 7) over 13 ops (10 items, update_with_count weights 3, 2, 0); no state merging. Items found by brute force so that 4 share home slot 6 of 8 (14 of 16), one sits at the last slot, one at slot 0: the cluster wraps the array end",
            "B": "for each of the two item alphabets, from 9 non-initial states (full, weighted full, counters 20,20,1,1,1,1, after purge with survivors, after purge-to-empty, after two purges; size 16 before resize, full, after purge): ALL sequences of length <= 4 (thorough 5) over 16 ops (8 items, weight 3, weight 0, reset, serialize round trip, merge of 4 pool sketches)",
            "C": "E2: map sizes 8,16,32,64,1024 (thorough + 2048); 6 default runs (all distinct; all equal counts; zipf-like; heavy hitter + noise; heavy hitter last; two weight-20 items + noise) of 4*capacity+6 updates; every placement of <= b deviations from {alphabet updates incl. weight 0/3/2 (big tables: 9 updates incl. weight 1000), merge(each pool sketch + 3 same-size sketches), reset, serialize round trip}; quick: size 8 b=2 (second deviation on a 6-point grid + purge positions), size 16 b=1 every position, 32/64 b=1 24-point grid + positions around every purge/resize, 1024 b=1 6-point grid + around purges, 8 merge sources; thorough: 8 b=2 everywhere, 16 b=2 (8-point second grid), 32/64 b=1 everywhere, 1024/2048 24-point grid",
            "D": "pool of 14 sketches (sizes 8, 16: fresh, 3 items, full, purged to empty, purged twice, heavy hitter; 8: purged to empty then 2 items; 32: heavy hitter): all ordered trees with 2 and 3 leaves (thorough: 4 leaves, all five shapes), left-deep chains of 4 and 5 over a reduced pool of 5 (thorough 7); every intermediate node checked",
            "String": "String items (brute-forced the same way): all unit sequences of length <= 7 (thorough 8) on size 8; length <= 4 (5) over 14 ops from 3 start states",
            "oracle": "in every state, for every alphabet item, every item ever offered and two never-offered items: lower_bound <= exact count <= upper_bound; ub-lb <= maximum_error; estimate 0 or in [lb,ub]; total_weight == exact weight (summed over merged inputs); single-map-size histories with size <= 1024: maximum_error <= epsilon()*total_weight and epsilon()==3.5/size; frequent_items NoFalsePositives subset of {f > threshold}, NoFalseNegatives superset, for the default and explicit thresholds {0, err (= the default call), err+1, max f} (effective threshold = max(t, maximum_error) as documented); rows descending by estimate, no duplicates, row bounds bracket; num_active_items <= maximum_map_capacity. On tables > 64 the per-item clauses run for the touched item, the alphabet and the never-offered items at every step and for all items every 128 steps, at every purge/resize/merge/reset/serde and at the end",
        },
    });
    let code = ctx.finish(
        cov,
        vec![
            "the reference is an exact BTreeMap of counts and an exact total weight; the reference of a merge is the sum of the maps and weights of its inputs".into(),
            "items are tied to table slots through the harness's own MurmurHash3 (seed 9001, std Hash byte stream of i64 / str); this is validated at start-up and at every purge/resize by comparing an independent layout model with the key order of serialize()".into(),
            "after a reported violation the execution is not continued (sketch and reference have diverged); a refused 6-byte empty image (C11) does not stop an execution and is filtered out of C07".into(),
            "edge names about table layout come from the harness's layout model (textbook linear probing + Knuth deletion), not from the library".into(),
        ],
    );
    if machinery_bad && code == 0 {
        eprintln!("machinery error: exploration is vacuous");
        return 2;
    }
    code
}
