//! C13 variants for t-digest (float/double, reference encodings) and CPC (uncompressed flag
//! must be rejected cleanly): attached when the t-digest codec is merged in.
use crate::common::{Ctx, catch};
use serde_json::json;

pub fn run(ctx: &Ctx) -> u64 {
    // CPC: the only foreign variant is an image without the COMPRESSED flag: must be a clean Err.
    let mut n = 0;
    for lg_k in [4u8, 11, 26] {
        let s = datasketches::cpc::CpcSketch::new(lg_k);
        let mut img = s.serialize();
        img[5] &= !2;
        n += 1;
        match catch(|| datasketches::cpc::CpcSketch::deserialize(&img)) {
            Err(p) => {
                ctx.violation(&format!("panic|{}", p.site_key()), &format!("uncompressed CPC image panicked: {}", p.message), json!({"kind":"image","family":"cpc","image_hex":crate::common::hex(&img)}));
            }
            Ok(Ok(_)) => {
                ctx.violation("cpc.uncompressed_accepted", "an image without the COMPRESSED flag is accepted", json!({"kind":"image","family":"cpc","image_hex":crate::common::hex(&img)}));
            }
            Ok(Err(_)) => {}
        }
    }
    // CPC: Java/C++ write the result of an EMPTY union as preInts 2 with only the COMPRESSED flag
    // (no HIP flag): an empty sketch that is MERGED. This library writes its own empty sketches
    // with the HIP flag, so this variant only ever comes from outside. The restored sketch must
    // be empty and merged, re-serialize to the same 8 bytes, and after updates still be a merged
    // sketch (no HIP section; the estimate is the ICON estimate of its coupon count).
    for lg_k in [4u8, 10, 12, 21, 26] {
        let mut img = vec![2u8, 1, 16, lg_k, 0, 2];
        img.extend(crate::spec_misc::seed_hash(9001).to_le_bytes());
        n += 1;
        let rp = || json!({"kind":"image","family":"cpc","variant":"empty merged (Java/C++ empty union result)","image_hex":crate::common::hex(&img)});
        match catch(|| datasketches::cpc::CpcSketch::deserialize(&img)) {
            Err(p) => {
                ctx.violation(&format!("panic|{}", p.site_key()), &format!("empty merged CPC image panicked: {}", p.message), rp());
            }
            Ok(Err(e)) => {
                ctx.violation("cpc.empty_merged.rejected", &format!("valid image rejected: {e}"), rp());
            }
            Ok(Ok(mut d)) => {
                let st = d.verif_state();
                if !d.is_empty() || d.num_coupons() != 0 || d.lg_k() != lg_k {
                    ctx.violation("cpc.empty_merged.state", &format!("restored as empty={} coupons={} lg_k={}", d.is_empty(), d.num_coupons(), d.lg_k()), rp());
                } else if !st.merge_flag {
                    ctx.violation("cpc.empty_merged.merge_flag", "the merged flag of the image is lost (the sketch would answer with HIP and write a HIP section)", rp());
                } else if d.serialize() != img {
                    ctx.violation("cpc.empty_merged.reserialize", &format!("re-serialized as {}", crate::common::hex(&d.serialize())), rp());
                } else if lg_k <= 12 {
                    for i in 0..(40u64 << lg_k.min(8)) {
                        d.update(i);
                    }
                    let after = d.serialize();
                    let mut fresh = datasketches::cpc::CpcUnion::new(lg_k);
                    let mut same = datasketches::cpc::CpcSketch::new(lg_k);
                    for i in 0..(40u64 << lg_k.min(8)) {
                        same.update(i);
                    }
                    fresh.update(&same);
                    let want = fresh.to_sketch();
                    if after.len() < 6 || after[5] & 4 != 0 || d.estimate().to_bits() != want.estimate().to_bits() {
                        ctx.violation("cpc.empty_merged.continuation", &format!("after updates the sketch is no longer a merged sketch (flags {:#x}, estimate {} vs the merged estimate {})", after.get(5).copied().unwrap_or(0), d.estimate(), want.estimate()), rp());
                    }
                }
            }
        }
    }
    n += tdigest_variants(ctx);
    n
}

/// t-digest: native f64 / f32, reference-implementation double / float (big-endian), empty /
/// single / multi / with-buffered-values forms, reverse_merge flag, plus the two on-disk
/// reference files. The restored digest must hold the encoded centroids (total weight, min, max,
/// k) and answer rank/quantile as the encoded centroid list requires (reference formulas).
fn tdigest_variants(ctx: &Ctx) -> u64 {
    use crate::tdm::{self, Enc, TdImage};
    use datasketches::tdigest::TDigestMut;
    let mut n = 0;
    let lists: Vec<(f64, f64, Vec<(f64, u64)>, Vec<f64>)> = vec![
        (0.0, 0.0, vec![], vec![]),
        (5.0, 5.0, vec![(5.0, 1)], vec![]),
        (1.0, 4.0, vec![(1.0, 1), (2.0, 3), (3.5, 2), (4.0, 1)], vec![]),
        (-3.0, 9.0, vec![(-3.0, 1), (0.0, 10), (2.0, 40), (7.0, 5), (9.0, 1)], vec![]),
        (0.0, 100.0, (0..60).map(|i| (i as f64 * 100.0 / 59.0, 1 + (i % 4) as u64)).collect(), vec![]),
        (1.0, 4.0, vec![(1.0, 1), (2.0, 3), (4.0, 1)], vec![2.5, 3.0, 1.5]),
        // heavy first / last centroids with min / max beyond their means (valid images the
        // in-process algorithm never produces): the tail branches of rank and quantile
        (0.0, 12.0, vec![(0.0, 1), (1.0, 1), (2.0, 1), (10.0, 8)], vec![]),
        (-4.0, 12.0, vec![(1.0, 6), (2.0, 1), (3.0, 1), (12.0, 1)], vec![]),
        (-4.0, 20.0, vec![(1.0, 5), (2.0, 2), (10.0, 7)], vec![]),
    ];
    for (min, max, cents, buffered) in &lists {
        for enc in Enc::ALL {
            for k in [10u16, 100, 200] {
                for rev in [false, true] {
                    if !enc.native() && (rev || !buffered.is_empty() || cents.is_empty()) {
                        continue;
                    }
                    let mut img = TdImage { enc, k, flags: if rev { tdm::FLAG_REVERSE } else { 0 }, min: *min, max: *max, centroids: cents.clone(), buffered: buffered.clone() };
                    if enc.is_f32() || enc == Enc::RefFloat {
                        // representable values only
                        img.centroids.iter_mut().for_each(|c| c.0 = c.0 as f32 as f64);
                    }
                    let bytes = tdm::encode(&img, false);
                    let variant = json!({"kind":"image","family":"tdigest","encoding":enc.name(),"k":k,"reverse_merge":rev,"centroids":img.centroids.len(),"buffered":buffered.len(),"image_hex":crate::common::hex(&bytes)});
                    n += 1;
                    let mut d = match catch(|| TDigestMut::deserialize(&bytes, enc.is_f32())) {
                        Err(p) => {
                            ctx.violation(&format!("panic|{}", p.site_key()), &format!("t-digest deserialize ({}) panicked: {}", enc.name(), p.message), variant);
                            continue;
                        }
                        Ok(Err(e)) => {
                            ctx.violation(&format!("td.variant.rejected.{}", enc.name().replace(' ', "_")), &format!("valid image rejected: {e}"), variant);
                            continue;
                        }
                        Ok(Ok(d)) => d,
                    };
                    let want_w = img.total_weight();
                    let mut bad = vec![];
                    if d.total_weight() != want_w {
                        bad.push(("td.variant.total_weight", format!("total_weight {} but the image encodes {}", d.total_weight(), want_w)));
                    }
                    if d.is_empty() != (want_w == 0) {
                        bad.push(("td.variant.is_empty", format!("is_empty {} for total weight {want_w}", d.is_empty())));
                    }
                    if want_w > 0 {
                        let (emin, emax) = if buffered.is_empty() { (*min, *max) } else { (buffered.iter().cloned().fold(*min, f64::min), buffered.iter().cloned().fold(*max, f64::max)) };
                        if d.min_value() != Some(emin) || d.max_value() != Some(emax) {
                            bad.push(("td.variant.min_max", format!("min/max {:?}/{:?} but the image encodes {emin}/{emax}", d.min_value(), d.max_value())));
                        }
                        if enc.native() && d.k() != k {
                            bad.push(("td.variant.k", format!("k {} but the image encodes {k}", d.k())));
                        }
                        // rank/quantile as the encoded centroid list requires (no buffered values)
                        if buffered.is_empty() && bad.is_empty() {
                            let r = tdm::RefDigest::new(*min, *max, &img.centroids);
                            for i in 0..=64 {
                                let q = i as f64 / 64.0;
                                let v = min + (max - min) * q;
                                let (gr, wr) = (d.rank(v).unwrap_or(f64::NAN), r.get_rank(v));
                                let (gq, wq) = (d.quantile(q).unwrap_or(f64::NAN), r.get_quantile(q));
                                if (gr - wr).abs() > 1e-9 || ((gq - wq).abs() > 1e-9 * (1.0 + wq.abs()) && !wq.is_nan()) {
                                    bad.push(("td.variant.rank_quantile", format!("rank({v}) = {gr} (reference {wr}), quantile({q}) = {gq} (reference {wq})")));
                                    break;
                                }
                            }
                        }
                    }
                    // re-serialization decodes to the same abstract state
                    if bad.is_empty() {
                        match tdm::decode(&d.serialize()) {
                            Ok(im2) => {
                                if im2.total_weight() != want_w {
                                    bad.push(("td.variant.reserialize", "re-serialized image has a different total weight".to_string()));
                                }
                                if buffered.is_empty() && want_w > 1 && im2.centroids != img.centroids {
                                    bad.push(("td.variant.reserialize", "re-serialized image has different centroids".to_string()));
                                }
                            }
                            Err(e) => bad.push(("td.variant.reserialize", format!("re-serialized image undecodable: {e}"))),
                        }
                    }
                    for (k, w) in bad {
                        ctx.violation(k, &format!("{} k={} : {w}", enc.name(), img.k), variant.clone());
                    }
                }
            }
        }
    }
    // the two foreign files that exist offline
    for (file, is_f32) in [("tdigest_ref_k100_n10000_double.sk", false), ("tdigest_ref_k100_n10000_float.sk", false)] {
        if let Ok(bytes) = std::fs::read(format!("/repo/datasketches/tests/test_data/{file}")) {
            n += 1;
            match (catch(|| TDigestMut::deserialize(&bytes, is_f32)), tdm::decode(&bytes)) {
                (Ok(Ok(mut d)), Ok(im)) => {
                    if d.total_weight() != im.total_weight() || d.min_value() != Some(im.min) || d.max_value() != Some(im.max) {
                        ctx.violation("td.variant.reference_file", &format!("{file}: total/min/max {}/{:?}/{:?} but the spec decoder reads {}/{}/{}", d.total_weight(), d.min_value(), d.max_value(), im.total_weight(), im.min, im.max), json!({"kind":"file","file":file}));
                    }
                    let _ = d.quantile(0.5);
                }
                (a, b) => {
                    ctx.violation("td.variant.reference_file", &format!("{file}: library {:?}, spec decoder {:?}", a.map(|r| r.map(|_| ()).map_err(|e| e.to_string())).map_err(|p| p.message), b.map(|_| ())), json!({"kind":"file","file":file}));
                }
            }
        }
    }
    n
}
