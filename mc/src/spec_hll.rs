//! HLL binary layout written from the cross-language format description (DESIGN Appendix A),
//! independent of the Rust writer/reader: decoder and encoder over an abstract image.

#[derive(Clone, Debug, PartialEq)]
pub enum HllBody {
    /// coupons in image order (zeros = empty slots of an updatable table are dropped by the
    /// decoder but kept in `table_len`)
    List { coupons: Vec<u32> },
    Set { coupons: Vec<u32> },
    Array { registers: Vec<u8>, cur_min: u8, num_at_cur_min: u32, aux: Vec<(u32, u8)>, hip: f64, kxq0: f64, kxq1: f64 },
}

#[derive(Clone, Debug, PartialEq)]
pub struct HllImage {
    pub lg_k: u8,
    /// 4, 6 or 8
    pub tgt: u8,
    pub lg_arr: u8,
    pub flags: u8,
    pub body: HllBody,
    pub total_len: usize,
}

pub const F_EMPTY: u8 = 4;
pub const F_COMPACT: u8 = 8;
pub const F_OOO: u8 = 16;

fn u32le(b: &[u8], o: usize) -> Result<u32, String> {
    b.get(o..o + 4).map(|s| u32::from_le_bytes(s.try_into().unwrap())).ok_or_else(|| format!("image too short at {o}"))
}
fn f64le(b: &[u8], o: usize) -> Result<f64, String> {
    b.get(o..o + 8).map(|s| f64::from_le_bytes(s.try_into().unwrap())).ok_or_else(|| format!("image too short at {o}"))
}

pub fn reg_bytes(tgt: u8, lg_k: u8) -> usize {
    let k = 1usize << lg_k;
    match tgt {
        4 => k / 2,
        6 => (k * 3) / 4 + 1,
        _ => k,
    }
}

pub fn decode(b: &[u8]) -> Result<HllImage, String> {
    if b.len() < 8 {
        return Err("shorter than the 8-byte preamble".into());
    }
    let pre = b[0];
    if b[1] != 1 {
        return Err(format!("serVer {}", b[1]));
    }
    if b[2] != 7 {
        return Err(format!("family {}", b[2]));
    }
    let lg_k = b[3];
    if !(4..=21).contains(&lg_k) {
        return Err(format!("lg_k {lg_k}"));
    }
    let lg_arr = b[4];
    let flags = b[5];
    let state = b[6];
    let mode = b[7] & 3;
    let tgt = match (b[7] >> 2) & 3 {
        0 => 4,
        1 => 6,
        2 => 8,
        t => return Err(format!("target type {t}")),
    };
    let compact = flags & F_COMPACT != 0;
    let body;
    let total_len;
    match mode {
        0 => {
            if pre != 2 {
                return Err(format!("LIST preInts {pre}"));
            }
            let n = state as usize;
            let slots = if compact { n } else { 1usize << lg_arr };
            let mut coupons = vec![];
            for i in 0..slots {
                let c = u32le(b, 8 + 4 * i)?;
                if c != 0 {
                    coupons.push(c);
                }
            }
            if coupons.len() != n {
                return Err(format!("LIST count byte {n} but {} non-empty coupons", coupons.len()));
            }
            total_len = 8 + 4 * slots;
            body = HllBody::List { coupons };
        }
        1 => {
            if pre != 3 {
                return Err(format!("SET preInts {pre}"));
            }
            let n = u32le(b, 8)? as usize;
            let slots = if compact { n } else { 1usize << lg_arr };
            let mut coupons = vec![];
            for i in 0..slots {
                let c = u32le(b, 12 + 4 * i)?;
                if c != 0 {
                    coupons.push(c);
                }
            }
            if coupons.len() != n {
                return Err(format!("SET count {n} but {} non-empty coupons", coupons.len()));
            }
            total_len = 12 + 4 * slots;
            body = HllBody::Set { coupons };
        }
        2 => {
            if pre != 10 {
                return Err(format!("HLL preInts {pre}"));
            }
            let hip = f64le(b, 8)?;
            let kxq0 = f64le(b, 16)?;
            let kxq1 = f64le(b, 24)?;
            let num_at_cur_min = u32le(b, 32)?;
            let aux_count = u32le(b, 36)? as usize;
            let k = 1usize << lg_k;
            let nb = reg_bytes(tgt, lg_k);
            let rb = b.get(40..40 + nb).ok_or("register area truncated")?;
            let cur_min = if tgt == 4 { state } else { 0 };
            let mut registers = vec![0u8; k];
            let mut aux = vec![];
            let mut len = 40 + nb;
            match tgt {
                8 => registers.copy_from_slice(rb),
                6 => {
                    for (s, r) in registers.iter_mut().enumerate() {
                        let bit = s * 6;
                        let lo = rb[bit >> 3] as u16;
                        let hi = *rb.get((bit >> 3) + 1).unwrap_or(&0) as u16;
                        *r = (((lo | (hi << 8)) >> (bit & 7)) & 0x3F) as u8;
                    }
                }
                _ => {
                    let slots = if compact { aux_count } else { 1usize << lg_arr };
                    let mut auxmap = std::collections::BTreeMap::new();
                    if aux_count > 0 || !compact {
                        for i in 0..slots {
                            // an updatable aux table only exists when there are exceptions
                            if aux_count == 0 {
                                break;
                            }
                            let p = u32le(b, 40 + nb + 4 * i)?;
                            if p != 0 {
                                let slot = p & ((k as u32) - 1);
                                let val = (p >> 26) as u8;
                                if auxmap.insert(slot, val).is_some() {
                                    return Err(format!("aux slot {slot} twice"));
                                }
                                aux.push((slot, val));
                            }
                        }
                        if aux_count > 0 {
                            len += 4 * slots;
                        }
                    }
                    if aux.len() != aux_count {
                        return Err(format!("auxCount {aux_count} but {} aux pairs", aux.len()));
                    }
                    for (s, r) in registers.iter_mut().enumerate() {
                        let byte = rb[s >> 1];
                        let nib = if s & 1 == 0 { byte & 15 } else { byte >> 4 };
                        if nib == 15 {
                            match auxmap.get(&(s as u32)) {
                                Some(&v) => *r = v,
                                None => return Err(format!("slot {s} has the aux token but no aux pair")),
                            }
                        } else {
                            *r = cur_min + nib;
                        }
                    }
                    // every aux pair must be referenced by a token
                    for (s, _) in &aux {
                        let byte = rb[(*s as usize) >> 1];
                        let nib = if s & 1 == 0 { byte & 15 } else { byte >> 4 };
                        if nib != 15 {
                            return Err(format!("aux pair for slot {s} whose nibble is {nib}"));
                        }
                    }
                }
            }
            total_len = len;
            body = HllBody::Array { registers, cur_min, num_at_cur_min, aux, hip, kxq0, kxq1 };
        }
        m => return Err(format!("mode {m}")),
    }
    Ok(HllImage { lg_k, tgt, lg_arr, flags, body, total_len })
}

#[derive(Clone, Copy, Debug, PartialEq)]
pub struct EncOpts {
    /// compact flag (coupon tables / aux table written without empty slots)
    pub compact: bool,
    pub ooo: bool,
    /// lg size of an updatable coupon table or aux table
    pub lg_arr: u8,
    /// extra flag bits a foreign writer may set (1 big-endian never; 2 read-only; 32 rebuild-kxq)
    pub extra_flags: u8,
}

fn tgt_bits(tgt: u8) -> u8 {
    match tgt {
        4 => 0,
        6 => 1,
        _ => 2,
    }
}

/// Java/C++ coupon-table probing (for updatable SET tables).
fn place(table: &mut [u32], lg: u8, c: u32) {
    let mask = (1u32 << lg) - 1;
    let mut p = c & mask;
    let start = p;
    loop {
        if table[p as usize] == 0 {
            table[p as usize] = c;
            return;
        }
        if table[p as usize] == c {
            return;
        }
        let stride = ((c & 0x3FF_FFFF) >> lg) | 1;
        p = (p + stride) & mask;
        assert!(p != start, "spec encoder: table full");
    }
}

pub fn encode_list(lg_k: u8, tgt: u8, coupons: &[u32], o: EncOpts) -> Vec<u8> {
    let mut b = vec![2, 1, 7, lg_k, o.lg_arr, 0, coupons.len() as u8, tgt_bits(tgt) << 2];
    let mut f = o.extra_flags;
    if coupons.is_empty() {
        f |= F_EMPTY;
    }
    if o.compact {
        f |= F_COMPACT;
    }
    b[5] = f;
    if o.compact {
        for c in coupons {
            b.extend(c.to_le_bytes());
        }
    } else {
        let n = 1usize << o.lg_arr;
        assert!(coupons.len() <= n);
        for i in 0..n {
            b.extend(coupons.get(i).copied().unwrap_or(0).to_le_bytes());
        }
    }
    b
}

pub fn encode_set(lg_k: u8, tgt: u8, coupons: &[u32], o: EncOpts) -> Vec<u8> {
    let mut b = vec![3, 1, 7, lg_k, o.lg_arr, 0, 0, 1 | (tgt_bits(tgt) << 2)];
    let mut f = o.extra_flags;
    if o.compact {
        f |= F_COMPACT;
    }
    b[5] = f;
    b.extend((coupons.len() as u32).to_le_bytes());
    if o.compact {
        for c in coupons {
            b.extend(c.to_le_bytes());
        }
    } else {
        let mut t = vec![0u32; 1usize << o.lg_arr];
        for &c in coupons {
            place(&mut t, o.lg_arr, c);
        }
        for c in t {
            b.extend(c.to_le_bytes());
        }
    }
    b
}

/// Encodes a register array. `cur_min` is only used for tgt 4. For tgt 4 the aux pairs are
/// derived from the registers; `o.compact` selects the compact aux list or an updatable table.
pub fn encode_array(lg_k: u8, tgt: u8, regs: &[u8], cur_min: u8, hip: f64, kxq0: f64, kxq1: f64, o: EncOpts) -> Vec<u8> {
    let k = 1usize << lg_k;
    assert_eq!(regs.len(), k);
    let mut f = o.extra_flags;
    if o.compact {
        f |= F_COMPACT;
    }
    if o.ooo {
        f |= F_OOO;
    }
    let mut b = vec![10, 1, 7, lg_k, 0, f, if tgt == 4 { cur_min } else { 0 }, 2 | (tgt_bits(tgt) << 2)];
    b.extend(hip.to_le_bytes());
    b.extend(kxq0.to_le_bytes());
    b.extend(kxq1.to_le_bytes());
    let base = if tgt == 4 { cur_min } else { 0 };
    let num_at = regs.iter().filter(|&&v| v == base).count() as u32;
    b.extend(num_at.to_le_bytes());
    let mut aux: Vec<(u32, u8)> = vec![];
    if tgt == 4 {
        for (s, &v) in regs.iter().enumerate() {
            assert!(v >= cur_min);
            if v - cur_min >= 15 {
                aux.push((s as u32, v));
            }
        }
    }
    b.extend((aux.len() as u32).to_le_bytes());
    match tgt {
        8 => b.extend(regs),
        6 => {
            let mut rb = vec![0u8; reg_bytes(6, lg_k)];
            for (s, &v) in regs.iter().enumerate() {
                let bit = s * 6;
                let cur = (rb[bit >> 3] as u16) | ((rb[(bit >> 3) + 1] as u16) << 8);
                let nv = cur | (((v & 0x3F) as u16) << (bit & 7));
                rb[bit >> 3] = nv as u8;
                rb[(bit >> 3) + 1] = (nv >> 8) as u8;
            }
            b.extend(rb);
        }
        _ => {
            let mut rb = vec![0u8; k / 2];
            for (s, &v) in regs.iter().enumerate() {
                let nib = (v - cur_min).min(15);
                if s & 1 == 0 {
                    rb[s >> 1] |= nib;
                } else {
                    rb[s >> 1] |= nib << 4;
                }
            }
            b.extend(rb);
            if !aux.is_empty() {
                if o.compact {
                    for (s, v) in &aux {
                        b.extend((((*v as u32) << 26) | s).to_le_bytes());
                    }
                } else {
                    b[4] = o.lg_arr;
                    let n = 1usize << o.lg_arr;
                    assert!(aux.len() < n, "spec encoder: aux table too small");
                    // Java aux probing: probe = slot & mask, stride = (slot >>> lgAuxArr) | 1
                    let mut t = vec![0u32; n];
                    let mask = (n as u32) - 1;
                    for (s, v) in &aux {
                        let mut p = s & mask;
                        let stride = (s >> o.lg_arr) | 1;
                        while t[p as usize] != 0 {
                            p = (p + stride) & mask;
                        }
                        t[p as usize] = ((*v as u32) << 26) | s;
                    }
                    for e in t {
                        b.extend(e.to_le_bytes());
                    }
                }
            }
        }
    }
    b
}
