//! C18 for Frequent Items (num_active_items <= maximum_map_capacity in every explored state):
//! attached when the C07 explorer is merged in.
use crate::common::Ctx;
pub fn run(_ctx: &Ctx) {}
