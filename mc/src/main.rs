#![allow(dead_code)]
//! mcx — bounded exhaustive ("model checking") checks for apache/datasketches-rust.
//! Usage: mcx <C01..C18> [--tier quick|thorough]
//!        mcx replay <path>
//!        mcx selftest

mod common;
mod refhash;
mod c16;
mod engine;
mod hllm;
mod c01;
mod c02;
mod spec_hll;
mod c03;
mod thetam;
mod c04;
mod cpcm;
mod c05;
mod c06;
mod fim;
mod c07;
mod tdm;
mod c10;
mod c15;
mod cmm;
mod c08;
mod bloomm;
mod c09;
mod spec_misc;
mod spec_cpc;
mod obs;
mod c11;
mod c11_more;
mod c12;
mod c12_more;
mod c13;
mod c13_more;
mod e4;
mod c14;
mod c14_more;
mod c17;
mod c17_more;
mod c18;
mod c18_more;

#[global_allocator]
static GLOBAL: e4::Guard = e4::Guard;

/// First coupon count at which a CPC sketch of this lg_k has the given flavor ordinal.
pub fn c06_counts(lg_k: u8, flavor: u8) -> u32 {
    (1..=cpcm::max_coupons(lg_k)).find(|&c| cpcm::flavor_of(lg_k, c) == flavor).unwrap() + (1u32 << lg_k) / 4
}
mod replay;

use common::{Ctx, Tier};

fn main() {
    common::install_panic_hook();
    let args: Vec<String> = std::env::args().collect();
    if args.len() < 2 {
        eprintln!("usage: mcx <check> [--tier quick|thorough] | replay <path> | selftest");
        std::process::exit(2);
    }
    let mut tier = match std::env::var("VERIF_TIER").ok().as_deref() {
        Some("thorough") => Tier::Thorough,
        _ => Tier::Quick,
    };
    let mut i = 2;
    while i < args.len() {
        if args[i] == "--tier" && i + 1 < args.len() {
            tier = match args[i + 1].as_str() {
                "quick" => Tier::Quick,
                "thorough" => Tier::Thorough,
                t => {
                    eprintln!("unknown tier {t}");
                    std::process::exit(2);
                }
            };
            i += 1;
        }
        i += 1;
    }
    // A panic that escapes a check is a failure of the machinery (exit 2) unless the check
    // had already printed a VIOLATION line, in which case the verdict stands (exit 1).
    let code = match std::panic::catch_unwind(std::panic::AssertUnwindSafe(|| dispatch(&args, tier))) {
        Ok(c) => c,
        Err(_) => {
            if common::VIOLATION_PRINTED.load(std::sync::atomic::Ordering::SeqCst) {
                eprintln!("note: the check panicked after reporting a violation; the violation stands");
                1
            } else if let Some(p) = common::last_panic_any_thread().filter(|p| p.in_library() && args[1].starts_with('C')) {
                // a panic raised INSIDE the library on a valid call of the explorer's own set-up
                // (pool construction, a default run) escaped the per-step guards: that is a
                // finding about the library, not a failure of the machinery
                let ctx = Ctx::new(&args[1], tier);
                ctx.violation(&format!("panic|{}", p.site_key()), &format!("the library panicked outside a guarded step (explorer set-up): {} at {}:{}", p.message, p.file, p.line), serde_json::json!({"kind":"escaped_panic","message":p.message,"file":p.file,"line":p.line}));
                if std::env::var("MCX_CHILD").is_ok() {
                    // the chk-build child of C17 reports to its parent
                    ctx.finish_child()
                } else {
                    ctx.finish(serde_json::json!({"exhaustive": false, "bounds": "aborted by a library panic during set-up"}), vec!["the exploration did not run to completion".into()])
                }
            } else {
                eprintln!("machinery error: the check itself panicked");
                2
            }
        }
    };
    std::process::exit(code);
}

fn dispatch(args: &[String], tier: common::Tier) -> i32 {
    match args[1].as_str() {
        "selftest" => match refhash::self_test() {
            Ok(n) => {
                println!("refhash self-test: {n} vectors ok");
                0
            }
            Err(e) => {
                eprintln!("machinery error: refhash self-test failed: {e}");
                2
            }
        },
        "replay" => {
            if args.len() < 3 {
                eprintln!("usage: mcx replay <path>");
                2
            } else {
                replay::run(&args[2])
            }
        }
        "C16" => c16::run(&Ctx::new("C16", tier)),
        "C11" => c11::run(&Ctx::new("C11", tier).reduced().with_filter(|k| k.contains("roundtrip") || k.contains("wrapper") || k.starts_with("panic|"))),
        "C12" => c12::run(&Ctx::new("C12", tier).reduced().with_filter(|k| k.contains(".image.") || k.contains(".size.") || k.starts_with("panic|"))),
        "C13" => c13::run(&Ctx::new("C13", tier)),
        "worker" => e4::worker_main(&c14::run_entry),
        "cpc-craft" => {
            // debugging aid: re-encode the table section of a sketch of `count` diagonal pairs
            let lg_k: u8 = args.get(2).and_then(|s| s.parse().ok()).unwrap_or(4);
            let count: usize = args.get(3).and_then(|s| s.parse().ok()).unwrap_or(100);
            let row: u32 = args.get(4).and_then(|s| s.parse().ok()).unwrap_or(0);
            let col: u8 = args.get(5).and_then(|s| s.parse().ok()).unwrap_or(56);
            let runs = c05::default_runs(lg_k);
            let d = cpcm::Duo::from_pairs(lg_k, &runs[3].1[..count]);
            let img = d.s.serialize();
            let p = obs::cpc_preamble(&img).unwrap();
            println!("preamble {:?}", p);
            let stream = spec_cpc::encode_pairs(&[(row, col)], lg_k).unwrap();
            let has_w = p.flags & 16 != 0;
            let len_off = if has_w { 16 + if p.flags & 4 != 0 { 16 } else { 0 } } else { 12 };
            let mut b = img[..p.sv_off].to_vec();
            if has_w { b[12..16].copy_from_slice(&1u32.to_le_bytes()); } else { b[8..12].copy_from_slice(&1u32.to_le_bytes()); }
            b[len_off..len_off + 4].copy_from_slice(&((stream.len() / 4) as u32).to_le_bytes());
            b.extend_from_slice(&stream);
            println!("image {}", common::hex(&b));
            let r = common::catch(|| datasketches::cpc::CpcSketch::deserialize(&b).map(|s| s.num_coupons()));
            println!("{:?}", r.map_err(|p| p.message));
            0
        }
        "c05-time" => {
            c05::time_runs(&Ctx::new("C05", tier), args.get(2).and_then(|s| s.parse().ok()).unwrap_or(10));
            0
        }
        "C14" => c14::run(&Ctx::new("C14", tier)),
        "C17" => c17::run(&Ctx::new("C17", tier).reduced().with_filter(c17::filter())),
        "C08" => c08::run(&Ctx::new("C08", tier)),
        "C09" => c09::run(&Ctx::new("C09", tier)),
        "C18" => c18::run(&Ctx::new("C18", tier).reduced().with_filter(|k| k.contains(".size") || k.starts_with("panic|") || k.starts_with("fi.capacity") || k.starts_with("theta.trim"))),
        "C01" => c01::run(&Ctx::new("C01", tier).reduced().with_filter(c01::filter)),
        "C07" => c07::run(&Ctx::new("C07", tier).with_filter(|k| !k.starts_with("fi.roundtrip"))),
        "C10" => c10::run(&Ctx::new("C10", tier)),
        "C15" => c15::run(&Ctx::new("C15", tier)),
        "C06" => c06::run(&Ctx::new("C06", tier).with_filter(|k| !k.contains("cpc.bounds"))),
        "C05" => c05::run(&Ctx::new("C05", tier).with_filter(|k| !k.starts_with("cpc.bounds"))),
        "C04" => c04::run(&Ctx::new("C04", tier).with_filter(|k| !k.starts_with("theta.bounds"))),
        "C03" => c03::run(&Ctx::new("C03", tier)),
        "C02" => c02::run(&Ctx::new("C02", tier).with_filter(|k| !k.starts_with("hll.bounds"))),
        other => {
            eprintln!("unknown check {other}");
            2
        }
    }
}
