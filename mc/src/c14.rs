//! C14 — malformed bytes yield an error, never a panic, abort, hang or runaway allocation.
//! Engine E4: complete enumeration of mutation operators around seed images, each case in a
//! worker subprocess under an allocation guard and a watchdog.

use crate::common::{Ctx, PanicInfo, Tier, hex};
use crate::e4::{self, Verdict};
use crate::hllm::coupon;
use crate::spec_hll::{self, EncOpts};
use crate::spec_misc::{self, FiItems, MAX_THETA};
use datasketches::bloom::{BloomFilter, BloomFilterBuilder};
use datasketches::common::NumStdDev;
use datasketches::countmin::CountMinSketch;
use datasketches::cpc::{CpcSketch, CpcUnion, CpcWrapper};
use datasketches::frequencies::{ErrorType, FrequentItemsSketch};
use datasketches::hll::{HllSketch, HllType, HllUnion};
use datasketches::tdigest::TDigestMut;
use datasketches::theta::CompactThetaSketch;
use serde_json::json;
use std::collections::{BTreeMap, BTreeSet};
use std::sync::Mutex;

pub const ENTRIES: [&str; 16] = [
    "HllSketch::deserialize",
    "CompactThetaSketch::deserialize",
    "CompactThetaSketch::deserialize_with_seed(7)",
    "CpcSketch::deserialize",
    "CpcSketch::deserialize_with_seed(7)",
    "CpcWrapper::new",
    "BloomFilter::deserialize",
    "CountMinSketch<u8>::deserialize",
    "CountMinSketch<i8>::deserialize",
    "CountMinSketch<u64>::deserialize",
    "CountMinSketch<i64>::deserialize",
    "FrequentItemsSketch<i64>::deserialize",
    "FrequentItemsSketch<u64>::deserialize",
    "FrequentItemsSketch<String>::deserialize",
    "TDigestMut::deserialize(f64)",
    "TDigestMut::deserialize(f32)",
];

const NSD: [NumStdDev; 3] = [NumStdDev::One, NumStdDev::Two, NumStdDev::Three];

fn post_hll(s: HllSketch) {
    let _ = (s.estimate(), s.is_empty(), s.lg_config_k(), s.target_type());
    for n in NSD {
        let _ = (s.lower_bound(n), s.upper_bound(n));
    }
    let mut m = s.clone();
    m.update(1u64);
    m.update("x");
    let _ = m.estimate();
    let mut u = HllUnion::new(s.lg_config_k().clamp(4, 21));
    u.update(&s);
    u.update(&s.clone());
    u.update(&HllSketch::new(8, HllType::Hll4));
    for t in [HllType::Hll4, HllType::Hll6, HllType::Hll8] {
        let r = u.to_sketch(t);
        let _ = (r.estimate(), r.serialize());
    }
    let img = s.serialize();
    let _ = HllSketch::deserialize(&img).map(|d| d.estimate());
    let _ = m.serialize();
    // merges with partners of other shapes: down-sampling union, dense partner, all result types
    {
        let mut dense = HllSketch::new(10, HllType::Hll4);
        for i in 0..3000u64 {
            dense.update(i);
        }
        for lg_max in [4u8, 7, 12] {
            for first_dense in [false, true] {
                let mut u = HllUnion::new(lg_max);
                if first_dense {
                    u.update(&dense);
                }
                u.update(&s);
                if !first_dense {
                    u.update(&dense);
                }
                u.update_value(77u64);
                for t in [HllType::Hll4, HllType::Hll6, HllType::Hll8] {
                    let r = u.to_sketch(t);
                    let _ = (r.estimate(), r.lower_bound(NumStdDev::Three), r.serialize());
                }
            }
        }
    }
    // long drive: enough distinct items for several promotions / cur_min shifts
    if s.lg_config_k() <= 10 {
        let n = (48u64 << s.lg_config_k()).min(40_000);
        for i in 0..n {
            m.update(i);
            if i & 1023 == 0 {
                let _ = m.estimate();
            }
        }
        let _ = (m.estimate(), m.upper_bound(NumStdDev::Two), m.serialize());
        let mut u = HllUnion::new(s.lg_config_k().clamp(4, 21));
        u.update(&m);
        u.update(&s);
        let _ = u.to_sketch(HllType::Hll4).serialize();
    }
}

fn post_theta(c: CompactThetaSketch) {
    let _ = (c.estimate(), c.is_empty(), c.theta(), c.theta64(), c.num_retained(), c.is_ordered(), c.is_estimation_mode(), c.seed_hash(), c.iter().count());
    for n in NSD {
        let _ = (c.lower_bound(n), c.upper_bound(n));
    }
    let a = c.serialize();
    let b = c.serialize_compressed();
    let _ = CompactThetaSketch::deserialize(&a).map(|d| d.estimate());
    let _ = CompactThetaSketch::deserialize(&b).map(|d| d.estimate());
}

fn post_cpc(s: CpcSketch, seed: u64) {
    // validate() materializes the k x 64 bit matrix: only where that is small
    let small = s.lg_k() <= 16;
    let _ = (s.estimate(), s.is_empty(), s.lg_k(), s.num_coupons(), small && s.validate());
    for n in NSD {
        let _ = (s.lower_bound(n), s.upper_bound(n));
    }
    // A sketch cannot be updated past window offset 56, i.e. beyond ceil(59.375 K) - 1 coupons
    // (the models' precondition, see DESIGN 3a): a restored sketch that close to the end of its
    // life is only queried and re-serialized, and unions (which may OR it past the cap) are
    // limited to sketches in the first half of their life.
    let cap = crate::cpcm::max_coupons(s.lg_k()) as u64;
    let room = cap.saturating_sub(s.num_coupons() as u64);
    let mut m = s.clone();
    if room > 2 {
        m.update(1u64);
        m.update("x");
    }
    let _ = (m.estimate(), small && m.validate());
    let first_half = (s.num_coupons() as u64) < cap / 2;
    if s.lg_k() <= 16 && first_half {
        let mut u = CpcUnion::with_seed(s.lg_k(), seed);
        u.update(&s);
        u.update(&s.clone());
        u.update(&CpcSketch::with_seed(5, seed));
        let r = u.to_sketch();
        let _ = (r.estimate(), r.serialize());
    }
    let img = s.serialize();
    let _ = CpcSketch::deserialize_with_seed(&img, seed).map(|d| d.estimate());
    let _ = m.serialize();
    // unions with partners of other lg_k and flavors (both orders); a union allocates a k x 64
    // bit matrix, so the very large lg_k only get the light part of the script
    if s.lg_k() <= 16 && first_half {
        let mut big = CpcSketch::with_seed(10, seed);
        for i in 0..6000u64 {
            big.update(i);
        }
        let mut small = CpcSketch::with_seed(4, seed);
        for i in 0..40u64 {
            small.update(i);
        }
        for lg in [4u8, 10, 12] {
            for partner in [&big, &small] {
                for first in [false, true] {
                    let mut u = CpcUnion::with_seed(lg, seed);
                    if first {
                        u.update(partner);
                    }
                    u.update(&s);
                    if !first {
                        u.update(partner);
                    }
                    let r = u.to_sketch();
                    let _ = (r.estimate(), r.validate(), r.serialize());
                }
            }
        }
    }
    // long drive through the remaining flavors and several window moves
    if s.lg_k() <= 8 {
        let n = (40u64 << s.lg_k()).min(12_000);
        for i in 0..n {
            if m.num_coupons() as u64 + 2 >= cap {
                break;
            }
            m.update(i);
            if i & 511 == 0 {
                let _ = (m.estimate(), m.validate());
            }
        }
        let _ = (m.estimate(), m.validate(), m.serialize());
        if first_half && (m.num_coupons() as u64) < cap / 2 {
            let mut u = CpcUnion::with_seed(s.lg_k(), seed);
            u.update(&m);
            u.update(&s);
            let _ = u.to_sketch().serialize();
        }
    }
}

fn post_wrapper(w: CpcWrapper) {
    let _ = (w.estimate(), w.is_empty(), w.lg_k());
    for n in NSD {
        let _ = (w.lower_bound(n), w.upper_bound(n));
    }
}

fn post_bloom(f: BloomFilter) {
    let _ = (f.contains(&1u64), f.bits_used(), f.capacity(), f.is_empty(), f.num_hashes(), f.seed(), f.load_factor(), f.estimated_fpp());
    let mut g = f.clone();
    g.insert(2u64);
    let _ = g.contains_and_insert(&3u64);
    g.union(&f);
    g.intersect(&f);
    g.invert();
    let _ = g.bits_used();
    let img = g.serialize();
    let _ = BloomFilter::deserialize(&img).map(|d| d.bits_used());
    let _ = f.serialize();
    // each operation also directly on the restored filter (before anything recounts the bits)
    for first in 0..4 {
        let mut h = f.clone();
        match first {
            0 => h.invert(),
            1 => {
                h.insert(7u64);
                h.insert(8u64);
                h.invert();
            }
            2 => h.intersect(&f),
            _ => h.union(&f),
        }
        let _ = (h.bits_used(), h.load_factor(), h.estimated_fpp(), h.is_empty(), h.serialize());
    }
    let mut h = f.clone();
    h.reset();
}

macro_rules! post_cm {
    ($name:ident, $t:ty) => {
        fn $name(s: CountMinSketch<$t>) {
            let _ = (s.estimate(1u64), s.upper_bound(1u64), s.lower_bound("x"), s.total_weight(), s.is_empty(), s.num_buckets(), s.num_hashes(), s.relative_error());
            // updates and merges only within the documented range (totals that fit)
            if s.total_weight() >= 0 as $t && (s.total_weight() as i128) < (<$t>::MAX as i128) / 4 {
                let img0 = s.serialize();
                // counters are stored as 8-byte values of the counter's signedness
                let unsigned = <$t>::MIN == 0 as $t;
                let counters_small = img0.len() >= 24
                    && img0[24..].chunks(8).all(|c| {
                        let raw = u64::from_le_bytes(c.try_into().unwrap());
                        let v: i128 = if unsigned { raw as i128 } else { (raw as i64) as i128 };
                        v.abs() < (<$t>::MAX as i128) / 4
                    });
                if counters_small {
                    let mut m = s.clone();
                    m.update(1u64);
                    m.merge(&s);
                    let _ = m.estimate(1u64);
                    let _ = m.serialize();
                }
            }
            let img = s.serialize();
            let _ = CountMinSketch::<$t>::deserialize(&img).map(|d| d.total_weight());
        }
    };
}
post_cm!(post_cm_u8, u8);
post_cm!(post_cm_i8, i8);
post_cm!(post_cm_u64, u64);
post_cm!(post_cm_i64, i64);

macro_rules! post_fi {
    ($name:ident, $t:ty, $item:expr, $gen:expr) => {
        fn $name(s: FrequentItemsSketch<$t>) {
            let it: $t = $item;
            let _ = (s.estimate(&it), s.lower_bound(&it), s.upper_bound(&it), s.maximum_error(), s.total_weight(), s.is_empty(), s.num_active_items(), s.epsilon(), s.maximum_map_capacity(), s.current_map_capacity(), s.lg_max_map_size(), s.lg_cur_map_size());
            let _ = s.frequent_items(ErrorType::NoFalsePositives).len();
            let _ = s.frequent_items(ErrorType::NoFalseNegatives).len();
            // updates/merges within range: stream weights that cannot overflow u64
            if s.total_weight() < (1u64 << 61) && s.maximum_error() < (1u64 << 61) {
                let mut m = s.clone();
                m.update(it.clone());
                m.update_with_count(it.clone(), 3);
                m.merge(&s);
                let _ = m.estimate(&it);
                let _ = m.serialize();
                let mut f = FrequentItemsSketch::<$t>::new(8);
                f.merge(&s);
                let _ = f.total_weight();
                // merges with partners of other map sizes, both directions
                for sz in [8usize, 64] {
                    let mut o = FrequentItemsSketch::<$t>::new(sz);
                    for i in 0..100 {
                        o.update_with_count($gen(i % 40), 1 + (i as u64 % 5));
                    }
                    let mut a = s.clone();
                    a.merge(&o);
                    let _ = (a.maximum_error(), a.serialize());
                    o.merge(&s);
                    let _ = (o.maximum_error(), o.frequent_items(ErrorType::NoFalseNegatives).len(), o.serialize());
                }
                // long drive: enough distinct items to grow the map to its maximum and purge twice
                if s.lg_max_map_size() <= 10 {
                    let n = 3 * (1usize << s.lg_max_map_size());
                    for i in 0..n {
                        m.update_with_count($gen(i), 1 + (i as u64 % 3));
                    }
                    let _ = (m.maximum_error(), m.frequent_items(ErrorType::NoFalsePositives).len(), m.serialize());
                }
            }
            let img = s.serialize();
            let _ = FrequentItemsSketch::<$t>::deserialize(&img).map(|d| d.total_weight());
        }
    };
}
post_fi!(post_fi_i64, i64, 10i64, |i: usize| 1000 + i as i64);
post_fi!(post_fi_u64, u64, 10u64, |i: usize| 1000 + i as u64);
post_fi!(post_fi_str, String, "a".to_string(), |i: usize| format!("item{i}"));

fn post_td(mut t: TDigestMut) {
    let _ = (t.k(), t.is_empty(), t.min_value(), t.max_value(), t.total_weight());
    let _ = (t.rank(0.0), t.rank(1e9), t.quantile(0.0), t.quantile(0.5), t.quantile(1.0));
    let _ = (t.cdf(&[0.0]), t.pmf(&[0.0, 1.0]), t.cdf(&[]));
    // merges double the total weight: only within the documented range (the total fits u64)
    if t.total_weight() >= (1u64 << 62) {
        let img2 = t.serialize();
        let _ = TDigestMut::deserialize(&img2, false).map(|d| d.total_weight());
        return;
    }
    let mut m = t.clone();
    m.update(1.0);
    m.update(-1.0);
    m.merge(&t);
    let _ = (m.rank(0.5), m.quantile(0.25));
    let img = m.serialize();
    let _ = TDigestMut::deserialize(&img, false).map(|d| d.total_weight());
    let img2 = t.serialize();
    let _ = TDigestMut::deserialize(&img2, false).map(|d| d.total_weight());
    // merges with partners of other k, both directions
    for k2 in [10u16, 500] {
        let mut o = TDigestMut::new(k2);
        for i in 0..700 {
            o.update(i as f64 * 0.25 - 50.0);
        }
        let mut a = t.clone();
        a.merge(&o);
        let _ = (a.quantile(0.5), a.rank(0.0), a.serialize());
        o.merge(&t);
        let _ = (o.quantile(0.5), o.rank(0.0), o.serialize());
    }
    // long drive: several buffer flushes in both merge directions, then a merge back
    if m.total_weight() < (1u64 << 60) {
        let n = (12 * m.k() as usize).min(6000);
        for i in 0..n {
            m.update(((i * 7919) % 10007) as f64 - 5000.0);
        }
        let _ = (m.rank(0.0), m.quantile(0.5), m.cdf(&[-1.0, 1.0]), m.serialize());
        let mut m2 = t.clone();
        m2.merge(&m);
        let _ = (m2.quantile(0.99), m2.serialize());
    }
    let f = t.freeze();
    let _ = (f.rank(0.0), f.quantile(0.5), f.cdf(&[0.0]), f.pmf(&[0.0]));
    let _ = f.unfreeze();
}

pub fn run_entry(entry: usize, b: &[u8]) -> (Result<bool, PanicInfo>, Option<PanicInfo>) {
    let n = b.len();
    match entry {
        0 => e4::guarded(n, || HllSketch::deserialize(b), post_hll),
        1 => e4::guarded(n, || CompactThetaSketch::deserialize(b), post_theta),
        2 => e4::guarded(n, || CompactThetaSketch::deserialize_with_seed(b, 7), post_theta),
        3 => e4::guarded(n, || CpcSketch::deserialize(b), |s| post_cpc(s, 9001)),
        4 => e4::guarded(n, || CpcSketch::deserialize_with_seed(b, 7), |s| post_cpc(s, 7)),
        5 => e4::guarded(n, || CpcWrapper::new(b), post_wrapper),
        6 => e4::guarded(n, || BloomFilter::deserialize(b), post_bloom),
        7 => e4::guarded(n, || CountMinSketch::<u8>::deserialize(b), post_cm_u8),
        8 => e4::guarded(n, || CountMinSketch::<i8>::deserialize(b), post_cm_i8),
        9 => e4::guarded(n, || CountMinSketch::<u64>::deserialize(b), post_cm_u64),
        10 => e4::guarded(n, || CountMinSketch::<i64>::deserialize(b), post_cm_i64),
        11 => e4::guarded(n, || FrequentItemsSketch::<i64>::deserialize(b), post_fi_i64),
        12 => e4::guarded(n, || FrequentItemsSketch::<u64>::deserialize(b), post_fi_u64),
        13 => e4::guarded(n, || FrequentItemsSketch::<String>::deserialize(b), post_fi_str),
        14 => e4::guarded(n, || TDigestMut::deserialize(b, false), post_td),
        _ => e4::guarded(n, || TDigestMut::deserialize(b, true), post_td),
    }
}

// ------------------------------------------------------------------------------- seeds

#[derive(Clone)]
pub struct Field {
    pub name: &'static str,
    pub off: usize,
    pub width: usize,
}

#[derive(Clone)]
pub struct Seed {
    pub name: String,
    pub family: &'static str,
    pub entries: Vec<usize>,
    pub bytes: Vec<u8>,
    pub fields: Vec<Field>,
}

fn f(name: &'static str, off: usize, width: usize) -> Field {
    Field { name, off, width }
}

fn hll_fields(mode: u8) -> Vec<Field> {
    let mut v = vec![f("preInts", 0, 1), f("serVer", 1, 1), f("family", 2, 1), f("lgK", 3, 1), f("lgArr", 4, 1), f("flags", 5, 1), f("count|curMin", 6, 1), f("mode", 7, 1)];
    match mode {
        0 => v.push(f("coupon0", 8, 4)),
        1 => {
            v.push(f("setCount", 8, 4));
            v.push(f("coupon0", 12, 4));
        }
        _ => v.extend([f("hipAccum", 8, 8), f("kxq0", 16, 8), f("kxq1", 24, 8), f("numAtCurMin", 32, 4), f("auxCount", 36, 4), f("reg0", 40, 1)]),
    }
    v
}

pub fn seeds(tier: Tier) -> Vec<Seed> {
    let mut out = vec![];
    // ---- HLL
    let lgs: &[u8] = tier.pick(&[4u8, 8][..], &[4u8, 5, 8, 10][..]);
    for &lg_k in lgs {
        let k = 1u32 << lg_k;
        for (tn, t) in [(4u8, HllType::Hll4), (6, HllType::Hll6), (8, HllType::Hll8)] {
            let mk = |cs: &[u32]| {
                let mut s = HllSketch::new(lg_k, t);
                for &c in cs {
                    s.verif_update_with_coupon(c);
                }
                s.serialize()
            };
            let list: Vec<u32> = vec![coupon(1, 3), coupon(k + 2, 1), coupon(5 * k + 1, 7)];
            out.push(Seed { name: format!("hll/lg{lg_k}/Hll{tn}/list3/own"), family: "hll", entries: vec![0], bytes: mk(&list), fields: hll_fields(0) });
            if tn == 8 {
                out.push(Seed { name: format!("hll/lg{lg_k}/empty/own"), family: "hll", entries: vec![0], bytes: mk(&[]), fields: hll_fields(0) });
                out.push(Seed { name: format!("hll/lg{lg_k}/list3/updatable"), family: "hll", entries: vec![0], bytes: spec_hll::encode_list(lg_k, tn, &list, EncOpts { compact: false, ooo: false, lg_arr: 3, extra_flags: 0 }), fields: hll_fields(0) });
            }
            if lg_k >= 8 {
                let set: Vec<u32> = (0..12).map(|i| coupon(i * 37 + 3, 1 + (i % 6) as u8)).collect();
                out.push(Seed { name: format!("hll/lg{lg_k}/Hll{tn}/set12/own"), family: "hll", entries: vec![0], bytes: mk(&set), fields: hll_fields(1) });
                // counts at and just above a power of two: a one-field change of lgArr then makes the
                // table exactly full / over-full, which only a correct load check rejects
                for cnt in [16u32, 17] {
                    let set: Vec<u32> = (0..cnt).map(|i| coupon(i * 37 + 3, 1 + (i % 6) as u8)).collect();
                    out.push(Seed { name: format!("hll/lg{lg_k}/Hll{tn}/set{cnt}/own"), family: "hll", entries: vec![0], bytes: mk(&set), fields: hll_fields(1) });
                }
                if tn == 4 {
                    out.push(Seed { name: format!("hll/lg{lg_k}/set12/updatable"), family: "hll", entries: vec![0], bytes: spec_hll::encode_set(lg_k, tn, &set, EncOpts { compact: false, ooo: false, lg_arr: 5, extra_flags: 0 }), fields: hll_fields(1) });
                }
            }
            let mut arr: Vec<u32> = (0..k).map(|s| coupon(s, 1 + (s % 3) as u8)).collect();
            arr.extend([coupon(0, 40), coupon(1, 17)]);
            out.push(Seed { name: format!("hll/lg{lg_k}/Hll{tn}/array/own"), family: "hll", entries: vec![0], bytes: mk(&arr), fields: hll_fields(2) });
            if tn == 4 {
                let regs: Vec<u8> = (0..k).map(|s| if s < 2 { 30 } else { 1 + (s % 3) as u8 }).collect();
                let (a, b) = crate::hllm::kxq_of(&regs);
                out.push(Seed { name: format!("hll/lg{lg_k}/Hll4/array/updatable-aux-ooo"), family: "hll", entries: vec![0], bytes: spec_hll::encode_array(lg_k, 4, &regs, 1, 0.0, a, b, EncOpts { compact: false, ooo: true, lg_arr: 2, extra_flags: 0 }), fields: hll_fields(2) });
            }
        }
    }
    // ---- Theta
    let tf3 = vec![f("preLongs", 0, 1), f("serVer", 1, 1), f("family", 2, 1), f("lgNom|entryBits", 3, 1), f("lgArr|numEntriesBytes", 4, 1), f("flags", 5, 1), f("seedHash", 6, 2), f("count|theta-lo", 8, 4), f("p|theta-hi", 12, 4), f("theta|entry0", 16, 8), f("entry", 24, 8)];
    let ent = |n: u64, top: u64| -> Vec<u64> { (1..=n).map(|i| i * (top / (n + 1))).collect() };
    for (name, bytes) in [
        ("v3/empty", spec_misc::theta_encode_v3(9001, MAX_THETA, &[], true, true, false)),
        ("v3/single", spec_misc::theta_encode_v3(9001, MAX_THETA, &[12345], true, false, true)),
        ("v3/exact9", spec_misc::theta_encode_v3(9001, MAX_THETA, &ent(9, MAX_THETA - 1), true, false, false)),
        ("v3/est20", spec_misc::theta_encode_v3(9001, MAX_THETA / 2, &ent(20, MAX_THETA / 2 - 1), true, false, false)),
        ("v3/est20-unordered", spec_misc::theta_encode_v3(9001, MAX_THETA / 2, &ent(20, MAX_THETA / 2 - 1).into_iter().rev().collect::<Vec<_>>(), false, false, false)),
        ("v4/exact9", spec_misc::theta_encode_v4(9001, MAX_THETA, &ent(9, MAX_THETA - 1))),
        ("v4/est20", spec_misc::theta_encode_v4(9001, MAX_THETA / 2, &ent(20, MAX_THETA / 2 - 1))),
        ("v4/est300", spec_misc::theta_encode_v4(9001, 1 << 40, &ent(300, (1 << 40) - 1))),
        ("v1/est9", spec_misc::theta_encode_v1(MAX_THETA / 2, &ent(9, MAX_THETA / 2 - 1))),
        ("v2/exact9", spec_misc::theta_encode_v2(9001, MAX_THETA, &ent(9, MAX_THETA - 1), false)),
        ("v2/est9", spec_misc::theta_encode_v2(9001, MAX_THETA / 2, &ent(9, MAX_THETA / 2 - 1), false)),
        ("v2/empty", spec_misc::theta_encode_v2(9001, MAX_THETA, &[], true)),
    ] {
        out.push(Seed { name: format!("theta/{name}"), family: "theta", entries: vec![1, 2], bytes, fields: tf3.clone() });
    }
    out.push(Seed { name: "theta/v3/est20/seed7".into(), family: "theta", entries: vec![2], bytes: spec_misc::theta_encode_v3(7, MAX_THETA / 2, &ent(20, MAX_THETA / 2 - 1), true, false, false), fields: tf3.clone() });
    // ---- CPC
    let cf: Vec<Field> = vec![f("preInts", 0, 1), f("serVer", 1, 1), f("family", 2, 1), f("lgK", 3, 1), f("fiCol", 4, 1), f("flags", 5, 1), f("seedHash", 6, 2), f("numCoupons", 8, 4), f("int@12", 12, 4), f("int@16", 16, 4), f("int@20", 20, 4), f("int@24", 24, 4), f("int@28", 28, 4), f("int@32", 32, 4), f("int@36", 36, 4), f("word@40", 40, 4), f("word@44", 44, 4)];
    for &lg_k in tier.pick(&[4u8, 8][..], &[4u8, 5, 8, 11][..]) {
        let runs = crate::c05::default_runs(lg_k);
        for (fname, c) in [("Empty", 0u32), ("Sparse", 2), ("Hybrid", crate::c06_counts(lg_k, 2)), ("Pinned", crate::c06_counts(lg_k, 3)), ("Sliding", crate::c06_counts(lg_k, 4))] {
            let d = crate::cpcm::Duo::from_pairs(lg_k, &runs[3].1[..c as usize]);
            out.push(Seed { name: format!("cpc/lg{lg_k}/{fname}/hip"), family: "cpc", entries: vec![3, 5], bytes: d.s.serialize(), fields: cf.clone() });
            if c > 0 {
                let mut u = CpcUnion::new(lg_k);
                u.update(&d.s);
                out.push(Seed { name: format!("cpc/lg{lg_k}/{fname}/merged"), family: "cpc", entries: vec![3, 5], bytes: u.to_sketch().serialize(), fields: cf.clone() });
            }
        }
        // hashed-item sketches: unlike the crafted orders they have surprising-value TABLES next
        // to the window (Pinned and Sliding images with both sections)
        for (fname, c) in [("Pinned+table", crate::c06_counts(lg_k, 3)), ("Sliding+table", crate::c06_counts(lg_k, 4) + (3u32 << lg_k))] {
            let mut hs = CpcSketch::new(lg_k);
            let mut i = 0u64;
            while hs.num_coupons() < c && i < 1 << 24 {
                hs.update(i);
                i += 1;
            }
            let img = hs.serialize();
            if crate::obs::cpc_preamble(&img).map(|p| p.flags & 24 == 24).unwrap_or(false) {
                out.push(Seed { name: format!("cpc/lg{lg_k}/{fname}/hip"), family: "cpc", entries: vec![3, 5], bytes: img, fields: cf.clone() });
            }
        }
        if lg_k == 4 {
            // the largest lg_k, where the last row with column 63 is the reserved value u32::MAX
            let mut big = CpcSketch::new(26);
            big.update(1u64);
            big.update(2u64);
            out.push(Seed { name: "cpc/lg26/Sparse/hip".into(), family: "cpc", entries: vec![3, 5], bytes: big.serialize(), fields: cf.clone() });
        }
        let mut s7 = CpcSketch::with_seed(lg_k, 7);
        for i in 0..(3u64 << lg_k) {
            s7.update(i);
        }
        out.push(Seed { name: format!("cpc/lg{lg_k}/seed7"), family: "cpc", entries: vec![4], bytes: s7.serialize(), fields: cf.clone() });
    }
    // ---- Bloom
    let bf = vec![f("preLongs", 0, 1), f("serVer", 1, 1), f("family", 2, 1), f("flags", 3, 1), f("numHashes", 4, 2), f("unused", 6, 2), f("seed", 8, 8), f("numLongs", 16, 4), f("unused2", 20, 4), f("numBitsSet", 24, 8), f("word0", 32, 8)];
    for (name, bits, hashes, items) in [("empty", 100u64, 3u16, 0u64), ("1word", 64, 2, 5), ("17words", 1088, 5, 40)] {
        let mut flt = BloomFilterBuilder::with_size(bits, hashes).build();
        for i in 0..items {
            flt.insert(i);
        }
        out.push(Seed { name: format!("bloom/{name}"), family: "bloom", entries: vec![6], bytes: flt.serialize(), fields: bf.clone() });
    }
    out.push(Seed { name: "bloom/dirty".into(), family: "bloom", entries: vec![6], bytes: spec_misc::bloom_encode(3, 9001, &[0xF0F0, 0x1], true), fields: bf.clone() });
    // ---- Count-Min
    let mf = vec![f("preLongs", 0, 1), f("serVer", 1, 1), f("family", 2, 1), f("flags", 3, 1), f("unused", 4, 4), f("numBuckets", 8, 4), f("numHashes", 12, 1), f("seedHash", 13, 2), f("unused8", 15, 1), f("totalWeight", 16, 8), f("counter0", 24, 8), f("counter1", 32, 8)];
    for (name, h, b, n) in [("empty-1x3", 1u8, 3u32, 0u64), ("1x3", 1, 3, 5), ("3x5", 3, 5, 20)] {
        let mut s: CountMinSketch<u8> = CountMinSketch::new(h, b);
        for i in 0..n {
            s.update(i % 7);
        }
        out.push(Seed { name: format!("cm/{name}"), family: "cm", entries: vec![7, 8, 9, 10], bytes: s.serialize(), fields: mf.clone() });
    }
    // ---- Frequent Items
    let ff = vec![f("preLongs", 0, 1), f("serVer", 1, 1), f("family", 2, 1), f("lgMaxMap", 3, 1), f("lgCurMap", 4, 1), f("flags", 5, 1), f("unused", 6, 2), f("activeItems", 8, 4), f("unused2", 12, 4), f("streamWeight", 16, 8), f("offset", 24, 8), f("count0", 32, 8), f("count1", 40, 8), f("item|len", 56, 4)];
    out.push(Seed { name: "fi/empty/spec".into(), family: "fi", entries: vec![11, 12, 13], bytes: spec_misc::fi_encode(4, 3, 0, 0, &[], &FiItems::Longs(vec![]), 4, 0), fields: ff.clone() });
    out.push(Seed { name: "fi/empty/own".into(), family: "fi", entries: vec![11, 12, 13], bytes: FrequentItemsSketch::<i64>::new(8).serialize(), fields: ff.clone() });
    {
        let mut s = FrequentItemsSketch::<i64>::new(8);
        for i in 0..5i64 {
            s.update_with_count(i - 2, (i + 1) as u64);
        }
        out.push(Seed { name: "fi/i64-5items".into(), family: "fi", entries: vec![11, 12], bytes: s.serialize(), fields: ff.clone() });
        let mut p = FrequentItemsSketch::<i64>::new(8);
        for i in 0..40i64 {
            p.update(i);
        }
        out.push(Seed { name: "fi/i64-purged".into(), family: "fi", entries: vec![11, 12], bytes: p.serialize(), fields: ff.clone() });
        let mut t = FrequentItemsSketch::<String>::new(8);
        for (i, w) in ["", "a", "é漢字🙂", "hello world"].iter().enumerate() {
            t.update_with_count(w.to_string(), (i + 1) as u64);
        }
        out.push(Seed { name: "fi/string-4items".into(), family: "fi", entries: vec![13], bytes: t.serialize(), fields: ff.clone() });
    }
    // ---- t-digest
    let df = vec![f("preLongs", 0, 1), f("serVer", 1, 1), f("family", 2, 1), f("k", 3, 2), f("flags", 5, 1), f("unused", 6, 2), f("numCentroids|value", 8, 4), f("numBuffered", 12, 4), f("min", 16, 8), f("max", 24, 8), f("mean0", 32, 8), f("weight0", 40, 8)];
    for (name, k, n) in [("empty", 100u16, 0usize), ("single", 100, 1), ("k10-50", 10, 50), ("k100-300", 100, 300), ("k10-3", 10, 3)] {
        let mut t = TDigestMut::new(k);
        for i in 0..n {
            t.update((i as f64).sin() * 100.0);
        }
        out.push(Seed { name: format!("td/{name}"), family: "td", entries: vec![14, 15], bytes: t.serialize(), fields: df.clone() });
    }
    for s in crate::c14_more::extra_seeds() {
        out.push(s);
    }
    out
}

fn boundary_values(width: usize, cur: u64) -> Vec<u64> {
    let bits = 8 * width as u32;
    let max = if bits == 64 { u64::MAX } else { (1u64 << bits) - 1 };
    let mut v: BTreeSet<u64> = [0u64, 1, 2, 3, max, max - 1, max / 2, max / 2 + 1, cur.wrapping_add(1) & max, cur.wrapping_sub(1) & max].into_iter().collect();
    for i in 0..bits {
        v.insert(1u64 << i);
    }
    if width == 8 {
        for x in [f64::NAN, f64::INFINITY, f64::NEG_INFINITY, -1.0, 1e300, -0.0, f64::MIN_POSITIVE] {
            v.insert(x.to_bits());
        }
    }
    if width == 4 {
        for x in [f32::NAN, f32::INFINITY, -1.0f32] {
            v.insert(x.to_bits() as u64);
        }
    }
    if width == 1 {
        // one-byte fields are mostly log2 sizes, modes and flags: every value
        v.extend(0..=255u64);
    }
    v.remove(&cur);
    v.into_iter().collect()
}

fn set_field(b: &mut [u8], fld: &Field, v: u64) -> bool {
    if fld.off + fld.width > b.len() {
        return false;
    }
    b[fld.off..fld.off + fld.width].copy_from_slice(&v.to_le_bytes()[..fld.width]);
    true
}

fn get_field(b: &[u8], fld: &Field) -> u64 {
    let mut x = [0u8; 8];
    if fld.off + fld.width <= b.len() {
        x[..fld.width].copy_from_slice(&b[fld.off..fld.off + fld.width]);
    }
    u64::from_le_bytes(x)
}

#[derive(Clone)]
pub struct Case {
    pub entry: usize,
    pub bytes: Vec<u8>,
    pub seed: usize,
    pub mutation: String,
    /// coarse location class used in ALLOC/HANG keys
    pub locus: String,
}

fn locus_of(seed: &Seed, off: usize) -> String {
    for fl in &seed.fields {
        if off >= fl.off && off < fl.off + fl.width {
            return format!("field {}", fl.name);
        }
    }
    "payload".to_string()
}

pub fn build_cases(ctx: &Ctx, seeds: &[Seed]) -> Vec<Case> {
    let mut cases: Vec<Case> = vec![];
    let mut counts: BTreeMap<&'static str, u64> = BTreeMap::new();
    let mut seen: std::collections::HashSet<(usize, Vec<u8>)> = std::collections::HashSet::new();
    let mut push = |cases: &mut Vec<Case>, class: &'static str, entry: usize, bytes: Vec<u8>, seed: usize, mutation: String, locus: String| {
        if seen.insert((entry, bytes.clone())) {
            *counts.entry(class).or_insert(0) += 1;
            cases.push(Case { entry, bytes, seed, mutation, locus });
        }
    };
    for (si, s) in seeds.iter().enumerate() {
        for &e in &s.entries {
            push(&mut cases, "seed unmodified", e, s.bytes.clone(), si, "unmodified".into(), "none".into());
            // M1 truncation
            for l in 0..s.bytes.len() {
                push(&mut cases, "truncation", e, s.bytes[..l].to_vec(), si, format!("truncated to {l} bytes"), "truncation".into());
            }
            // M2 extension
            for extra in 1..=8usize {
                for fill in [0u8, 0xFF] {
                    let mut b = s.bytes.clone();
                    b.extend(std::iter::repeat(fill).take(extra));
                    push(&mut cases, "extension", e, b, si, format!("extended by {extra} x {fill:#x}"), "extension".into());
                }
            }
            // M3 bit flips in the first 64 bytes
            for off in 0..s.bytes.len().min(if ctx.tier == Tier::Thorough { 2048 } else { 64 }) {
                for bit in 0..8 {
                    let mut b = s.bytes.clone();
                    b[off] ^= 1 << bit;
                    push(&mut cases, "bit flip", e, b, si, format!("bit {bit} of byte {off} flipped"), locus_of(s, off));
                }
            }
            // M4 byte substitution at every offset
            for off in 0..s.bytes.len() {
                for v in [0u8, 1, 0x7F, 0x80, 0xFF] {
                    if s.bytes[off] != v {
                        let mut b = s.bytes.clone();
                        b[off] = v;
                        push(&mut cases, "byte substitution", e, b, si, format!("byte {off} = {v:#x}"), locus_of(s, off));
                    }
                }
            }
            if ctx.tier == Tier::Thorough {
                // M4t every byte value at every offset of the first 48 bytes (the preamble)
                for off in 0..s.bytes.len().min(48) {
                    for v in 0..=255u8 {
                        if s.bytes[off] != v {
                            let mut b = s.bytes.clone();
                            b[off] = v;
                            push(&mut cases, "byte substitution", e, b, si, format!("byte {off} = {v:#x}"), locus_of(s, off));
                        }
                    }
                }
                // M5t named-field boundary value combined with every truncation (images <= 160 bytes)
                if s.bytes.len() <= 160 {
                    for fl in &s.fields {
                        if fl.off + fl.width > s.bytes.len() {
                            continue;
                        }
                        let bits = 8 * fl.width as u32;
                        let max = if bits == 64 { u64::MAX } else { (1u64 << bits) - 1 };
                        let cur = get_field(&s.bytes, fl);
                        for v in [0u64, 1, max, max / 2 + 1, cur.wrapping_add(1) & max, cur.wrapping_sub(1) & max, cur.wrapping_mul(2) & max] {
                            if v == cur {
                                continue;
                            }
                            let mut b = s.bytes.clone();
                            set_field(&mut b, fl, v);
                            for l in (fl.off + fl.width)..s.bytes.len() {
                                push(&mut cases, "field value + truncation", e, b[..l].to_vec(), si, format!("{} = {v:#x}, truncated to {l} bytes", fl.name), format!("field {}", fl.name));
                            }
                        }
                    }
                }
            }
            // M5 named fields x boundary values
            for fl in &s.fields {
                if fl.off + fl.width > s.bytes.len() {
                    continue;
                }
                for v in boundary_values(fl.width, get_field(&s.bytes, fl)) {
                    let mut b = s.bytes.clone();
                    set_field(&mut b, fl, v);
                    push(&mut cases, "field boundary value", e, b, si, format!("{} = {v:#x}", fl.name), format!("field {}", fl.name));
                }
            }
            // M6 pairs of named-field mutations (deviation bound 2)
            let pair_vals = |fl: &Field, b: &[u8]| -> Vec<u64> {
                let bits = 8 * fl.width as u32;
                let max = if bits == 64 { u64::MAX } else { (1u64 << bits) - 1 };
                let cur = get_field(b, fl);
                // one-byte fields (log2 sizes): a grid that reaches the sizes where an allocation
                // or a shift goes wrong, not only the ends
                let lg_grid: Vec<u64> = if fl.width == 4 { vec![3, 4, 5, 6, 8, 9] } else if fl.width == 1 { ctx.tier.pick(vec![2, 3, 4, 8, 20, 26, 30, 31, 32, 63, 64], (2..=34).chain([40, 48, 56, 62, 63, 64, 65, 127, 128]).collect()) } else { vec![] };
                let mut v: Vec<u64> = if ctx.tier == Tier::Thorough { vec![0, 1, 2, 3, 7, 8, max, max - 1, max / 2, max / 2 + 1, cur.wrapping_add(1) & max, cur.wrapping_sub(1) & max, cur.wrapping_mul(2) & max, 1 << (bits - 2), 1 << (bits - 1), 255 & max, 16 & max, 64 & max] } else { vec![0, max, cur.wrapping_add(1) & max] };
                v.extend(lg_grid);
                v.sort_unstable();
                v.dedup();
                v.retain(|x| *x != cur && *x <= max);
                v
            };
            let nf = s.fields.len();
            for i in 0..nf {
                for j in (i + 1)..nf {
                    let (fa, fb) = (&s.fields[i], &s.fields[j]);
                    if fa.off + fa.width > s.bytes.len() || fb.off + fb.width > s.bytes.len() {
                        continue;
                    }
                    if ctx.tier == Tier::Quick && !(i >= 3 && j < 12) {
                        continue;
                    }
                    for va in pair_vals(fa, &s.bytes) {
                        for vb in pair_vals(fb, &s.bytes) {
                            let mut b = s.bytes.clone();
                            set_field(&mut b, fa, va);
                            set_field(&mut b, fb, vb);
                            push(&mut cases, "field pair", e, b, si, format!("{} = {va:#x}, {} = {vb:#x}", fa.name, fb.name), format!("fields {}+{}", fa.name, fb.name));
                        }
                    }
                }
            }
        }
        // M9 record duplication: a trailing record overwritten by a copy of another one, exact or
        // with one bit flipped (duplicates / near-duplicates among repeated entries)
        for &e in &s.entries {
            for (w, nrec) in if ctx.tier == Tier::Thorough { [(4usize, 24usize), (8, 12)] } else { [(4usize, 8usize), (8, 4)] } {
                let len = s.bytes.len();
                if len < 8 + 2 * w {
                    continue;
                }
                let first = (len - (nrec * w).min(len - 8)) / w * w + (len % w);
                let offs: Vec<usize> = (0..nrec).map(|i| first + i * w).filter(|&o| o >= 8 && o + w <= len).collect();
                for &i in &offs {
                    for &j in &offs {
                        if i == j {
                            continue;
                        }
                        for bit in 0..=(8 * w) {
                            let mut b = s.bytes.clone();
                            let src: Vec<u8> = b[j..j + w].to_vec();
                            b[i..i + w].copy_from_slice(&src);
                            if bit < 8 * w {
                                b[i + bit / 8] ^= 1 << (bit % 8);
                            }
                            push(&mut cases, "record duplication", e, b, si, format!("{w}-byte record at {i} := record at {j}{}", if bit < 8 * w { format!(" with bit {bit} flipped") } else { String::new() }), locus_of(s, i));
                        }
                    }
                }
            }
        }
        // M10 CPC pair-stream replacement: the compressed table section is re-encoded (by the
        // harness's own encoder) so that the DECODED pairs take chosen values: every column
        // 0..=63 in the rows 0, 1, k-1, k, k+1, alone and after a pair (0, 0)
        if s.family == "cpc" {
            if let Ok(p) = crate::obs::cpc_preamble(&s.bytes) {
                let has_sv = p.flags & 8 != 0;
                let has_w = p.flags & 16 != 0;
                if has_sv && p.lg_k <= 26 {
                    let k = 1u32 << p.lg_k;
                    let hip = p.flags & 4 != 0;
                    let len_off = if has_w { 16 + if hip { 16 } else { 0 } } else { 12 };
                    let rows: Vec<u32> = [0u32, 1, k - 1, k, k + 1].into_iter().filter(|&r| r < (1 << 26) + 2).collect();
                    for &row in &rows {
                        for col in 0..=63u8 {
                            for lead in [false, true] {
                                let mut pairs: Vec<(u32, u8)> = vec![];
                                if lead {
                                    if row == 0 && col == 0 {
                                        continue;
                                    }
                                    pairs.push((0, 0));
                                }
                                pairs.push((row, col));
                                let Some(stream) = crate::spec_cpc::encode_pairs(&pairs, p.lg_k) else { continue };
                                let mut b = s.bytes[..p.sv_off].to_vec();
                                let n = pairs.len() as u32;
                                if has_w {
                                    b[12..16].copy_from_slice(&n.to_le_bytes());
                                } else {
                                    b[8..12].copy_from_slice(&n.to_le_bytes());
                                }
                                b[len_off..len_off + 4].copy_from_slice(&((stream.len() / 4) as u32).to_le_bytes());
                                b.extend_from_slice(&stream);
                                for &e in &s.entries {
                                    push(&mut cases, "cpc pair-stream replacement", e, b.clone(), si, format!("table section re-encoded as pairs {:?}", pairs), "pair stream".into());
                                }
                            }
                        }
                    }
                }
            }
        }
        // M8 cross-family: the unmodified seed to every other entry point
        for e in 0..ENTRIES.len() {
            if !s.entries.contains(&e) {
                push(&mut cases, "cross-family", e, s.bytes.clone(), si, "unmodified, foreign entry point".into(), "cross-family".into());
            }
        }
    }
    // M7 short strings to every entry point
    let families = [(7u8, 1u8), (3, 3), (3, 4), (3, 1), (3, 2), (16, 1), (21, 1), (18, 1), (10, 1), (20, 1)];
    for e in 0..ENTRIES.len() {
        push(&mut cases, "short string", e, vec![], usize::MAX, "empty input".into(), "short".into());
        for a in 0..=255u8 {
            push(&mut cases, "short string", e, vec![a], usize::MAX, "1-byte input".into(), "short".into());
        }
        if ctx.tier == Tier::Thorough {
            for a in 0..=255u8 {
                for b in 0..=255u8 {
                    push(&mut cases, "short string", e, vec![a, b], usize::MAX, "2-byte input".into(), "short".into());
                }
            }
        }
        // 3..8-byte strings: valid (preamble, version, family) then boundary bytes
        for &(fam, ver) in &families {
            for pre in [1u8, 2, 3, 4, 6, 8, 10] {
                for tail_len in 0..=5usize {
                    for fill in [0u8, 1, 0x7F, 0xFF] {
                        let mut b = vec![pre, ver, fam];
                        b.extend(std::iter::repeat(fill).take(tail_len));
                        push(&mut cases, "short string", e, b, usize::MAX, "valid (preamble,version,family) + boundary bytes".into(), "short".into());
                    }
                }
            }
        }
    }
    for (k, v) in counts {
        ctx.count(&format!("cases: {k}"), v);
    }
    cases
}

fn family_of_entry(e: usize) -> &'static str {
    match e {
        0 => "hll",
        1 | 2 => "theta",
        3 | 4 => "cpc",
        5 => "cpcwrapper",
        6 => "bloom",
        7..=10 => "cm",
        11..=13 => "fi",
        _ => "td",
    }
}

pub fn run(ctx: &Ctx) -> i32 {
    let seeds = seeds(ctx.tier);
    ctx.count("seed images", seeds.len() as u64);
    let cases = build_cases(ctx, &seeds);
    ctx.count("cases (distinct entry point x byte string)", cases.len() as u64);
    let hist: Mutex<BTreeMap<String, u64>> = Mutex::new(BTreeMap::new());
    let died = Mutex::new(vec![]);
    let sink = |c: &Case, v: &Verdict, chk: bool| {
            let name = match v {
                Verdict::Ok => "Ok",
                Verdict::Err => "Err",
                Verdict::Panic(_) => "PANIC",
                Verdict::PostPanic(_) => "PANIC after Ok",
                Verdict::Alloc(_) => "ALLOC",
                Verdict::Hang => "HANG",
                Verdict::Died(_) => "worker died",
            };
            *hist.lock().unwrap().entry(format!("{}{name}", if chk { "chk build: " } else { "" })).or_insert(0) += 1;
            // second pass (debug assertions + overflow checks): only panics are new information
            if chk && !matches!(v, Verdict::Panic(_) | Verdict::PostPanic(_) | Verdict::Died(_)) {
                return;
            }
            let b = if chk { "chk-build|" } else { "" };
            let fam = family_of_entry(c.entry);
            let seedname = if c.seed == usize::MAX { "(none)".to_string() } else { seeds[c.seed].name.clone() };
            let replay = || json!({"kind":"bytes","entry":c.entry,"entry_name":ENTRIES[c.entry],"seed":seedname,"mutation":c.mutation,"bytes_hex":hex(&c.bytes)});
            match v {
                Verdict::Ok | Verdict::Err => {}
                Verdict::Panic(p) => {
                    ctx.violation(&format!("{b}panic|{fam}|{}", p.site), &format!("{} panicked on a {}-byte input ({} / {}): {} at {}", ENTRIES[c.entry], c.bytes.len(), seedname, c.mutation, p.message, p.location), replay());
                }
                Verdict::PostPanic(p) => {
                    ctx.violation(&format!("{b}ok_then_panic|{fam}|{}", p.site), &format!("{} accepted a {}-byte input ({} / {}) but using the value panicked: {} at {}", ENTRIES[c.entry], c.bytes.len(), seedname, c.mutation, p.message, p.location), replay());
                }
                Verdict::Alloc(sz) => {
                    // an EMPTY Bloom / Count-Min image is pure configuration: the allocation is the
                    // configured table, not a length field that data should back
                    let locus = if fam == "bloom" && c.bytes.len() >= 24 && c.bytes[3] & 4 != 0 {
                        "empty image: numLongs is the configured size".to_string()
                    } else if fam == "cm" && c.bytes.len() >= 16 && c.bytes[3] & 1 != 0 {
                        "empty image: numBuckets x numHashes is the configured size".to_string()
                    } else if fam == "fi" && c.bytes.len() >= 8 && c.bytes[4] >= 16 && c.bytes[4] <= 30 && *sz as u128 >= (1u128 << c.bytes[4]) {
                        // the map the image announces (2^lgCurMapSize slots) is allocated up front,
                        // whatever the number of active items that follow
                        "lgCurMapSize is the configured map size".to_string()
                    } else {
                        c.locus.clone()
                    };
                    ctx.violation(&format!("alloc|{fam}|{locus}"), &format!("{} tried to allocate {} bytes for a {}-byte input ({} / {})", ENTRIES[c.entry], sz, c.bytes.len(), seedname, c.mutation), replay());
                }
                Verdict::Hang => {
                    ctx.violation(&format!("hang|{fam}|{}", c.locus), &format!("{} did not return within 3 s on a {}-byte input ({} / {})", ENTRIES[c.entry], c.bytes.len(), seedname, c.mutation), replay());
                }
                Verdict::Died(why) => {
                    died.lock().unwrap().push(format!("{} on {} / {}: {why}", ENTRIES[c.entry], seedname, c.mutation));
                    ctx.violation(&format!("{b}abort|{fam}|{}", c.locus), &format!("{} killed the process on a {}-byte input ({} / {}): {why}", ENTRIES[c.entry], c.bytes.len(), seedname, c.mutation), replay());
                }
            }
        };
    for chk in [false, true] {
        let r = e4::run_cases_profile(&cases, 16, chk, &|c: &Case| (c.entry, c.bytes.clone()), &|c: &Case, v: &Verdict| sink(c, v, chk));
        if let Err(e) = r {
            eprintln!("machinery error: {e}");
            return 2;
        }
        ctx.add_states(cases.len() as u64);
        ctx.add_transitions(cases.len() as u64);
    }
    let h = hist.lock().unwrap().clone();
    for (k, v) in &h {
        ctx.count(&format!("verdict: {k}"), *v);
    }
    if h.get("Ok").copied().unwrap_or(0) == 0 || h.get("Err").copied().unwrap_or(0) == 0 {
        eprintln!("machinery error: verdict histogram is degenerate: {:?}", h);
        return 2;
    }
    ctx.sample(json!({"case":{"entry":"HllSketch::deserialize","seed":"hll/lg8/Hll4/array/own","mutation":"auxCount = 0xffffffff","runs_in":"worker subprocess, single allocations > max(8 MiB, 64 x len) refused, 3 s watchdog; Ok values are then queried, updated, merged, re-serialized"}}));
    ctx.sample(json!({"case":{"entry":"CountMinSketch<u8>::deserialize","seed":"cm/3x5","mutation":"truncated to 23 bytes"}}));
    let cov = json!({
        "exhaustive": true,
        "bounds": {
            "operators": "per seed and entry point: every truncation, extension by 1..8 bytes of 0x00/0xFF, every single-bit flip in the first 64 bytes, 5 byte values at every offset, every named field x boundary values (0,1,2,3,max,max-1,max/2,max/2+1,cur+-1, every power of two, float specials), pairs of named-field mutations; each of the last eight 4-byte / four 8-byte records overwritten by a copy of another (exact and with every single bit flipped); every seed unmodified to every foreign entry point; all inputs of length <= 1 (thorough: <= 2) and valid-header short strings to every entry point",
            "post_script": "values returned as Ok are queried, re-serialized, merged with themselves, and driven with enough distinct updates for several promotions / cur_min shifts (HLL lg_k<=10), window moves (CPC lg_k<=8), map growth and two purges (FI lg_max<=10), buffer flushes in both directions (t-digest)",
            "builds": "every case runs twice: in the release build and in the chk build (debug assertions + arithmetic overflow checks); panics of the second pass are keyed chk-build|...",
            "limits": "single allocation <= max(8 MiB, 64 x input length) during deserialize (1 GiB host guard for the post-script on accepted values); 3 s per case",
        },
        "verdicts": h,
    });
    ctx.finish(
        cov,
        vec![
            "complete for the stated operators and seeds; says nothing about byte strings more than two field edits away from every seed".into(),
            "post-script updates/merges are only applied when the restored totals are within the documented range (no counter overflow)".into(),
        ],
    )
}

/// `mcx replay` support: run one byte case in-process (no guard) and describe the outcome.
pub fn replay(case: &serde_json::Value) -> String {
    let entry = case["entry"].as_u64().unwrap_or(0) as usize;
    let bytes = crate::common::unhex(case["bytes_hex"].as_str().unwrap_or(""));
    // run in a worker so that aborts and allocation refusals are observed, not suffered
    match e4::Worker::spawn() {
        Err(e) => format!("cannot spawn worker: {e}\n"),
        Ok(mut w) => {
            let (v, _) = w.run(entry, &bytes, 5000);
            match v {
                Verdict::Ok => format!("{}: Ok\n", ENTRIES[entry]),
                Verdict::Err => format!("{}: Err\n", ENTRIES[entry]),
                other => format!("{}: VIOLATES C14: {:?}\n", ENTRIES[entry], other),
            }
        }
    }
}
