//! C12 for the hook-less families: attached when those explorers are merged in.
use crate::common::Ctx;
pub fn run(_ctx: &Ctx) {}
