//! C06 — CPC union equals the OR of its inputs' bit matrices folded to the smallest lg_k.

use crate::common::{Ctx, Tier, catch};
use crate::c05;
use crate::cpcm::{self, Duo};
use crate::engine::{self, Step};
use datasketches::cpc::{CpcSketch, CpcUnion};
use rayon::prelude::*;
use serde_json::{Value, json};
use std::collections::BTreeMap;
use std::sync::Mutex;

#[derive(Clone)]
pub struct Member {
    pub label: String,
    pub sk: CpcSketch,
    pub lg_k: u8,
    pub m: Vec<u64>,
    pub recipe: Value,
}

fn fold(m: &[u64], to_lg: u8) -> Vec<u64> {
    let n = 1usize << to_lg;
    let mut out = vec![0u64; n];
    for (r, &w) in m.iter().enumerate() {
        out[r & (n - 1)] |= w;
    }
    out
}

/// Coupon counts that put a sketch of this lg_k into each flavor / window offset of interest.
fn counts(lg_k: u8) -> Vec<(&'static str, u32)> {
    let k = 1u64 << lg_k;
    let first = |f: &dyn Fn(u32) -> bool| -> u32 { (1..=cpcm::max_coupons(lg_k)).find(|&c| f(c)).unwrap() };
    let sparse_max = first(&|c| cpcm::flavor_of(lg_k, c) >= 2) - 1;
    let hybrid = first(&|c| cpcm::flavor_of(lg_k, c) == 2);
    let pinned = first(&|c| cpcm::flavor_of(lg_k, c) == 3) + (k as u32);
    let s1 = first(&|c| cpcm::correct_offset(lg_k, c) == 1);
    let s9 = first(&|c| cpcm::correct_offset(lg_k, c) == 9) + 3;
    let s40 = first(&|c| cpcm::correct_offset(lg_k, c) == 40) + (k as u32) / 2;
    let mut v = vec![("Empty", 0u32), ("Sparse(1)", 1)];
    if sparse_max > 1 {
        v.push(("Sparse(max)", sparse_max));
    }
    v.extend([("Hybrid", hybrid), ("Pinned", pinned), ("Sliding(offset 1)", s1), ("Sliding(offset 9)", s9), ("Sliding(offset 40)", s40)]);
    v
}

pub fn build_pool(lgs: &[u8]) -> Vec<Member> {
    let mut pool = vec![];
    for &lg_k in lgs {
        let runs = c05::default_runs(lg_k);
        for (fname, c) in counts(lg_k) {
            for (ri, rname) in [(0usize, "colmajor"), (3, "diagonal"), (2, "highcols"), (1, "rowmajor")] {
                if c == 0 && ri != 0 {
                    continue;
                }
                // the two extra pair orders only for the small flavors (they add high columns / full rows)
                if (ri == 1 || ri == 2) && !(fname.starts_with("Sparse") || fname == "Hybrid" || fname == "Sliding(offset 9)") {
                    continue;
                }
                let pairs = &runs[ri].1[..c as usize];
                let d = Duo::from_pairs(lg_k, pairs);
                let base = Member {
                    label: format!("lg{lg_k}/{fname}/{rname}/fresh"),
                    sk: d.s.clone(),
                    lg_k,
                    m: d.r.m.clone(),
                    recipe: json!({"lg_k":lg_k,"run":ri,"count":c,"via":"fresh"}),
                };
                if ri == 0 {
                    if let Ok(Ok(x)) = catch(|| CpcSketch::deserialize(&d.s.serialize())) {
                        if x.verif_bit_matrix() == d.r.m {
                            let mut m = base.clone();
                            m.label = format!("lg{lg_k}/{fname}/{rname}/roundtrip");
                            m.sk = x;
                            m.recipe["via"] = json!("roundtrip");
                            pool.push(m);
                        }
                    }
                    if c > 0 {
                        let mut u = CpcUnion::new(lg_k);
                        u.update(&d.s);
                        let mut m = base.clone();
                        m.label = format!("lg{lg_k}/{fname}/{rname}/union-result");
                        m.sk = u.to_sketch();
                        m.recipe["via"] = json!("union_result");
                        pool.push(m);
                    }
                }
                pool.push(base);
            }
        }
    }
    pool
}

#[derive(Clone, Debug, PartialEq, Eq, Hash)]
pub enum Op {
    Update(usize),
}

#[derive(Clone)]
pub struct UState {
    pub lg_union: u8,
    pub u: CpcUnion,
    pub ref_lg: u8,
    pub ref_m: Vec<u64>,
}

impl UState {
    pub fn new(lg_union: u8) -> Self {
        UState { lg_union, u: CpcUnion::new(lg_union), ref_lg: lg_union, ref_m: vec![0; 1 << lg_union] }
    }

    /// Model precondition (as in C05): the union's result must not hold more coupons than a
    /// sketch of that lg_k can reach below a 57th window move.
    pub fn allows(&self, i: usize, pool: &[Member]) -> bool {
        let m = &pool[i];
        if m.m.iter().all(|w| *w == 0) {
            return true;
        }
        let new_lg = self.ref_lg.min(m.lg_k);
        let cur = fold(&self.ref_m, new_lg);
        let inc = fold(&m.m, new_lg);
        let c: u32 = cur.iter().zip(inc.iter()).map(|(a, b)| (a | b).count_ones()).sum();
        c <= cpcm::max_coupons(new_lg)
    }

    pub fn apply(&mut self, i: usize, pool: &[Member], edges: &mut BTreeMap<String, u64>) -> Vec<(String, String)> {
        match catch(|| self.apply_inner(i, pool, edges)) {
            Ok(v) => v,
            Err(p) => vec![(format!("panic|{}", p.site_key()), format!("update({}) or a following accessor panicked: {} at {}:{}", pool[i].label, p.message, p.file, p.line))],
        }
    }

    fn apply_inner(&mut self, i: usize, pool: &[Member], edges: &mut BTreeMap<String, u64>) -> Vec<(String, String)> {
        let m = &pool[i];
        let before_coupons = self.ref_m.iter().map(|w| w.count_ones()).sum::<u32>();
        let before_flavor = cpcm::flavor_of(self.ref_lg, before_coupons);
        let src_c: u32 = m.m.iter().map(|w| w.count_ones()).sum();
        let rel = if m.lg_k < self.ref_lg { "src<union" } else if m.lg_k == self.ref_lg { "src=union" } else { "src>union" };
        if src_c > 0 {
            let new_lg = self.ref_lg.min(m.lg_k);
            let mut cur = fold(&self.ref_m, new_lg);
            for (a, b) in cur.iter_mut().zip(fold(&m.m, new_lg)) {
                *a |= b;
            }
            self.ref_m = cur;
            self.ref_lg = new_lg;
        }
        const F: [&str; 5] = ["Empty", "Sparse", "Hybrid", "Pinned", "Sliding"];
        *edges
            .entry(format!(
                "update: union holding {} coupons-flavor <- {} source ({rel}{})",
                F[before_flavor as usize],
                F[cpcm::flavor_of(m.lg_k, src_c) as usize],
                if m.sk.verif_state().merge_flag { ", source is a union result" } else { "" }
            ))
            .or_insert(0) += 1;
        if let Err(p) = catch(|| self.u.update(&m.sk)) {
            return vec![(format!("panic|{}", p.site_key()), format!("update({}) panicked: {} at {}:{}", m.label, p.message, p.file, p.line))];
        }
        self.check()
    }

    pub fn check(&self) -> Vec<(String, String)> {
        let mut out = vec![];
        let c: u32 = self.ref_m.iter().map(|w| w.count_ones()).sum();
        if self.u.lg_k() != self.ref_lg {
            out.push(("cpcunion.lg_k".into(), format!("union lg_k {} but min(union, non-empty inputs) = {}", self.u.lg_k(), self.ref_lg)));
        }
        if self.u.num_coupons() != c {
            out.push(("cpcunion.num_coupons".into(), format!("union num_coupons {} but the OR of the folded matrices has {c} bits", self.u.num_coupons())));
        }
        let r = match catch(|| self.u.to_sketch()) {
            Ok(r) => r,
            Err(p) => {
                out.push((format!("panic|{}", p.site_key()), format!("to_sketch panicked: {} at {}:{}", p.message, p.file, p.line)));
                return out;
            }
        };
        if self.u.lg_k() == self.ref_lg {
            for (k, w) in cpcm::check_structure(&r, &self.ref_m, self.ref_lg) {
                out.push((format!("cpcunion.result.{k}"), w));
            }
        }
        let st = r.verif_state();
        if c > 0 && !st.merge_flag {
            out.push(("cpcunion.not_marked_merged".into(), "a non-empty union result is not marked as merged (HIP fields would be used)".into()));
        }
        // serialized result: no HIP section, and it reads back to the same matrix
        match catch(|| r.serialize()) {
            Err(p) => out.push((format!("panic|{}", p.site_key()), format!("serialize of the result panicked: {} at {}:{}", p.message, p.file, p.line))),
            Ok(img) => {
                if c > 0 && img.len() > 5 && img[5] & (1 << 2) != 0 {
                    out.push(("cpcunion.image_has_hip".into(), "serialized union result carries the HIP flag".into()));
                }
                match catch(|| CpcSketch::deserialize(&img)) {
                    Err(p) => out.push((format!("panic|{}", p.site_key()), format!("deserialize of the result image panicked: {} at {}:{}", p.message, p.file, p.line))),
                    Ok(Err(e)) => out.push(("cpcunion.image_unreadable".into(), format!("the result's own image is rejected: {e}"))),
                    Ok(Ok(d)) => {
                        if d.verif_bit_matrix() != self.ref_m || d.num_coupons() != c {
                            out.push(("cpcunion.image_roundtrip".into(), "deserialize(serialize(result)) has a different matrix".into()));
                        }
                        if d.estimate().to_bits() != r.estimate().to_bits() {
                            out.push(("cpcunion.image_estimate".into(), format!("estimate {} before, {} after a serialize round trip", r.estimate(), d.estimate())));
                        }
                    }
                }
            }
        }
        out
    }
}

pub fn replay_json(lg_union: u8, ops: &[usize], pool: &[Member]) -> Value {
    json!({"kind":"cpc_union_ops","lg_union":lg_union,"ops":ops.iter().map(|&i| json!({"recipe":pool[i].recipe,"label":pool[i].label})).collect::<Vec<_>>()})
}

fn member_from_recipe(r: &Value) -> Member {
    let lg_k = r["lg_k"].as_u64().unwrap() as u8;
    let ri = r["run"].as_u64().unwrap() as usize;
    let c = r["count"].as_u64().unwrap() as usize;
    let runs = c05::default_runs(lg_k);
    let d = Duo::from_pairs(lg_k, &runs[ri].1[..c]);
    let sk = match r["via"].as_str().unwrap_or("fresh") {
        "roundtrip" => CpcSketch::deserialize(&d.s.serialize()).unwrap(),
        "union_result" => {
            let mut u = CpcUnion::new(lg_k);
            u.update(&d.s);
            u.to_sketch()
        }
        _ => d.s.clone(),
    };
    Member { label: String::new(), sk, lg_k, m: d.r.m, recipe: r.clone() }
}

pub fn replay(case: &Value) -> String {
    let lg_union = case["lg_union"].as_u64().unwrap() as u8;
    let pool: Vec<Member> = case["ops"].as_array().unwrap().iter().map(|o| member_from_recipe(&o["recipe"])).collect();
    let mut s = UState::new(lg_union);
    let mut e = BTreeMap::new();
    let mut log = String::new();
    for i in 0..pool.len() {
        for (k, w) in s.apply(i, &pool, &mut e) {
            log.push_str(&format!("step {i}: VIOLATES {k}: {w}\n"));
        }
    }
    log.push_str(&format!("final: lg_k={} num_coupons={}\n", s.u.lg_k(), s.u.num_coupons()));
    log
}

fn report(ctx: &Ctx, vs: Vec<(String, String)>, lg_union: u8, ops: &[usize], pool: &[Member]) -> bool {
    let mut new = false;
    for (k, w) in vs {
        new |= k.starts_with("panic|");
        new |= ctx.violation(&k, &format!("union lg_k={lg_union}: {w}"), replay_json(lg_union, ops, pool));
    }
    new
}

pub type Observer = dyn Fn(&Ctx, &UState, &dyn Fn() -> Value) + Sync;
pub fn no_observer(_: &Ctx, _: &UState, _: &dyn Fn() -> Value) {}

pub fn explore(ctx: &Ctx, obs: &Observer) {
    let (lgs, lgus): (Vec<u8>, Vec<u8>) = match ctx.tier {
        Tier::Quick => (vec![4, 5, 6, 8], vec![4, 5, 6, 8, 10]),
        Tier::Thorough => (vec![4, 5, 6, 7, 8, 10, 12], vec![4, 5, 6, 7, 8, 10, 12, 14]),
    };
    let pool = build_pool(&lgs);
    ctx.count("pool members", pool.len() as u64);
    ctx.note(format!("pool: {}", pool.iter().map(|m| m.label.clone()).collect::<Vec<_>>().join(", ")));
    // the pool members themselves must satisfy the structural oracle (deserialized / union results)
    for (i, m) in pool.iter().enumerate() {
        let vs: Vec<_> = cpcm::check_structure(&m.sk, &m.m, m.lg_k).into_iter().map(|(k, w)| (format!("cpcunion.pool.{k}"), format!("{}: {w}", m.label))).collect();
        if !vs.is_empty() {
            report(ctx, vs, m.lg_k, &[i], &pool);
        }
    }
    let edges = Mutex::new(BTreeMap::new());
    let n = pool.len();
    let jobs: Vec<(u8, usize)> = lgus.iter().flat_map(|&l| (0..n).map(move |i| (l, i))).collect();
    jobs.par_iter().for_each(|&(lgu, i)| {
        let mut e = BTreeMap::new();
        // zero inputs: to_sketch of a fresh union
        if i == 0 {
            let s = UState::new(lgu);
            let vs = s.check();
            if !vs.is_empty() {
                report(ctx, vs, lgu, &[], &pool);
            }
        }
        let mut s0 = UState::new(lgu);
        if !s0.allows(i, &pool) {
            ctx.count("ops refused by the model precondition (coupon cap)", 1);
            return;
        }
        let vs = s0.apply(i, &pool, &mut e);
        ctx.add_transitions(1);
        ctx.add_states(1);
        if !vs.is_empty() && report(ctx, vs, lgu, &[i], &pool) {
            return;
        }
        obs(ctx, &s0, &|| replay_json(lgu, &[i], &pool));
        for j in 0..n {
            let mut s1 = s0.clone();
            if !s1.allows(j, &pool) {
                ctx.count("ops refused by the model precondition (coupon cap)", 1);
                continue;
            }
            let vs = s1.apply(j, &pool, &mut e);
            ctx.add_transitions(1);
            ctx.add_states(1);
            if !vs.is_empty() && report(ctx, vs, lgu, &[i, j], &pool) {
                continue;
            }
            obs(ctx, &s1, &|| replay_json(lgu, &[i, j], &pool));
        }
        let mut g = edges.lock().unwrap();
        for (k, v) in e {
            *g.entry(k).or_insert(0) += v;
        }
    });
    // deeper BFS over a reduced pool, merged by the reference matrix
    let lo = lgs[0];
    let hi = *lgs.last().unwrap();
    let mut reduced = vec![];
    for pat in [
        format!("lg{lo}/Sparse(1)/colmajor/fresh"),
        format!("lg{lo}/Sliding(offset 9)/diagonal/fresh"),
        format!("lg{hi}/Sparse(max)/colmajor/roundtrip"),
        format!("lg{hi}/Hybrid/diagonal/fresh"),
        format!("lg{hi}/Sparse(max)/highcols/fresh"),
        format!("lg{lo}/Hybrid/rowmajor/fresh"),
        format!("lg{hi}/Pinned/colmajor/union-result"),
        format!("lg{hi}/Sliding(offset 1)/colmajor/fresh"),
        format!("lg{}/Sliding(offset 40)/colmajor/roundtrip", lgs[1]),
        format!("lg{}/Empty/colmajor/fresh", lgs[1]),
    ] {
        if let Some(i) = pool.iter().position(|m| m.label == pat) {
            reduced.push(i);
        }
    }
    ctx.count("reduced pool size", reduced.len() as u64);
    let depth = ctx.tier.pick(5, 7);
    lgus.par_iter().for_each(|&lgu| {
        let pool = &pool;
        let reduced = &reduced;
        let stats = engine::bfs(
            vec![(UState::new(lgu), vec![])],
            reduced,
            depth,
            200_000,
            |s: &UState, &i: &usize, path: &[u16]| {
                if !s.allows(i, pool) {
                    return Step::Refused;
                }
                let mut n = s.clone();
                let mut e = BTreeMap::new();
                let vs = n.apply(i, pool, &mut e);
                {
                    let mut g = edges.lock().unwrap();
                    for (k, v) in e {
                        *g.entry(k).or_insert(0) += v;
                    }
                }
                let ops = || -> Vec<usize> { path.iter().map(|&p| reduced[p as usize]).chain([i]).collect() };
                if !vs.is_empty() && report(ctx, vs, lgu, &ops(), pool) {
                    return Step::Stop;
                }
                Step::Next(n)
            },
            |s: &UState| (s.ref_lg, s.ref_m.clone()),
            |s: &UState| (s.u.lg_k(), s.u.num_coupons(), s.u.to_sketch().verif_bit_matrix()),
            |p0: &[u16], p1: &[u16]| {
                let a: Vec<usize> = p0.iter().map(|&p| reduced[p as usize]).collect();
                let b: Vec<usize> = p1.iter().map(|&p| reduced[p as usize]).collect();
                ctx.violation(
                    "cpcunion.order_dependence",
                    &format!("union lg_k={lgu}: the same inputs in two orders (or with repetition) give different results"),
                    json!({"kind":"cpc_union_two_orders","a":replay_json(lgu,&a,pool),"b":replay_json(lgu,&b,pool)}),
                );
            },
            |s: &UState, path: &[u16]| {
                obs(ctx, s, &|| replay_json(lgu, &path.iter().map(|&p| reduced[p as usize]).collect::<Vec<usize>>(), pool));
            },
        );
        ctx.add_states(stats.states);
        ctx.add_transitions(stats.transitions);
        ctx.count("E1 reduced-pool states", stats.states);
        ctx.count("E1 reduced-pool merged arrivals compared", stats.merged);
    });
    ctx.edges_merge(&edges.lock().unwrap());
}

pub fn run(ctx: &Ctx) -> i32 {
    explore(ctx, &no_observer);
    ctx.sample(json!({"depth2":{"union_lg_k":8,"ops":["update(lg4/Sliding(offset 9)/diagonal/fresh)","update(lg8/Hybrid/colmajor/roundtrip)"],"oracle":"lg_k==min; num_coupons==popcount(OR of folded matrices); to_sketch(): matrix==OR, validate, offset/flavor/first_interesting_column consistent, merged flag, image has no HIP section and round-trips"}}));
    ctx.sample(json!({"bfs":{"union_lg_k":5,"alphabet":"8 pool members spanning every flavor, both lg relations, fresh/deserialized/union-result","depth":4}}));
    let cov = json!({
        "exhaustive": true,
        "bounds": {
            "pool": "lg_k x {Empty, Sparse(1), Sparse(max), Hybrid, Pinned, Sliding offset 1/9/40} x {column-major, diagonal pair order} x {fresh, serialize round trip, previous union result}",
            "depth2": "all ordered pairs of pool members (and each single member, and zero inputs) for every union lg_k",
            "bfs": "depth 4 (quick) / 6 (thorough) over a reduced pool of 8, merged by reference matrix, to_sketch after every step",
        },
    });
    ctx.finish(
        cov,
        vec![
            "pool members are built through the row/col hook from known pair lists".into(),
            "result matrices are read through the hook CpcSketch::verif_bit_matrix".into(),
        ],
    )
}
