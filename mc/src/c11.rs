//! C11 — serialize then deserialize is lossless for every sketch family.
//! An observer on the family explorers (every visited state: queries identical, byte-identical
//! re-serialization, one-step bisimulation under updates and merges) plus exhaustive
//! compact-theta entry-set enumeration.

use crate::common::{Ctx, Tier};
use crate::obs;
use crate::thetam::MAX_THETA;
use datasketches::hll::HllType;
use datasketches::theta::ThetaSketch;
use rayon::prelude::*;
use serde_json::json;

/// Compact theta sketches with prescribed delta bit widths / lengths (DESIGN §3/C11).
pub fn theta_entry_sets(ctx: &Ctx, do_rt: bool, do_spec: bool) -> u64 {
    let mut lens: Vec<usize> = (0..=40).collect();
    lens.extend(248..=264);
    if ctx.tier == Tier::Thorough {
        lens.extend(4090..=4100);
    } else {
        lens.extend([4095, 4096, 4097]);
    }
    let jobs: Vec<(u8, usize)> = (1..=63u8).flat_map(|w| lens.iter().map(move |&l| (w, l))).collect();
    jobs.par_iter()
        .map(|&(w, len)| {
            let mut n = 0u64;
            let top = 1u64 << (w - 1);
            let ones = if w == 63 { MAX_THETA } else { (1u64 << w) - 1 };
            // delta patterns; each must keep the running sum below MAX_THETA and have width exactly w
            let mut patterns: Vec<(&str, Vec<u64>)> = vec![];
            if len == 0 {
                patterns.push(("empty", vec![]));
            } else {
                let mut p1 = vec![1u64; len];
                p1[0] = top;
                patterns.push(("top bit in the first delta, rest 1", p1));
                for j in 0..8usize.min(len) {
                    let mut p = vec![1u64; len];
                    p[j] = top;
                    if j != 0 {
                        patterns.push(("top bit only in position j", p));
                    }
                }
                let mut p = vec![1u64; len];
                p[len - 1] = top;
                patterns.push(("top bit in the last delta", p));
                patterns.push(("all ones of the width", vec![ones; len]));
                patterns.push(("all single top bit", vec![top; len]));
                patterns.push(("alternating", (0..len).map(|i| if i % 2 == 0 { (0xAAAA_AAAA_AAAA_AAAAu64 & ones) | top } else { 0x5555_5555_5555_5555u64 & ones | 1 }).collect()));
            }
            for (pname, deltas) in patterns {
                // running sum must stay < MAX_THETA
                let mut entries = Vec::with_capacity(len);
                let mut acc = 0u64;
                let mut ok = true;
                for d in &deltas {
                    match acc.checked_add(*d) {
                        Some(v) if v < MAX_THETA && v > 0 => {
                            acc = v;
                            entries.push(v);
                        }
                        _ => {
                            ok = false;
                            break;
                        }
                    }
                }
                if !ok {
                    continue;
                }
                for estimating in [false, true] {
                    // lg_k large enough to hold `len` entries without a rebuild
                    let mut s = ThetaSketch::builder().lg_k(13).sampling_probability(if estimating { 0.999 } else { 1.0 }).build();
                    let theta = s.theta64();
                    if entries.last().copied().unwrap_or(0) >= theta {
                        continue;
                    }
                    for &e in &entries {
                        s.verif_insert_hash(e);
                    }
                    for ordered in [true, false] {
                        let c = s.compact(ordered);
                        n += 1;
                        let mk = || json!({"kind":"theta_entries","width":w,"len":len,"pattern":pname,"estimating":estimating,"ordered":ordered,"entries_first":entries.iter().take(8).collect::<Vec<_>>()});
                        obs::compact_checks(ctx, &c, 9001, do_rt, do_spec, &mk);
                    }
                }
            }
            n
        })
        .sum()
}

pub fn run(ctx: &Ctx) -> i32 {
    let jobs: Vec<Box<dyn Fn() + Sync + Send>> = vec![
        // HLL
        Box::new(|| crate::c02::explore(ctx, &obs::hll_trio_c11)),
        Box::new(|| {
            crate::c03::explore(ctx, &|ctx, u, mk| {
                for t in [HllType::Hll4, HllType::Hll6, HllType::Hll8] {
                    obs::hll_roundtrip(ctx, &u.u.to_sketch(t), mk);
                }
            })
        }),
        // Theta
        Box::new(|| crate::c04::explore(ctx, &|ctx, p, mk| obs::theta_pair_obs(ctx, p, true, false, mk))),
        Box::new(|| {
            let n = theta_entry_sets(ctx, true, false);
            ctx.count("compact theta entry sets (width x length x pattern x mode x ordering)", n);
            ctx.add_states(n);
            ctx.add_transitions(2 * n);
        }),
        // CPC
        Box::new(|| crate::c05::explore(ctx, &obs::cpc_duo_c11)),
        Box::new(|| {
            crate::c06::explore(ctx, &|ctx, u, mk| {
                let r = u.u.to_sketch();
                let mut refm = crate::cpcm::RefCpc::new(u.ref_lg);
                refm.m = u.ref_m.clone();
                refm.count = u.ref_m.iter().map(|w| w.count_ones()).sum();
                obs::cpc_roundtrip(ctx, &r, &refm, mk);
            })
        }),
    ];
    jobs.par_iter().enumerate().for_each(|(i, j)| {
        let t = std::time::Instant::now();
        j();
        if std::env::var("VERIF_DEBUG").is_ok() {
            eprintln!("C11 job {i}: {:.1}s", t.elapsed().as_secs_f64());
        }
    });
    crate::c11_more::run(ctx);
    ctx.sample(json!({"hll":{"state":"lg_k=4 Hll4, cur_min=1, 4 aux entries","checks":["deserialize ok","estimate+6 bounds+emptiness bit-identical","hook dump identical","re-serialize byte-identical","8 continuation coupons give identical states","3 unions x 2 partners identical"]}}));
    ctx.sample(json!({"theta":{"width":37,"len":257,"pattern":"top bit only in position j","forms":["serialize (v3)","serialize_compressed (v4)"]}}));
    let cov = json!({
        "exhaustive": true,
        "bounds": "every state visited by the family explorers at reduced bounds (see C02..C10 evidence for the alphabets) + all compact theta entry sets with delta width 1..=63 x lengths {0..=40, 248..=264, 4095..4097 (4090..=4100 thorough)} x 12 delta patterns x exact/estimating x ordered/unordered",
    });
    ctx.finish(
        cov,
        vec![
            "bisimulation is one step deep at every state of a graph closed under the alphabet up to the bound".into(),
            "HLL/CPC continuation ops go through the add-only hooks".into(),
        ],
    )
}
