//! C12 for the hook-less families (Bloom, Count-Min, Frequent Items, t-digest).
use crate::common::Ctx;
use crate::obs;
use rayon::prelude::*;

pub fn run(ctx: &Ctx) {
    let jobs: Vec<Box<dyn Fn() + Sync + Send>> = vec![
        Box::new(|| crate::c07::explore(ctx, &obs::fi_spec)),
        Box::new(|| crate::c08::explore(ctx, &obs::cm_spec)),
        Box::new(|| crate::c09::explore(ctx, &obs::bloom_spec)),
        Box::new(|| crate::c10::explore(ctx, &obs::td_spec)),
        // u64 / String Frequent Items images against the spec decoder (keys fi.<type>.image.*)
        Box::new(|| crate::c11_more::fi_u64_and_strings(ctx)),
    ];
    jobs.par_iter().for_each(|j| j());
}
