//! Extra C14 seeds: t-digest float / reference encodings, with buffered values.
use crate::c14::{Field, Seed};
use crate::tdm::{self, Enc, TdImage};

pub fn extra_seeds() -> Vec<Seed> {
    let f = |name: &'static str, off: usize, width: usize| Field { name, off, width };
    let cents: Vec<(f64, u64)> = vec![(1.0, 1), (2.0, 3), (3.5, 2), (4.0, 1)];
    let mut out = vec![];
    let native = vec![f("preLongs", 0, 1), f("serVer", 1, 1), f("family", 2, 1), f("k", 3, 2), f("flags", 5, 1), f("unused", 6, 2), f("numCentroids|value", 8, 4), f("numBuffered", 12, 4), f("min", 16, 4), f("max", 20, 4), f("mean0", 24, 4), f("weight0", 28, 4)];
    let refd = vec![f("type", 0, 4), f("min", 4, 8), f("max", 12, 8), f("compression", 20, 8), f("count", 28, 4), f("weight0", 32, 8), f("mean0", 40, 8)];
    let reff = vec![f("type", 0, 4), f("min", 4, 8), f("max", 12, 8), f("compression", 20, 4), f("cap1", 24, 2), f("cap2", 26, 2), f("count", 28, 2), f("weight0", 30, 4), f("mean0", 34, 4)];
    for (enc, fields, entries) in [(Enc::F32, native.clone(), vec![14usize, 15]), (Enc::RefDouble, refd, vec![14, 15]), (Enc::RefFloat, reff, vec![14, 15])] {
        let img = TdImage { enc, k: 100, flags: 0, min: 1.0, max: 4.0, centroids: cents.clone(), buffered: vec![] };
        out.push(Seed { name: format!("td/{}", enc.name()), family: "td", entries, bytes: tdm::encode(&img, false), fields });
    }
    let img = TdImage { enc: Enc::F64, k: 100, flags: tdm::FLAG_REVERSE, min: 1.0, max: 4.0, centroids: cents.clone(), buffered: vec![2.5, 3.0] };
    out.push(Seed { name: "td/native f64 with buffered values, reverse flag".into(), family: "td", entries: vec![14, 15], bytes: tdm::encode(&img, false), fields: vec![f("preLongs", 0, 1), f("k", 3, 2), f("flags", 5, 1), f("numCentroids", 8, 4), f("numBuffered", 12, 4), f("min", 16, 8), f("max", 24, 8), f("mean0", 32, 8), f("weight0", 40, 8)] });
    out
}
