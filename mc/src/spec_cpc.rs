//! Independent CPC payload decompressor (placeholder until the table hook lands):
//! returns None when payload decoding is not available.

use crate::obs::CpcPreamble;

pub fn decode_matrix(_img: &[u8], _p: &CpcPreamble) -> Option<Result<Vec<u64>, String>> {
    None
}
