//! Frequent-items reference model (exact `BTreeMap<item, u64>` counts + exact stream
//! weight), the C07 oracle, an independent model of the table LAYOUT (only used to name
//! the edges that were taken: back-shift deletes, wrap-around, ...; it is cross-checked
//! against the key order of `serialize()`), and replay.
//!
//! Shared with C11/C12/C17/C18 through the observer of `c07::explore`.

use crate::common::{Ctx, catch};
use datasketches::frequencies::{ErrorType, FrequentItemValue, FrequentItemsSketch};
use serde_json::{Value, json};
use std::collections::BTreeMap;
use std::sync::atomic::{AtomicU64, Ordering};
use std::sync::{Arc, Mutex};
use std::time::{Duration, Instant};

/// Seed of the library's `MurmurHash3X64128::default()`.
pub const SEED: u64 = 9001;

// ---------------------------------------------------------------------------------------
// items

pub trait FiItem: FrequentItemValue + Ord + std::fmt::Debug + Send + Sync + 'static {
    /// Reference model of `reverse_purge_item_hash_map::hash_item`: the std `Hash` impl of the
    /// item fed to the streaming MurmurHash3 (seed 9001), first 64 bits.
    fn ref_hash(&self) -> u64;
    fn to_json(&self) -> Value;
    fn from_json(v: &Value) -> Self;
    fn kind() -> &'static str;
    /// candidate number `n` of the brute-force search for items with wanted home slots
    fn candidate(n: u64) -> Self;
    /// the `n` items at the tail of a serialized image starting at `bytes`
    fn parse_items(bytes: &[u8], n: usize) -> Option<Vec<Self>>;
}

impl FiItem for i64 {
    fn ref_hash(&self) -> u64 {
        // i64::hash -> Hasher::write_i64 -> write(&to_ne_bytes()) (little endian here)
        crate::refhash::murmur3_x64_128(&self.to_le_bytes(), SEED).0
    }
    fn to_json(&self) -> Value {
        json!(self)
    }
    fn from_json(v: &Value) -> Self {
        v.as_i64().expect("i64 item")
    }
    fn kind() -> &'static str {
        "i64"
    }
    fn candidate(n: u64) -> Self {
        n as i64
    }
    fn parse_items(bytes: &[u8], n: usize) -> Option<Vec<Self>> {
        if bytes.len() != 8 * n {
            return None;
        }
        Some((0..n).map(|i| i64::from_le_bytes(bytes[8 * i..8 * i + 8].try_into().unwrap())).collect())
    }
}

impl FiItem for String {
    fn ref_hash(&self) -> u64 {
        // str::hash -> write(bytes); write_u8(0xff)
        let mut b = self.as_bytes().to_vec();
        b.push(0xff);
        crate::refhash::murmur3_x64_128(&b, SEED).0
    }
    fn to_json(&self) -> Value {
        json!(self)
    }
    fn from_json(v: &Value) -> Self {
        v.as_str().expect("string item").to_string()
    }
    fn kind() -> &'static str {
        "string"
    }
    fn candidate(n: u64) -> Self {
        format!("k{n}")
    }
    fn parse_items(mut bytes: &[u8], n: usize) -> Option<Vec<Self>> {
        let mut out = Vec::with_capacity(n);
        for _ in 0..n {
            if bytes.len() < 4 {
                return None;
            }
            let l = u32::from_le_bytes(bytes[..4].try_into().unwrap()) as usize;
            if bytes.len() < 4 + l {
                return None;
            }
            out.push(String::from_utf8(bytes[4..4 + l].to_vec()).ok()?);
            bytes = &bytes[4 + l..];
        }
        if bytes.is_empty() { Some(out) } else { None }
    }
}

/// The adversarial item alphabet: found by brute force over `candidate(1..)` so that under the
/// reference hash the wanted home slots are hit.
#[derive(Clone, Debug)]
pub struct Alphabet<T> {
    /// 10 items; see `ALPHABET_WANT`
    pub items: Vec<T>,
    /// two items that are never offered (one inside the collision cluster)
    pub never: Vec<T>,
}

/// (mask, wanted value of hash & mask) per alphabet position. Items 0..=3 share home slot 6 of
/// the 8-table and home slot 14 of the 16-table, so the cluster they form wraps the end of the
/// array (6,7,0,1 / 14,15,0,1); item 4 lives at the last slot; 5 at slot 0 (the wrap target);
/// 6 joins the cluster in the 8-table only; 7 is isolated; 8, 9 extend the wrap zone.
pub const ALPHABET_WANT: [(u64, u64); 10] = [(15, 14), (15, 14), (15, 14), (15, 14), (15, 15), (7, 0), (15, 6), (7, 3), (7, 7), (7, 1)];
pub const NEVER_WANT: [(u64, u64); 2] = [(15, 14), (7, 4)];

/// Second alphabet: ONE long cluster. All ten items (and one never-offered item) have home slot
/// 3 of the 8-table and 11 of the 16-table, so seven of them fill 3..=7,0,1 and leave a single
/// hole; every purge then deletes through the wrap and back-shifts the whole tail.
pub const ALPHABET2_WANT: [(u64, u64); 10] = [(15, 11); 10];
pub const NEVER2_WANT: [(u64, u64); 2] = [(15, 11), (7, 2)];

pub fn choose_alphabet<T: FiItem>() -> Alphabet<T> {
    choose_alphabet_with(&ALPHABET_WANT, &NEVER_WANT, 1)
}

pub fn choose_alphabet2<T: FiItem>() -> Alphabet<T> {
    choose_alphabet_with(&ALPHABET2_WANT, &NEVER2_WANT, 1)
}

pub fn choose_alphabet_with<T: FiItem>(items: &[(u64, u64)], never: &[(u64, u64)], from: u64) -> Alphabet<T> {
    let n_items = items.len();
    let mut want: Vec<(u64, u64)> = items.to_vec();
    want.extend(never);
    let mut got: Vec<Option<T>> = (0..want.len()).map(|_| None).collect();
    let mut n = from;
    while got.iter().any(|g| g.is_none()) {
        let c = T::candidate(n);
        let h = c.ref_hash();
        if let Some(i) = (0..want.len()).find(|&i| got[i].is_none() && h & want[i].0 == want[i].1) {
            got[i] = Some(c);
        }
        n += 1;
        assert!(n < 1_000_000, "item search did not terminate");
    }
    let mut all: Vec<T> = got.into_iter().map(|g| g.unwrap()).collect();
    let never = all.split_off(n_items);
    Alphabet { items: all, never }
}

// ---------------------------------------------------------------------------------------
// edges (named transitions of the sketch state machine), contention-free counters

macro_rules! edges {
    ($($id:ident = $name:expr,)*) => {
        #[allow(non_camel_case_types, clippy::upper_case_acronyms)]
        #[derive(Clone, Copy)]
        #[repr(usize)]
        pub enum E { $($id,)* _N }
        pub const EDGE_NAMES: &[&str] = &[$($name,)*];
    };
}

edges! {
    UP_ZERO = "update with weight 0 (no-op)",
    UP_WEIGHTED = "update with weight > 1",
    UP_TRACKED = "update of a tracked item",
    UP_UNTRACKED = "update of an untracked item",
    UP_REINSERT = "update re-inserts an item that an earlier purge removed",
    RESIZE = "resize (table doubled, counters re-inserted)",
    PURGE = "purge",
    PURGE_ALL = "purge removes every counter",
    PURGE_SOME = "purge leaves survivors",
    PURGE_MEDIAN_GT1 = "purge with median > 1",
    PURGE_DROPS_NEW = "purge removes the item that triggered it",
    PURGE_AGAIN = "second or later purge in one history",
    PURGE_SAMPLED = "purge with capacity > SAMPLE_SIZE (sampled median)",
    PURGE_AFTER_RESIZE = "purge in a table that was resized (map size >= 16)",
    INS_WRAP = "insert probes past the end of the array (wrap)",
    INS_DRIFT4 = "insert with drift >= 4",
    KOPC_LAST_OCCUPIED = "keep_only_positive_counts: last slot occupied (first_probe < len-1)",
    DEL_NO_SHIFT = "hash_delete without back-shift",
    DEL_SHIFT = "hash_delete with back-shift",
    DEL_SHIFT_MULTI = "hash_delete back-shifts >= 2 entries",
    DEL_SHIFT_WRAP = "hash_delete back-shift across the end of the array (wrap)",
    DEL_SECOND_PASS = "delete in the second pass (first_probe..len) of a wrapped cluster",
    DEL_SKIP_HOME = "hash_delete leaves an entry in place because it is at/after its home",
    QUERY_ABSENT_IN_CLUSTER = "query of a never-offered item whose home slot is occupied",
    MERGE = "merge",
    MERGE_FRESH = "merge(source never updated)",
    MERGE_PURGED_EMPTY = "merge(source whose purge removed every counter)",
    MERGE_INTO_EMPTY = "merge into a sketch with no counters",
    MERGE_SRC_OFFSET = "merge(source with maximum_error > 0)",
    MERGE_DST_OFFSET = "merge into a sketch with maximum_error > 0",
    MERGE_SRC_LARGER = "merge(source with larger map size)",
    MERGE_SRC_SMALLER = "merge(source with smaller map size)",
    MERGE_PURGE = "merge with purge while replaying the source counters",
    MERGE_RESIZE = "merge with resize while replaying the source counters",
    RESET = "reset",
    SERDE_OK = "serialize round trip",
    SERDE_REJECT_FRESH = "serialize round trip: 6-byte image of a never-updated sketch rejected by deserialize",
    SERDE_REJECT_PURGED = "serialize round trip: purged-to-empty sketch writes the 6-byte empty image, rejected by deserialize",
    SERDE_EMPTY_OK = "serialize round trip of an empty image accepted",
    LAYOUT_XCHECK = "layout model cross-checked against serialize() key order",
    LAYOUT_MISMATCH = "layout model DISAGREES with serialize() key order",
    ZERO_COUNT_ACTIVE = "num_active_items exceeds the number of domain items with a positive counter",
}

pub const NE: usize = E::_N as usize;

#[repr(align(128))]
struct Shard([AtomicU64; NE]);

pub struct Edges {
    shards: Vec<Shard>,
    /// which case each worker thread is executing right now (for the hang watchdog)
    pub watch: Watch,
}

/// Describes the case a worker is executing: (kind of call, self-contained replay case).
pub type Describe = Box<dyn Fn() -> (String, Value) + Send>;

/// One slot per worker thread: when a library call never returns (the table code has several
/// unbounded probe loops), the watchdog thread can still say which case it was.
pub struct Watch {
    slots: Vec<Mutex<Option<(Instant, Describe)>>>,
}

pub struct WatchGuard<'a> {
    w: &'a Watch,
    i: usize,
}

impl Drop for WatchGuard<'_> {
    fn drop(&mut self) {
        *self.w.slots[self.i].lock().unwrap() = None;
    }
}

impl Watch {
    fn new() -> Self {
        Watch { slots: (0..64).map(|_| Mutex::new(None)).collect() }
    }
    pub fn enter(&self, d: Describe) -> WatchGuard<'_> {
        let i = rayon::current_thread_index().map(|i| i + 1).unwrap_or(0) & 63;
        *self.slots[i].lock().unwrap() = Some((Instant::now(), d));
        WatchGuard { w: self, i }
    }
    /// the oldest case in flight for longer than `limit`
    pub fn stuck(&self, limit: Duration) -> Option<(String, Value, Duration)> {
        for s in &self.slots {
            let g = s.lock().unwrap();
            if let Some((t, d)) = g.as_ref() {
                if t.elapsed() > limit {
                    let (k, v) = d();
                    return Some((k, v, t.elapsed()));
                }
            }
        }
        None
    }
}

/// How long one step (one library call + the oracle's queries) may take before it is
/// reported as non-terminating. Real steps take microseconds to a few milliseconds.
pub const HANG_LIMIT: Duration = Duration::from_secs(30);

/// Body of the watchdog thread; returns when `done` is set. A stuck case is reported as a
/// violation `hang|<call>` and the process exits with status 1 (the stuck thread cannot be stopped).
pub fn watchdog(ctx: &Ctx, ed: &Edges, done: &std::sync::atomic::AtomicBool) {
    while !done.load(Ordering::Relaxed) {
        std::thread::sleep(Duration::from_millis(200));
        if let Some((kind, case, dt)) = ed.watch.stuck(HANG_LIMIT) {
            ctx.violation(
                &format!("hang|{kind}"),
                &format!("the last step of this case has not returned after {:.0} s (non-termination inside the library or the queries that follow)", dt.as_secs_f64()),
                case,
            );
            println!("{}: run aborted: a library call does not terminate; exploration incomplete", ctx.prop);
            std::process::exit(1);
        }
    }
}

impl Default for Edges {
    fn default() -> Self {
        Edges::new()
    }
}

impl Edges {
    pub fn new() -> Self {
        Edges { shards: (0..64).map(|_| Shard(std::array::from_fn(|_| AtomicU64::new(0)))).collect(), watch: Watch::new() }
    }
    #[inline]
    pub fn hit(&self, e: E) {
        let i = rayon::current_thread_index().map(|i| i + 1).unwrap_or(0) & 63;
        self.shards[i].0[e as usize].fetch_add(1, Ordering::Relaxed);
    }
    pub fn total(&self, e: E) -> u64 {
        self.shards.iter().map(|s| s.0[e as usize].load(Ordering::Relaxed)).sum()
    }
    pub fn totals(&self) -> BTreeMap<String, u64> {
        let mut m = BTreeMap::new();
        for (i, name) in EDGE_NAMES.iter().enumerate() {
            let n: u64 = self.shards.iter().map(|s| s.0[i].load(Ordering::Relaxed)).sum();
            if n > 0 {
                m.insert(name.to_string(), n);
            }
        }
        m
    }
}

// ---------------------------------------------------------------------------------------
// layout model (independent: textbook linear probing + Knuth's deletion "algorithm R")

#[derive(Clone, Debug)]
pub struct Layout<T> {
    slots: Vec<Option<(T, u64)>>,
}

impl<T: FiItem> Layout<T> {
    pub fn new(len: usize) -> Self {
        Layout { slots: (0..len).map(|_| None).collect() }
    }
    pub fn len(&self) -> usize {
        self.slots.len()
    }
    pub fn order(&self) -> Vec<&T> {
        self.slots.iter().filter_map(|s| s.as_ref().map(|(t, _)| t)).collect()
    }
    pub fn home_occupied(&self, h: u64) -> bool {
        self.slots[(h as usize) & (self.slots.len() - 1)].is_some()
    }
    /// inserts if absent; returns (was_new, drift, wrapped)
    pub fn insert(&mut self, item: &T, h: u64) -> (bool, usize, bool) {
        let mask = self.slots.len() - 1;
        let mut p = (h as usize) & mask;
        let mut drift = 1;
        let mut wrapped = false;
        loop {
            match &self.slots[p] {
                None => {
                    self.slots[p] = Some((item.clone(), h));
                    return (true, drift, wrapped);
                }
                Some((t, _)) if t == item => return (false, drift, wrapped),
                _ => {}
            }
            if p == mask {
                wrapped = true;
            }
            p = (p + 1) & mask;
            drift += 1;
            assert!(drift <= self.slots.len(), "layout model: table full");
        }
    }
    pub fn resize(&mut self, new_len: usize) {
        let old = std::mem::replace(&mut self.slots, (0..new_len).map(|_| None).collect());
        for (t, h) in old.into_iter().flatten() {
            self.insert(&t, h);
        }
    }
    /// Knuth 6.4 algorithm R. Returns (entries moved, a move crossed the array end, an entry was skipped).
    fn delete(&mut self, mut i: usize) -> (usize, bool, bool) {
        let mask = self.slots.len() - 1;
        let (mut moved, mut wrapped, mut skipped) = (0, false, false);
        self.slots[i] = None;
        let mut j = i;
        loop {
            j = (j + 1) & mask;
            let Some((_, h)) = &self.slots[j] else { return (moved, wrapped, skipped) };
            let k = (*h as usize) & mask;
            let home_between = if i <= j { i < k && k <= j } else { i < k || k <= j };
            if home_between {
                skipped = true;
                continue;
            }
            self.slots[i] = self.slots[j].take();
            moved += 1;
            if j < i {
                wrapped = true;
            }
            i = j;
        }
    }
    /// The documented purge order: from the last empty slot, the part before it back to front,
    /// then the part from it to the end back to front.
    pub fn purge_delete(&mut self, dead: impl Fn(&T) -> bool, ed: &Edges) {
        let len = self.slots.len();
        let mut first = len - 1;
        while self.slots[first].is_some() {
            if first == 0 {
                return; // full table: cannot happen below the load factor
            }
            first -= 1;
        }
        if first < len - 1 {
            ed.hit(E::KOPC_LAST_OCCUPIED);
        }
        for (pass, range) in [(0, 0..first), (1, first..len)] {
            for p in range.rev() {
                let kill = matches!(&self.slots[p], Some((t, _)) if dead(t));
                if kill {
                    let (moved, wrapped, skipped) = self.delete(p);
                    ed.hit(if moved == 0 { E::DEL_NO_SHIFT } else { E::DEL_SHIFT });
                    if moved >= 2 {
                        ed.hit(E::DEL_SHIFT_MULTI);
                    }
                    if wrapped {
                        ed.hit(E::DEL_SHIFT_WRAP);
                    }
                    if skipped {
                        ed.hit(E::DEL_SKIP_HOME);
                    }
                    if pass == 1 && first < len - 1 {
                        ed.hit(E::DEL_SECOND_PASS);
                    }
                }
            }
        }
    }
}

// ---------------------------------------------------------------------------------------
// operations, recipes

pub enum Op<T: FiItem> {
    /// `update(item)` when the weight is 1, else `update_with_count(item, weight)`
    Up(T, u64),
    /// `merge(&source)`; the source is described by its own recipe
    Merge(Arc<Src<T>>),
    Reset,
    /// replace the sketch by `deserialize(serialize(sketch))` (skipped when deserialize fails)
    Serde,
}

impl<T: FiItem> Clone for Op<T> {
    fn clone(&self) -> Self {
        match self {
            Op::Up(t, w) => Op::Up(t.clone(), *w),
            Op::Merge(s) => Op::Merge(s.clone()),
            Op::Reset => Op::Reset,
            Op::Serde => Op::Serde,
        }
    }
}

impl<T: FiItem> std::fmt::Debug for Op<T> {
    fn fmt(&self, f: &mut std::fmt::Formatter<'_>) -> std::fmt::Result {
        match self {
            Op::Up(t, w) => write!(f, "update({t:?},{w})"),
            Op::Merge(s) => write!(f, "merge[{}]", s.name),
            Op::Reset => write!(f, "reset"),
            Op::Serde => write!(f, "serde"),
        }
    }
}

impl<T: FiItem> Op<T> {
    pub fn json(&self) -> Value {
        match self {
            Op::Up(t, w) => json!([t.to_json(), w]),
            Op::Merge(s) => json!({"merge": s.recipe_json()}),
            Op::Reset => json!("reset"),
            Op::Serde => json!("serde"),
        }
    }
}

/// A sketch described by how it is built, together with the built (sketch, reference) pair.
pub struct Src<T: FiItem> {
    pub name: String,
    pub size: usize,
    pub ops: Vec<Op<T>>,
    pub pair: Pair<T>,
}

impl<T: FiItem> Src<T> {
    pub fn recipe_json(&self) -> Value {
        json!({"size": self.size, "name": self.name, "ops": self.ops.iter().map(|o| o.json()).collect::<Vec<_>>()})
    }
}

pub fn recipe_json<T: FiItem>(size: usize, ops: &[Op<T>]) -> Value {
    json!({"kind": "fi_ops", "item_type": T::kind(), "size": size, "ops": ops.iter().map(|o| o.json()).collect::<Vec<_>>()})
}

pub type Vio = (String, String);

static SEEN_KEYS: Mutex<std::collections::BTreeSet<String>> = Mutex::new(std::collections::BTreeSet::new());

#[derive(Clone, Copy, PartialEq, Eq, Debug)]
pub enum Mode {
    /// every clause for every item of focus + every item ever offered
    Full,
    /// per-item clauses for the focus items and the touched item only, global clauses always;
    /// upgraded to Full on every purge/resize/merge/reset/serde step
    Light,
}

#[derive(Clone)]
pub struct Pair<T: FiItem> {
    pub size: usize,
    pub s: FrequentItemsSketch<T>,
    /// exact counts of everything offered (directly or through merged sources) since the last reset
    pub truth: BTreeMap<T, u64>,
    /// exact stream weight
    pub weight: u64,
    /// every sketch that contributed has the same max map size
    pub single_size: bool,
    /// model of the table layout, `None` once it cannot be tracked (after a merge)
    pub layout: Option<Layout<T>>,
    pub purges: u32,
    pub resized: bool,
}

impl<T: FiItem> Pair<T> {
    pub fn new(size: usize) -> Self {
        Pair {
            size,
            s: FrequentItemsSketch::<T>::new(size),
            truth: BTreeMap::new(),
            weight: 0,
            single_size: true,
            layout: Some(Layout::new(8)),
            purges: 0,
            resized: false,
        }
    }

    /// Key order of the real table as revealed by `serialize()`, compared with the layout model.
    fn xcheck_layout(&mut self, ed: &Edges) {
        let Some(l) = &self.layout else { return };
        let r = catch(|| self.s.serialize());
        let Ok(bytes) = r else { return };
        let real: Option<Vec<T>> = if bytes.len() == 6 {
            Some(vec![])
        } else if bytes.len() >= 32 {
            let n = u32::from_le_bytes(bytes[8..12].try_into().unwrap()) as usize;
            if bytes.len() >= 32 + 8 * n { T::parse_items(&bytes[32 + 8 * n..], n) } else { None }
        } else {
            None
        };
        ed.hit(E::LAYOUT_XCHECK);
        let same = match &real {
            Some(r) => {
                let o = l.order();
                o.len() == r.len() && o.iter().zip(r.iter()).all(|(a, b)| *a == b)
            }
            None => false,
        };
        if !same {
            ed.hit(E::LAYOUT_MISMATCH);
            self.layout = None;
        }
    }

    /// Applies one op to the real sketch and to the reference, then evaluates the oracle.
    /// `focus`: the item domain of the exploration (alphabet + never-offered items).
    pub fn apply(&mut self, op: &Op<T>, ed: &Edges, focus: &[T], mode: Mode) -> Vec<Vio> {
        let mut out: Vec<Vio> = vec![];
        let off0 = self.s.maximum_error();
        let lg0 = self.s.lg_cur_map_size();
        let w0 = self.s.total_weight();
        let mut structural = false;
        let mut touched: Option<&T> = None;
        let mut serde_step = false;
        let mut merged_purged_empty: Option<(u64, u64)> = None;
        match op {
            Op::Up(x, w) => {
                let (x, w) = (x, *w);
                touched = Some(x);
                let was = match catch(|| self.s.lower_bound(x)) {
                    Ok(v) => v,
                    Err(p) => return vec![(format!("panic|{}", p.site_key()), format!("lower_bound panicked: {} at {}:{}", p.message, p.file, p.line))],
                };
                let ever = self.truth.contains_key(x);
                if w > 0 {
                    *self.truth.entry(x.clone()).or_insert(0) += w;
                    self.weight += w;
                }
                let r = catch(|| if w == 1 { self.s.update(x.clone()) } else { self.s.update_with_count(x.clone(), w) });
                if let Err(p) = r {
                    return vec![(format!("panic|{}", p.site_key()), format!("{op:?} panicked: {} at {}:{}", p.message, p.file, p.line))];
                }
                if w == 0 {
                    ed.hit(E::UP_ZERO);
                } else {
                    if w > 1 {
                        ed.hit(E::UP_WEIGHTED);
                    }
                    ed.hit(if was > 0 { E::UP_TRACKED } else { E::UP_UNTRACKED });
                    if was == 0 && ever {
                        ed.hit(E::UP_REINSERT);
                    }
                    let h = x.ref_hash();
                    if let Some(l) = &mut self.layout {
                        let (new, drift, wrapped) = l.insert(x, h);
                        if new {
                            if wrapped {
                                ed.hit(E::INS_WRAP);
                            }
                            if drift >= 4 {
                                ed.hit(E::INS_DRIFT4);
                            }
                        }
                    }
                    let off1 = self.s.maximum_error();
                    let lg1 = self.s.lg_cur_map_size();
                    if lg1 != lg0 {
                        structural = true;
                        self.resized = true;
                        ed.hit(E::RESIZE);
                        if let Some(l) = &mut self.layout {
                            l.resize(1usize << lg1);
                        }
                    } else if off1 > off0 {
                        structural = true;
                        self.purges += 1;
                        ed.hit(E::PURGE);
                        let na = self.s.num_active_items();
                        ed.hit(if na == 0 { E::PURGE_ALL } else { E::PURGE_SOME });
                        if off1 - off0 > 1 {
                            ed.hit(E::PURGE_MEDIAN_GT1);
                        }
                        if self.purges >= 2 {
                            ed.hit(E::PURGE_AGAIN);
                        }
                        if self.size * 3 / 4 > 1024 {
                            ed.hit(E::PURGE_SAMPLED);
                        }
                        if self.size >= 16 {
                            ed.hit(E::PURGE_AFTER_RESIZE);
                        }
                        if was == 0 && self.s.lower_bound(x) == 0 {
                            ed.hit(E::PURGE_DROPS_NEW);
                        }
                        if self.layout.is_some() {
                            let s = &self.s;
                            let r = catch(|| {
                                let mut l = self.layout.clone().unwrap();
                                l.purge_delete(|t| s.lower_bound(t) == 0, ed);
                                l
                            });
                            self.layout = r.ok();
                        }
                    }
                }
            }
            Op::Merge(src) => {
                structural = true;
                let o = &src.pair;
                ed.hit(E::MERGE);
                let src_off = o.s.maximum_error();
                if o.weight == 0 {
                    ed.hit(E::MERGE_FRESH);
                } else if o.s.num_active_items() == 0 {
                    ed.hit(E::MERGE_PURGED_EMPTY);
                    merged_purged_empty = Some((o.weight, src_off));
                }
                if self.s.num_active_items() == 0 {
                    ed.hit(E::MERGE_INTO_EMPTY);
                }
                if src_off > 0 {
                    ed.hit(E::MERGE_SRC_OFFSET);
                }
                if off0 > 0 {
                    ed.hit(E::MERGE_DST_OFFSET);
                }
                if o.size > self.size {
                    ed.hit(E::MERGE_SRC_LARGER);
                } else if o.size < self.size {
                    ed.hit(E::MERGE_SRC_SMALLER);
                }
                for (k, v) in &o.truth {
                    *self.truth.entry(k.clone()).or_insert(0) += *v;
                }
                self.weight += o.weight;
                self.single_size &= o.single_size && o.size == self.size;
                let r = catch(|| self.s.merge(&o.s));
                if let Err(p) = r {
                    return vec![(format!("panic|{}", p.site_key()), format!("{op:?} panicked: {} at {}:{}", p.message, p.file, p.line))];
                }
                if self.s.maximum_error() > off0 + src_off {
                    ed.hit(E::MERGE_PURGE);
                    self.purges += 1;
                }
                if self.s.lg_cur_map_size() != lg0 {
                    ed.hit(E::MERGE_RESIZE);
                    self.resized = true;
                }
                self.layout = None;
            }
            Op::Reset => {
                structural = true;
                ed.hit(E::RESET);
                self.truth.clear();
                self.weight = 0;
                self.single_size = true;
                self.purges = 0;
                self.resized = false;
                self.layout = Some(Layout::new(8));
                if let Err(p) = catch(|| self.s.reset()) {
                    return vec![(format!("panic|{}", p.site_key()), format!("reset panicked: {}", p.message))];
                }
            }
            Op::Serde => {
                structural = true;
                serde_step = true;
                let bytes = match catch(|| self.s.serialize()) {
                    Ok(b) => b,
                    Err(p) => return vec![(format!("panic|{}", p.site_key()), format!("serialize panicked: {} at {}:{}", p.message, p.file, p.line))],
                };
                match catch(|| FrequentItemsSketch::<T>::deserialize(&bytes)) {
                    Err(p) => return vec![(format!("panic|{}", p.site_key()), format!("deserialize of own image panicked: {} at {}:{}", p.message, p.file, p.line))],
                    Ok(Err(e)) => {
                        // the sketch is kept; recorded for C11 (filtered out of C07), does not stop the execution
                        if self.weight == 0 {
                            ed.hit(E::SERDE_REJECT_FRESH);
                        } else {
                            ed.hit(E::SERDE_REJECT_PURGED);
                        }
                        out.push((
                            "fi.roundtrip.deserialize_failed".into(),
                            format!("deserialize(serialize(s)) fails for a sketch with {} counters, total weight {}: image is {} bytes: {:?}", self.s.num_active_items(), self.weight, bytes.len(), e.to_string()),
                        ));
                    }
                    Ok(Ok(d)) => {
                        ed.hit(if bytes.len() < 32 { E::SERDE_EMPTY_OK } else { E::SERDE_OK });
                        self.s = d;
                        if let Some(l) = &self.layout {
                            let mut n = Layout::new(l.len());
                            for (t, h) in l.slots.iter().flatten() {
                                n.insert(t, *h);
                            }
                            self.layout = Some(n);
                        }
                    }
                }
            }
        }
        if structural {
            self.xcheck_layout(ed);
        }
        let full = mode == Mode::Full || structural;
        let mut vs = self.check(focus, touched, full, ed);
        if !vs.is_empty() {
            if let Some((sw, so)) = merged_purged_empty {
                if self.s.total_weight() == w0 && self.s.maximum_error() == off0 {
                    // one defect, one key: the merge was a no-op although the source carried weight
                    let mut detail: Vec<String> = vs.iter().take(3).map(|(k, w)| format!("{k}: {w}")).collect();
                    if vs.len() > 3 {
                        detail.push(format!("... ({} clauses fail)", vs.len()));
                    }
                    vs = vec![(
                        "fi.merge_ignores_purged_source".into(),
                        format!(
                            "merge of a source whose purge removed every counter (total weight {sw}, maximum_error {so}) is a no-op: {}",
                            detail.join("; ")
                        ),
                    )];
                }
            } else if serde_step {
                for v in vs.iter_mut() {
                    if let Some(rest) = v.0.strip_prefix("fi.") {
                        v.0 = format!("fi.roundtrip.{rest}");
                    }
                }
            }
        }
        out.extend(vs);
        out
    }

    /// The C07 oracle on the current state.
    pub fn check(&self, focus: &[T], touched: Option<&T>, full: bool, ed: &Edges) -> Vec<Vio> {
        match catch(|| self.check_inner(focus, touched, full, ed)) {
            Ok(v) => v,
            Err(p) => vec![(format!("panic|{}", p.site_key()), format!("a query panicked: {} at {}:{}", p.message, p.file, p.line))],
        }
    }

    fn check_item(&self, x: &T, err: u64, out: &mut Vec<Vio>) -> u64 {
        let f = self.truth.get(x).copied().unwrap_or(0);
        let lb = self.s.lower_bound(x);
        let ub = self.s.upper_bound(x);
        let est = self.s.estimate(x);
        if lb > f {
            out.push(("fi.lb_above_truth".into(), format!("item {x:?}: lower_bound {lb} > true count {f} (ub {ub}, maximum_error {err})")));
        }
        if ub < f {
            out.push(("fi.ub_below_truth".into(), format!("item {x:?}: upper_bound {ub} < true count {f} (lb {lb}, maximum_error {err})")));
        }
        if ub < lb {
            out.push(("fi.ub_below_lb".into(), format!("item {x:?}: upper_bound {ub} < lower_bound {lb}")));
        } else if ub - lb > err {
            out.push(("fi.width_exceeds_max_error".into(), format!("item {x:?}: ub {ub} - lb {lb} > maximum_error {err}")));
        }
        if est != 0 && (est < lb || est > ub) {
            out.push(("fi.estimate_outside_bounds".into(), format!("item {x:?}: estimate {est} outside [{lb},{ub}]")));
        }
        lb
    }

    fn check_inner(&self, focus: &[T], touched: Option<&T>, full: bool, ed: &Edges) -> Vec<Vio> {
        let mut out: Vec<Vio> = vec![];
        let s = &self.s;
        let err = s.maximum_error();
        let tw = s.total_weight();
        let mut positive = 0usize;
        for x in focus {
            if self.check_item(x, err, &mut out) > 0 {
                positive += 1;
            }
        }
        if let Some(x) = touched {
            if !focus.contains(x) {
                self.check_item(x, err, &mut out);
            }
        }
        if full {
            for x in self.truth.keys() {
                if !focus.contains(x) && self.check_item(x, err, &mut out) > 0 {
                    positive += 1;
                }
            }
            // diagnostic only (not a clause of the property): active counters with value 0
            if s.num_active_items() > positive {
                ed.hit(E::ZERO_COUNT_ACTIVE);
            }
        }
        if tw != self.weight {
            out.push(("fi.total_weight".into(), format!("total_weight {tw} but the exact stream weight is {}", self.weight)));
        }
        // epsilon accessor is the documented 3.5 / max_map_size
        let eps = s.epsilon();
        if eps != 3.5 / self.size as f64 {
            out.push(("fi.epsilon_value".into(), format!("epsilon() {eps} but 3.5/{} = {}", self.size, 3.5 / self.size as f64)));
        }
        if self.single_size && self.size <= 1024 {
            // err <= 3.5/size * W  <=>  2*err*size <= 7*W  (exact in integers)
            let exact_bad = 2 * (err as u128) * (self.size as u128) > 7 * (self.weight as u128);
            let float_bad = err as f64 > eps * self.weight as f64;
            if exact_bad || float_bad {
                out.push((
                    "fi.max_error_exceeds_epsilon".into(),
                    format!("maximum_error {err} > epsilon {eps} * total weight {} = {}", self.weight, eps * self.weight as f64),
                ));
            }
        }
        let cap = s.maximum_map_capacity();
        if cap != self.size * 3 / 4 {
            out.push(("fi.size.capacity".into(), format!("maximum_map_capacity {cap} but 0.75*{} = {}", self.size, self.size * 3 / 4)));
        }
        if s.num_active_items() > cap {
            out.push(("fi.size.num_active".into(), format!("num_active_items {} > maximum_map_capacity {cap}", s.num_active_items())));
        }
        if s.current_map_capacity() > cap {
            out.push(("fi.size.current_capacity".into(), format!("current_map_capacity {} > maximum_map_capacity {cap}", s.current_map_capacity())));
        }
        if full {
            let maxf = self.truth.values().copied().max().unwrap_or(0);
            // Some(err) is literally the default call (frequent_items(t) == with_threshold(t, maximum_error)),
            // so it is not repeated; Some(0) exercises the documented clamp to maximum_error.
            let thresholds = [None, Some(0u64), Some(err + 1), Some(maxf)];
            for (ti, thr) in thresholds.iter().enumerate() {
                // explicit thresholds equal to an earlier one in the list add nothing
                if let Some(t) = thr {
                    if thresholds[1..ti].contains(&Some(*t)) {
                        continue;
                    }
                }
                for et in [ErrorType::NoFalsePositives, ErrorType::NoFalseNegatives] {
                    let rows = match thr {
                        None => s.frequent_items(et),
                        Some(t) => s.frequent_items_with_threshold(et, *t),
                    };
                    // documented: a threshold below maximum_error is replaced by maximum_error
                    let eff = thr.unwrap_or(err).max(err);
                    let call = match thr {
                        None => format!("frequent_items({et:?})"),
                        Some(t) => format!("frequent_items_with_threshold({et:?},{t})"),
                    };
                    let mut prev = u64::MAX;
                    for (ri, r) in rows.iter().enumerate() {
                        let f = self.truth.get(r.item()).copied().unwrap_or(0);
                        if r.estimate() > prev {
                            out.push(("fi.rows_unsorted".into(), format!("{call}: row {ri} estimate {} after {}", r.estimate(), prev)));
                        }
                        prev = r.estimate();
                        if r.lower_bound() > f || r.upper_bound() < f {
                            out.push((
                                "fi.row_bounds".into(),
                                format!("{call}: row for {:?} has [{},{}] but the true count is {f}", r.item(), r.lower_bound(), r.upper_bound()),
                            ));
                        }
                        if et == ErrorType::NoFalsePositives && f <= eff {
                            out.push((
                                "fi.nfp_false_positive".into(),
                                format!("{call}: returned {:?} whose true count {f} does not exceed the threshold {eff}", r.item()),
                            ));
                        }
                        if rows[..ri].iter().any(|q| q.item() == r.item()) {
                            out.push(("fi.rows_duplicate".into(), format!("{call}: item {:?} returned twice", r.item())));
                        }
                    }
                    if et == ErrorType::NoFalseNegatives {
                        let lookup: Option<std::collections::BTreeSet<&T>> = if rows.len() > 16 { Some(rows.iter().map(|r| r.item()).collect()) } else { None };
                        for (x, &f) in &self.truth {
                            if f > eff {
                                let present = match &lookup {
                                    Some(set) => set.contains(x),
                                    None => rows.iter().any(|r| r.item() == x),
                                };
                                if !present {
                                    out.push((
                                        "fi.nfn_false_negative".into(),
                                        format!("{call}: {x:?} with true count {f} > threshold {eff} is missing ({} rows)", rows.len()),
                                    ));
                                    break;
                                }
                            }
                        }
                    }
                }
            }
        }
        if let Some(l) = &self.layout {
            // by convention the never-offered items are the last two of focus
            for n in focus.iter().rev().take(2) {
                if !self.truth.contains_key(n) && l.home_occupied(n.ref_hash()) {
                    ed.hit(E::QUERY_ABSENT_IN_CLUSTER);
                    break;
                }
            }
        }
        out
    }
}

/// Builds a source sketch from a recipe; violations met on the way are returned.
pub fn build<T: FiItem>(name: &str, size: usize, ops: Vec<Op<T>>, ed: &Edges, focus: &[T]) -> (Arc<Src<T>>, Vec<(usize, Vio)>) {
    let mut p = Pair::<T>::new(size);
    let mut vs = vec![];
    let mut ops = ops;
    for i in 0..ops.len() {
        let hist: Vec<Op<T>> = ops[..=i].to_vec();
        let _g = ed.watch.enter(Box::new(move || ("fi.build".to_string(), recipe_json(size, &hist))));
        let before = p.clone();
        let v = p.apply(&ops[i], ed, focus, Mode::Full);
        let stop = diverged(&v);
        vs.extend(v.into_iter().map(|v| (i, v)));
        if stop {
            // sketch and reference disagree from here on: the source is the state before this op
            p = before;
            ops.truncate(i);
            break;
        }
    }
    (Arc::new(Src { name: name.to_string(), size, ops, pair: p }), vs)
}

/// Does this list of violations end the execution? (the reference and the sketch have
/// diverged, or the sketch may be broken by a panic). Only a refused empty image does not.
pub fn diverged(vs: &[Vio]) -> bool {
    vs.iter().any(|(k, _)| k != "fi.roundtrip.deserialize_failed")
}

/// Reports the violations; returns true when the execution has to stop.
pub fn report<T: FiItem>(ctx: &Ctx, vs: Vec<Vio>, size: usize, ops: &dyn Fn() -> Vec<Op<T>>) -> bool {
    if vs.is_empty() {
        return false;
    }
    let stop = diverged(&vs);
    let mut case: Option<Value> = None;
    for (k, w) in vs {
        if !(ctx.filter)(&k) {
            continue;
        }
        // Ctx keeps the first case per key; later occurrences are only counted, so the
        // (possibly long) op list is not rendered again for them
        let first = SEEN_KEYS.lock().unwrap().insert(format!("{}\u{1}{k}", ctx.prop));
        if first {
            let c = case.get_or_insert_with(|| recipe_json(size, &ops())).clone();
            ctx.violation(&k, &format!("max_map_size={size} items={}: {w}", T::kind()), c);
        } else {
            ctx.violation(&k, "", Value::Null);
        }
    }
    stop
}

// ---------------------------------------------------------------------------------------
// replay

fn ops_from_json<T: FiItem>(v: &Value, ed: &Edges, focus: &mut Vec<T>, log: &mut String, depth: usize) -> Vec<Op<T>> {
    let mut ops = vec![];
    for o in v.as_array().cloned().unwrap_or_default() {
        if o == "reset" {
            ops.push(Op::Reset);
        } else if o == "serde" {
            ops.push(Op::Serde);
        } else if let Some(m) = o.get("merge") {
            let size = m["size"].as_u64().unwrap() as usize;
            let name = m["name"].as_str().unwrap_or("source").to_string();
            let sub = ops_from_json::<T>(&m["ops"], ed, focus, log, depth + 1);
            let (src, vs) = build(&name, size, sub, ed, focus);
            for (i, (k, w)) in vs {
                log.push_str(&format!("{}in merge source [{name}] step {i}: VIOLATES {k}: {w}\n", "  ".repeat(depth + 1)));
            }
            ops.push(Op::Merge(src));
        } else if let Some(a) = o.as_array() {
            let t = T::from_json(&a[0]);
            if !focus.contains(&t) && focus.len() < 64 {
                focus.push(t.clone());
            }
            ops.push(Op::Up(t, a[1].as_u64().unwrap()));
        }
    }
    ops
}

fn replay_typed<T: FiItem>(case: &Value, progress: &Mutex<(String, Option<String>)>) {
    let ed = Edges::new();
    let size = case["size"].as_u64().unwrap() as usize;
    let alpha = choose_alphabet::<T>();
    let mut focus: Vec<T> = vec![];
    let mut pre = String::new();
    progress.lock().unwrap().1 = Some("building the merge sources".into());
    let ops = ops_from_json::<T>(&case["ops"], &ed, &mut focus, &mut pre, 0);
    progress.lock().unwrap().0.push_str(&pre);
    focus.extend(alpha.never.iter().cloned());
    let mut p = Pair::<T>::new(size);
    for (i, op) in ops.iter().enumerate() {
        progress.lock().unwrap().1 = Some(format!("step {i} {op:?}"));
        let vs = p.apply(op, &ed, &focus, Mode::Full);
        let mut g = progress.lock().unwrap();
        for (k, w) in &vs {
            g.0.push_str(&format!("step {i} {op:?}: VIOLATES {k}: {w}\n"));
        }
        if diverged(&vs) {
            g.0.push_str(&format!("(execution ends at step {i}: sketch and reference have diverged)\n"));
            break;
        }
    }
    let mut g = progress.lock().unwrap();
    g.0.push_str(&format!(
        "final: max_map_size={} active={} total_weight={} (exact {}) maximum_error={} distinct_offered={}\n",
        size,
        p.s.num_active_items(),
        p.s.total_weight(),
        p.weight,
        p.s.maximum_error(),
        p.truth.len()
    ));
    g.1 = None;
}

/// Re-executes a recorded case (`kind: "fi_ops"`) on a fresh sketch. Runs in its own thread
/// so that a non-terminating library call is reported instead of hanging the replay.
pub fn replay(case: &Value) -> String {
    let progress: Arc<Mutex<(String, Option<String>)>> = Arc::new(Mutex::new((String::new(), Some("start".into()))));
    let (pr, c) = (progress.clone(), case.clone());
    let h = std::thread::spawn(move || match c["item_type"].as_str().unwrap_or("i64") {
        "string" => replay_typed::<String>(&c, &pr),
        _ => replay_typed::<i64>(&c, &pr),
    });
    let t0 = Instant::now();
    let limit = Duration::from_secs(10);
    while !h.is_finished() && t0.elapsed() < limit {
        std::thread::sleep(Duration::from_millis(5));
    }
    let g = progress.lock().unwrap();
    let mut log = g.0.clone();
    if let Some(cur) = &g.1 {
        if !h.is_finished() {
            log.push_str(&format!("{cur}: VIOLATES hang: the call did not return within {} s\n", limit.as_secs()));
        }
    }
    log
}
