//! t-digest: independent image codec (DESIGN Appendix A), reference model (every finite
//! value offered, kept sorted), reference query formulas (the ADMISSIBILITY REFERENCE),
//! the C10 oracle, the in-process model (`Pair`, `Op`) and replay.
//!
//! About the reference formulas (`RefDigest`): they are laid out statement by statement like
//! `tdigest<T>::get_rank` / `get_quantile` of datasketches-cpp `tdigest_impl.hpp` (same early
//! returns, same tail / singleton / interpolation cases, same lower/upper-bound search).
//! In the four places where the expression matters for the property (normalisation of the
//! left tail of rank, sign of the right tail of quantile, order of the two interpolation
//! weights, check of split points) the form used here is the one of the t-digest reference
//! algorithm (MergingDigest.cdf / MergingDigest.quantile) of which the C++ code is a port;
//! it is the only form that is continuous at the centroid means (rank(m0-) = w0/2W,
//! quantile at W-idx = w_last/2 equals the last mean, interpolation at z1 = 0 gives mean[i]).
//! The reference is written from memory, not copied from a source tree (none is available
//! offline), and is itself subjected to every oracle clause before the library is.

use crate::common::{PanicInfo, catch, hex, unhex};
use datasketches::tdigest::{TDigest, TDigestMut};
use serde_json::{Value, json};
use std::collections::{BTreeMap, BTreeSet};

// ---------------------------------------------------------------------------------------
// 1. Independent codec
// ---------------------------------------------------------------------------------------

#[derive(Clone, Copy, PartialEq, Eq, Debug, Hash, PartialOrd, Ord)]
pub enum Enc {
    F64,
    F32,
    RefDouble,
    RefFloat,
}

impl Enc {
    pub const ALL: [Enc; 4] = [Enc::F64, Enc::F32, Enc::RefDouble, Enc::RefFloat];
    pub fn name(self) -> &'static str {
        match self {
            Enc::F64 => "native f64",
            Enc::F32 => "native f32",
            Enc::RefDouble => "reference double BE",
            Enc::RefFloat => "reference float BE",
        }
    }
    /// the `is_f32` argument `TDigestMut::deserialize` needs for this encoding
    pub fn is_f32(self) -> bool {
        self == Enc::F32
    }
    pub fn native(self) -> bool {
        matches!(self, Enc::F64 | Enc::F32)
    }
}

pub const FLAG_EMPTY: u8 = 1;
pub const FLAG_SINGLE: u8 = 2;
pub const FLAG_REVERSE: u8 = 4;
pub const FAMILY_TDIGEST: u8 = 20;

#[derive(Clone, Debug, PartialEq)]
pub struct TdImage {
    pub enc: Enc,
    pub k: u16,
    /// native flags byte (0 for the reference-implementation forms)
    pub flags: u8,
    pub min: f64,
    pub max: f64,
    pub centroids: Vec<(f64, u64)>,
    pub buffered: Vec<f64>,
}

impl TdImage {
    pub fn total_weight(&self) -> u64 {
        self.centroids.iter().map(|c| c.1).sum::<u64>() + self.buffered.len() as u64
    }
    pub fn reverse_merge(&self) -> bool {
        self.flags & FLAG_REVERSE != 0
    }
}

struct Rd<'a> {
    b: &'a [u8],
    p: usize,
}

impl<'a> Rd<'a> {
    fn take(&mut self, n: usize, what: &str) -> Result<&'a [u8], String> {
        if self.p + n > self.b.len() {
            return Err(format!("image ends inside {what} (offset {}, need {n}, have {})", self.p, self.b.len() - self.p));
        }
        let s = &self.b[self.p..self.p + n];
        self.p += n;
        Ok(s)
    }
    fn u8(&mut self, w: &str) -> Result<u8, String> {
        Ok(self.take(1, w)?[0])
    }
    fn u16le(&mut self, w: &str) -> Result<u16, String> {
        Ok(u16::from_le_bytes(self.take(2, w)?.try_into().unwrap()))
    }
    fn u32le(&mut self, w: &str) -> Result<u32, String> {
        Ok(u32::from_le_bytes(self.take(4, w)?.try_into().unwrap()))
    }
    fn u64le(&mut self, w: &str) -> Result<u64, String> {
        Ok(u64::from_le_bytes(self.take(8, w)?.try_into().unwrap()))
    }
    fn f64le(&mut self, w: &str) -> Result<f64, String> {
        Ok(f64::from_le_bytes(self.take(8, w)?.try_into().unwrap()))
    }
    fn f32le(&mut self, w: &str) -> Result<f32, String> {
        Ok(f32::from_le_bytes(self.take(4, w)?.try_into().unwrap()))
    }
    fn i16be(&mut self, w: &str) -> Result<i16, String> {
        Ok(i16::from_be_bytes(self.take(2, w)?.try_into().unwrap()))
    }
    fn i32be(&mut self, w: &str) -> Result<i32, String> {
        Ok(i32::from_be_bytes(self.take(4, w)?.try_into().unwrap()))
    }
    fn f64be(&mut self, w: &str) -> Result<f64, String> {
        Ok(f64::from_be_bytes(self.take(8, w)?.try_into().unwrap()))
    }
    fn f32be(&mut self, w: &str) -> Result<f32, String> {
        Ok(f32::from_be_bytes(self.take(4, w)?.try_into().unwrap()))
    }
    fn done(&self) -> Result<(), String> {
        if self.p != self.b.len() {
            return Err(format!("{} trailing bytes after the image", self.b.len() - self.p));
        }
        Ok(())
    }
}

/// Decodes a native f64 image or (auto-detected) a reference-implementation image.
pub fn decode(bytes: &[u8]) -> Result<TdImage, String> {
    decode_as(bytes, false)
}

/// `is_f32`: the native image uses (f32 mean, u32 weight) and f32 min/max/single value.
pub fn decode_as(bytes: &[u8], is_f32: bool) -> Result<TdImage, String> {
    if bytes.len() >= 3 && bytes[0] == 0 && bytes[1] == 0 && bytes[2] == 0 {
        return decode_compat(bytes);
    }
    let mut r = Rd { b: bytes, p: 0 };
    let pre = r.u8("preamble longs")?;
    let ser = r.u8("serial version")?;
    let fam = r.u8("family")?;
    if ser != 1 {
        return Err(format!("serial version {ser}, expected 1"));
    }
    if fam != FAMILY_TDIGEST {
        return Err(format!("family {fam}, expected 20"));
    }
    let k = r.u16le("k")?;
    if k < 10 {
        return Err(format!("k = {k} < 10"));
    }
    let flags = r.u8("flags")?;
    r.u16le("unused")?;
    let enc = if is_f32 { Enc::F32 } else { Enc::F64 };
    let empty = flags & FLAG_EMPTY != 0;
    let single = flags & FLAG_SINGLE != 0;
    let want_pre = if empty || single { 1 } else { 2 };
    if pre != want_pre {
        return Err(format!("preamble longs {pre}, expected {want_pre} for flags {flags:#x}"));
    }
    let rf = |r: &mut Rd, w: &str| -> Result<f64, String> { if is_f32 { Ok(r.f32le(w)? as f64) } else { r.f64le(w) } };
    if empty {
        r.done()?;
        return Ok(TdImage { enc, k, flags, min: f64::INFINITY, max: f64::NEG_INFINITY, centroids: vec![], buffered: vec![] });
    }
    if single {
        let v = rf(&mut r, "single value")?;
        r.done()?;
        if !v.is_finite() {
            return Err("single value not finite".into());
        }
        return Ok(TdImage { enc, k, flags, min: v, max: v, centroids: vec![(v, 1)], buffered: vec![] });
    }
    let nc = r.u32le("numCentroids")? as usize;
    let nb = r.u32le("numBuffered")? as usize;
    let min = rf(&mut r, "min")?;
    let max = rf(&mut r, "max")?;
    if min.is_nan() || max.is_nan() {
        return Err("min/max NaN".into());
    }
    let mut centroids = Vec::with_capacity(nc.min(1 << 20));
    for _ in 0..nc {
        let (m, w) = if is_f32 { (r.f32le("mean")? as f64, r.u32le("weight")? as u64) } else { (r.f64le("mean")?, r.u64le("weight")?) };
        if !m.is_finite() {
            return Err("centroid mean not finite".into());
        }
        if w == 0 {
            return Err("centroid weight 0".into());
        }
        centroids.push((m, w));
    }
    let mut buffered = Vec::with_capacity(nb.min(1 << 20));
    for _ in 0..nb {
        let v = rf(&mut r, "buffered value")?;
        if !v.is_finite() {
            return Err("buffered value not finite".into());
        }
        buffered.push(v);
    }
    r.done()?;
    Ok(TdImage { enc, k, flags, min, max, centroids, buffered })
}

fn decode_compat(bytes: &[u8]) -> Result<TdImage, String> {
    let mut r = Rd { b: bytes, p: 0 };
    let ty = r.i32be("type")?;
    match ty {
        1 => {
            let min = r.f64be("min")?;
            let max = r.f64be("max")?;
            let comp = r.f64be("compression")?;
            let n = r.i32be("count")?;
            if n < 0 {
                return Err("negative centroid count".into());
            }
            let mut centroids = vec![];
            for _ in 0..n {
                let w = r.f64be("weight")?;
                let m = r.f64be("mean")?;
                if !(w >= 1.0) || w.fract() != 0.0 {
                    return Err(format!("weight {w} is not a positive integer"));
                }
                if !m.is_finite() {
                    return Err("mean not finite".into());
                }
                centroids.push((m, w as u64));
            }
            r.done()?;
            if !(comp >= 10.0 && comp <= 65535.0) {
                return Err(format!("compression {comp} outside 10..=65535"));
            }
            Ok(TdImage { enc: Enc::RefDouble, k: comp as u16, flags: 0, min, max, centroids, buffered: vec![] })
        }
        2 => {
            let min = r.f64be("min")?;
            let max = r.f64be("max")?;
            let comp = r.f32be("compression")? as f64;
            r.i16be("centroid array capacity")?;
            r.i16be("buffer capacity")?;
            let n = r.i16be("count")?;
            if n < 0 {
                return Err("negative centroid count".into());
            }
            let mut centroids = vec![];
            for _ in 0..n {
                let w = r.f32be("weight")? as f64;
                let m = r.f32be("mean")? as f64;
                if !(w >= 1.0) || w.fract() != 0.0 {
                    return Err(format!("weight {w} is not a positive integer"));
                }
                if !m.is_finite() {
                    return Err("mean not finite".into());
                }
                centroids.push((m, w as u64));
            }
            r.done()?;
            if !(comp >= 10.0 && comp <= 65535.0) {
                return Err(format!("compression {comp} outside 10..=65535"));
            }
            Ok(TdImage { enc: Enc::RefFloat, k: comp as u16, flags: 0, min, max, centroids, buffered: vec![] })
        }
        t => Err(format!("unknown reference-implementation type {t}")),
    }
}

/// Encodes `img` in `img.enc`. Native forms: empty (total weight 0), single value (total
/// weight 1 and min == max == the value, unless `force_multi`), otherwise multi.
pub fn encode(img: &TdImage, force_multi: bool) -> Vec<u8> {
    let mut o = vec![];
    let total = img.total_weight();
    match img.enc {
        Enc::F64 | Enc::F32 => {
            let f32e = img.enc == Enc::F32;
            let wf = |o: &mut Vec<u8>, v: f64| {
                if f32e {
                    o.extend((v as f32).to_le_bytes())
                } else {
                    o.extend(v.to_le_bytes())
                }
            };
            let rev = img.flags & FLAG_REVERSE;
            if total == 0 {
                o.extend([1, 1, FAMILY_TDIGEST]);
                o.extend(img.k.to_le_bytes());
                o.push(FLAG_EMPTY | rev);
                o.extend([0, 0]);
                return o;
            }
            let the_value = img.centroids.first().map(|c| c.0).or(img.buffered.first().copied()).unwrap();
            if total == 1 && !force_multi && img.min == the_value && img.max == the_value {
                o.extend([1, 1, FAMILY_TDIGEST]);
                o.extend(img.k.to_le_bytes());
                o.push(FLAG_SINGLE | rev);
                o.extend([0, 0]);
                wf(&mut o, the_value);
                return o;
            }
            o.extend([2, 1, FAMILY_TDIGEST]);
            o.extend(img.k.to_le_bytes());
            o.push(rev);
            o.extend([0, 0]);
            o.extend((img.centroids.len() as u32).to_le_bytes());
            o.extend((img.buffered.len() as u32).to_le_bytes());
            wf(&mut o, img.min);
            wf(&mut o, img.max);
            for &(m, w) in &img.centroids {
                wf(&mut o, m);
                if f32e {
                    o.extend((w as u32).to_le_bytes())
                } else {
                    o.extend(w.to_le_bytes())
                }
            }
            for &v in &img.buffered {
                wf(&mut o, v);
            }
            o
        }
        Enc::RefDouble | Enc::RefFloat => {
            // buffered values have no place in these forms: they become unit centroids
            let mut cs = img.centroids.clone();
            cs.extend(img.buffered.iter().map(|&v| (v, 1u64)));
            cs.sort_by(|a, b| a.0.partial_cmp(&b.0).unwrap());
            if img.enc == Enc::RefDouble {
                o.extend(1i32.to_be_bytes());
                o.extend(img.min.to_be_bytes());
                o.extend(img.max.to_be_bytes());
                o.extend((img.k as f64).to_be_bytes());
                o.extend((cs.len() as i32).to_be_bytes());
                for (m, w) in cs {
                    o.extend((w as f64).to_be_bytes());
                    o.extend(m.to_be_bytes());
                }
            } else {
                o.extend(2i32.to_be_bytes());
                o.extend(img.min.to_be_bytes());
                o.extend(img.max.to_be_bytes());
                o.extend((img.k as f32).to_be_bytes());
                // capacities as the reference implementation derives them are irrelevant to readers
                o.extend(((2 * img.k as i32 + 10).min(i16::MAX as i32) as i16).to_be_bytes());
                o.extend(((5 * (2 * img.k as i32 + 10)).min(i16::MAX as i32) as i16).to_be_bytes());
                o.extend((cs.len() as i16).to_be_bytes());
                for (m, w) in cs {
                    o.extend((w as f32).to_be_bytes());
                    o.extend((m as f32).to_be_bytes());
                }
            }
            o
        }
    }
}

/// Decodes the two reference-implementation files shipped with the repository and checks
/// what the repository's own test asserts about them (k=100, n=10000, min 0, max 9999),
/// plus structural sanity (sorted means, exact length consumption).
pub fn codec_self_test() -> Result<String, String> {
    let mut rep = String::new();
    for (f, enc) in [("tdigest_ref_k100_n10000_double.sk", Enc::RefDouble), ("tdigest_ref_k100_n10000_float.sk", Enc::RefFloat)] {
        let p = format!("/repo/datasketches/tests/test_data/{f}");
        let b = std::fs::read(&p).map_err(|e| format!("{p}: {e}"))?;
        let img = decode(&b).map_err(|e| format!("{f}: {e}"))?;
        if img.enc != enc || img.k != 100 || img.total_weight() != 10000 || img.min != 0.0 || img.max != 9999.0 {
            return Err(format!("{f}: decoded enc {:?} k {} W {} min {} max {}", img.enc, img.k, img.total_weight(), img.min, img.max));
        }
        if img.centroids.windows(2).any(|w| w[0].0 > w[1].0) {
            return Err(format!("{f}: means not sorted"));
        }
        if encode(&img, false) != b {
            // capacities in the float form are not derivable; compare after masking them
            let mut e = encode(&img, false);
            if enc == Enc::RefFloat && e.len() == b.len() {
                e[24..28].copy_from_slice(&b[24..28]);
            }
            if e != b {
                return Err(format!("{f}: encode(decode(file)) != file"));
            }
        }
        rep.push_str(&format!("{f}: {} centroids, W=10000 ok; ", img.centroids.len()));
    }
    // encode/decode identity on a small image in all four encodings and three forms
    for enc in Enc::ALL {
        for cs in [vec![], vec![(2.0, 1u64)], vec![(0.0, 1), (1.0, 8), (3.0, 2)]] {
            let (min, max) = if cs.is_empty() { (f64::INFINITY, f64::NEG_INFINITY) } else { (cs[0].0, cs[cs.len() - 1].0) };
            let img = TdImage { enc, k: 100, flags: if enc.native() { FLAG_REVERSE } else { 0 }, min, max, centroids: cs.clone(), buffered: vec![] };
            let b = encode(&img, false);
            let d = decode_as(&b, enc.is_f32()).map_err(|e| format!("self {enc:?}: {e}"))?;
            let same = d.k == 100 && d.centroids == cs && (cs.is_empty() || (d.min == min && d.max == max)) && d.reverse_merge() == img.reverse_merge();
            if !same && !(cs.is_empty() && !enc.native()) {
                return Err(format!("codec identity failed for {enc:?} {cs:?}: {d:?}"));
            }
        }
    }
    Ok(rep)
}

// ---------------------------------------------------------------------------------------
// 2. Reference model: every finite value offered, as sorted runs (log-structured)
// ---------------------------------------------------------------------------------------

#[derive(Clone, Default, Debug)]
pub struct RefModel {
    runs: Vec<Vec<f64>>,
    pending: Vec<f64>,
    n: usize,
    min: f64,
    max: f64,
    /// sum of the values and of their magnitudes (for the weighted-mean conservation clause)
    sum: f64,
    abs_sum: f64,
}

impl RefModel {
    pub fn new() -> Self {
        RefModel { runs: vec![], pending: vec![], n: 0, min: f64::INFINITY, max: f64::NEG_INFINITY, sum: 0.0, abs_sum: 0.0 }
    }
    pub fn offer(&mut self, v: f64) {
        if v.is_finite() {
            self.pending.push(v);
            self.n += 1;
            self.sum += v;
            self.abs_sum += v.abs();
            if v < self.min {
                self.min = v;
            }
            if v > self.max {
                self.max = v;
            }
        }
    }
    pub fn absorb(&mut self, o: &RefModel) {
        for r in &o.runs {
            self.pending.extend_from_slice(r);
        }
        self.pending.extend_from_slice(&o.pending);
        self.n += o.n;
        self.sum += o.sum;
        self.abs_sum += o.abs_sum;
        if o.n > 0 {
            self.min = self.min.min(o.min);
            self.max = self.max.max(o.max);
        }
    }
    pub fn len(&self) -> usize {
        self.n
    }
    pub fn is_empty(&self) -> bool {
        self.n == 0
    }
    pub fn min(&self) -> f64 {
        self.min
    }
    pub fn max(&self) -> f64 {
        self.max
    }
    pub fn sum(&self) -> f64 {
        self.sum
    }
    pub fn abs_sum(&self) -> f64 {
        self.abs_sum
    }
    /// Sorts pending values into a run and merges runs of similar size.
    pub fn settle(&mut self) {
        if self.pending.is_empty() {
            return;
        }
        let mut p = std::mem::take(&mut self.pending);
        p.sort_by(|a, b| a.partial_cmp(b).unwrap());
        self.runs.push(p);
        while self.runs.len() >= 2 && self.runs[self.runs.len() - 2].len() <= 2 * self.runs[self.runs.len() - 1].len() {
            let b = self.runs.pop().unwrap();
            let a = self.runs.pop().unwrap();
            let mut m = Vec::with_capacity(a.len() + b.len());
            let (mut i, mut j) = (0, 0);
            while i < a.len() && j < b.len() {
                if a[i] <= b[j] {
                    m.push(a[i]);
                    i += 1;
                } else {
                    m.push(b[j]);
                    j += 1;
                }
            }
            m.extend_from_slice(&a[i..]);
            m.extend_from_slice(&b[j..]);
            self.runs.push(m);
        }
    }
    /// (count < v, count == v); requires `settle()`.
    pub fn counts(&self, v: f64) -> (usize, usize) {
        debug_assert!(self.pending.is_empty());
        let mut less = 0;
        let mut le = 0;
        for r in &self.runs {
            less += r.partition_point(|&x| x < v);
            le += r.partition_point(|&x| x <= v);
        }
        (less, le - less)
    }
    /// midpoint rank (count_less + count_equal/2)/n — the convention the digest uses for a
    /// value that coincides with centroids (half of the tied weight is below).
    pub fn true_rank(&self, v: f64) -> f64 {
        let (l, e) = self.counts(v);
        (l as f64 + e as f64 / 2.0) / self.n as f64
    }
    pub fn all_sorted(&mut self) -> Vec<f64> {
        self.settle();
        let mut v: Vec<f64> = self.runs.iter().flatten().copied().collect();
        v.sort_by(|a, b| a.partial_cmp(b).unwrap());
        v
    }
}

// ---------------------------------------------------------------------------------------
// 3. Reference query formulas
// ---------------------------------------------------------------------------------------

#[derive(Clone, Debug)]
pub struct RefDigest {
    pub min: f64,
    pub max: f64,
    /// (mean, weight)
    pub c: Vec<(f64, f64)>,
    pub w: f64,
    pub w_int: u64,
}

fn weighted_average(x1: f64, w1: f64, x2: f64, w2: f64) -> f64 {
    (x1 * w1 + x2 * w2) / (w1 + w2)
}

impl RefDigest {
    pub fn new(min: f64, max: f64, cents: &[(f64, u64)]) -> Self {
        let w_int: u64 = cents.iter().map(|c| c.1).sum();
        RefDigest { min, max, c: cents.iter().map(|&(m, w)| (m, w as f64)).collect(), w: w_int as f64, w_int }
    }

    pub fn get_rank(&self, value: f64) -> f64 {
        assert!(!self.c.is_empty() && !value.is_nan());
        if value < self.min {
            return 0.0;
        }
        if value > self.max {
            return 1.0;
        }
        // one centroid and value == min == max
        if self.c.len() == 1 {
            return 0.5;
        }
        let cw = self.w;
        let n = self.c.len();
        // left tail
        let first_mean = self.c[0].0;
        if value < first_mean {
            if first_mean - self.min > 0.0 {
                if value == self.min {
                    return 0.5 / cw;
                }
                return (1.0 + (value - self.min) / (first_mean - self.min) * (self.c[0].1 / 2.0 - 1.0)) / cw;
            }
            return 0.0; // should never happen
        }
        // right tail
        let last_mean = self.c[n - 1].0;
        if value > last_mean {
            if self.max - last_mean > 0.0 {
                if value == self.max {
                    return 1.0 - 0.5 / cw;
                }
                return 1.0 - ((1.0 + (self.max - value) / (self.max - last_mean) * (self.c[n - 1].1 / 2.0 - 1.0)) / cw);
            }
            return 1.0; // should never happen
        }
        // std::lower_bound / std::upper_bound on the mean
        let mut lower = self.c.partition_point(|c| c.0 < value);
        assert!(lower != n, "lower == end in get_rank()");
        let mut upper = lower + self.c[lower..].partition_point(|c| !(value < c.0));
        assert!(upper != 0, "upper == begin in get_rank()");
        if value < self.c[lower].0 {
            lower -= 1;
        }
        if upper == n || !(self.c[upper - 1].0 < value) {
            upper -= 1;
        }
        let mut weight_below = 0.0;
        let mut i = 0;
        while i != lower {
            weight_below += self.c[i].1;
            i += 1;
        }
        weight_below += self.c[lower].1 / 2.0;
        let mut weight_delta = 0.0;
        while i != upper {
            weight_delta += self.c[i].1;
            i += 1;
        }
        weight_delta -= self.c[lower].1 / 2.0;
        weight_delta += self.c[upper].1 / 2.0;
        if self.c[upper].0 - self.c[lower].0 > 0.0 {
            return (weight_below + weight_delta * (value - self.c[lower].0) / (self.c[upper].0 - self.c[lower].0)) / cw;
        }
        (weight_below + weight_delta / 2.0) / cw
    }

    pub fn get_quantile(&self, rank: f64) -> f64 {
        assert!(!self.c.is_empty() && (0.0..=1.0).contains(&rank));
        if self.c.len() == 1 {
            return self.c[0].0;
        }
        // at least 2 centroids
        let cw = self.w;
        let n = self.c.len();
        let weight = rank * cw;
        if weight < 1.0 {
            return self.min;
        }
        if weight > cw - 1.0 {
            return self.max;
        }
        let first_weight = self.c[0].1;
        if first_weight > 1.0 && weight < first_weight / 2.0 {
            return self.min + (weight - 1.0) / (first_weight / 2.0 - 1.0) * (self.c[0].0 - self.min);
        }
        let last_weight = self.c[n - 1].1;
        if last_weight > 1.0 && cw - weight <= last_weight / 2.0 {
            return self.max - (cw - weight - 1.0) / (last_weight / 2.0 - 1.0) * (self.max - self.c[n - 1].0);
        }
        // interpolate between extremes
        let mut weight_so_far = first_weight / 2.0;
        for i in 0..n - 1 {
            let dw = (self.c[i].1 + self.c[i + 1].1) / 2.0;
            if weight_so_far + dw > weight {
                // the target weight is between centroids i and i+1
                let mut left_weight = 0.0;
                if self.c[i].1 == 1.0 {
                    if weight - weight_so_far < 0.5 {
                        return self.c[i].0;
                    }
                    left_weight = 0.5;
                }
                let mut right_weight = 0.0;
                if self.c[i + 1].1 == 1.0 {
                    if weight_so_far + dw - weight <= 0.5 {
                        return self.c[i + 1].0;
                    }
                    right_weight = 0.5;
                }
                let w1 = weight - weight_so_far - left_weight;
                let w2 = weight_so_far + dw - weight - right_weight;
                // the mean of centroid i gets the weight of the distance to centroid i+1
                return weighted_average(self.c[i].0, w2, self.c[i + 1].0, w1);
            }
            weight_so_far += dw;
        }
        let w1 = weight - cw - self.c[n - 1].1 / 2.0;
        let w2 = self.c[n - 1].1 / 2.0 - w1;
        weighted_average(self.c[n - 1].0, w1, self.max, w2)
    }

    fn check_split_points(sp: &[f64]) -> Result<(), String> {
        for i in 0..sp.len() {
            if sp[i].is_nan() {
                return Err("NaN split point".into());
            }
            if i + 1 < sp.len() && !(sp[i] < sp[i + 1]) {
                return Err("split points not unique and increasing".into());
            }
        }
        Ok(())
    }

    pub fn get_cdf(&self, sp: &[f64]) -> Vec<f64> {
        Self::check_split_points(sp).unwrap();
        let mut ranks: Vec<f64> = sp.iter().map(|&p| self.get_rank(p)).collect();
        ranks.push(1.0);
        ranks
    }

    pub fn get_pmf(&self, sp: &[f64]) -> Vec<f64> {
        let mut b = self.get_cdf(sp);
        for i in (1..b.len()).rev() {
            b[i] -= b[i - 1];
        }
        b
    }
}

// ---------------------------------------------------------------------------------------
// 4. The C10 oracle
// ---------------------------------------------------------------------------------------

pub type R<T> = Result<T, PanicInfo>;

/// What the oracle may ask of a digest (library object or reference formulas).
pub trait Queries {
    fn total_weight(&mut self) -> R<u64>;
    fn min_value(&mut self) -> R<Option<f64>>;
    fn max_value(&mut self) -> R<Option<f64>>;
    fn rank(&mut self, v: f64) -> R<Option<f64>>;
    fn quantile(&mut self, q: f64) -> R<Option<f64>>;
    fn cdf(&mut self, sp: &[f64]) -> R<Option<Vec<f64>>>;
    fn pmf(&mut self, sp: &[f64]) -> R<Option<Vec<f64>>>;
}

pub struct LibMut(pub TDigestMut);
pub struct LibFrozen(pub TDigest);

impl Queries for LibMut {
    fn total_weight(&mut self) -> R<u64> {
        catch(|| self.0.total_weight())
    }
    fn min_value(&mut self) -> R<Option<f64>> {
        catch(|| self.0.min_value())
    }
    fn max_value(&mut self) -> R<Option<f64>> {
        catch(|| self.0.max_value())
    }
    fn rank(&mut self, v: f64) -> R<Option<f64>> {
        catch(|| self.0.rank(v))
    }
    fn quantile(&mut self, q: f64) -> R<Option<f64>> {
        catch(|| self.0.quantile(q))
    }
    fn cdf(&mut self, sp: &[f64]) -> R<Option<Vec<f64>>> {
        catch(|| self.0.cdf(sp))
    }
    fn pmf(&mut self, sp: &[f64]) -> R<Option<Vec<f64>>> {
        catch(|| self.0.pmf(sp))
    }
}

impl Queries for LibFrozen {
    fn total_weight(&mut self) -> R<u64> {
        catch(|| self.0.total_weight())
    }
    fn min_value(&mut self) -> R<Option<f64>> {
        catch(|| self.0.min_value())
    }
    fn max_value(&mut self) -> R<Option<f64>> {
        catch(|| self.0.max_value())
    }
    fn rank(&mut self, v: f64) -> R<Option<f64>> {
        catch(|| self.0.rank(v))
    }
    fn quantile(&mut self, q: f64) -> R<Option<f64>> {
        catch(|| self.0.quantile(q))
    }
    fn cdf(&mut self, sp: &[f64]) -> R<Option<Vec<f64>>> {
        catch(|| self.0.cdf(sp))
    }
    fn pmf(&mut self, sp: &[f64]) -> R<Option<Vec<f64>>> {
        catch(|| self.0.pmf(sp))
    }
}

impl Queries for RefDigest {
    fn total_weight(&mut self) -> R<u64> {
        Ok(self.w_int)
    }
    fn min_value(&mut self) -> R<Option<f64>> {
        Ok(Some(self.min))
    }
    fn max_value(&mut self) -> R<Option<f64>> {
        Ok(Some(self.max))
    }
    fn rank(&mut self, v: f64) -> R<Option<f64>> {
        Ok(Some(self.get_rank(v)))
    }
    fn quantile(&mut self, q: f64) -> R<Option<f64>> {
        Ok(Some(self.get_quantile(q)))
    }
    fn cdf(&mut self, sp: &[f64]) -> R<Option<Vec<f64>>> {
        Ok(Some(self.get_cdf(sp)))
    }
    fn pmf(&mut self, sp: &[f64]) -> R<Option<Vec<f64>>> {
        Ok(Some(self.get_pmf(sp)))
    }
}

pub fn next_up(x: f64) -> f64 {
    if x == 0.0 {
        return f64::from_bits(1);
    }
    let b = x.to_bits();
    f64::from_bits(if x > 0.0 { b + 1 } else { b - 1 })
}

pub fn next_down(x: f64) -> f64 {
    -next_up(-x)
}

pub struct Grids {
    pub q: Vec<f64>,
    pub v: Vec<f64>,
    /// split-point lists as indices into `v`
    pub sp: Vec<Vec<usize>>,
}

#[derive(Clone, Copy, Debug)]
pub struct GridCfg {
    /// maximum number of q grid points (<= 4096)
    pub qcap: usize,
    /// number of v points from which all sorted pairs and triples of split points are formed
    pub sp_pts: usize,
}

pub fn make_grids(cents: &[(f64, u64)], min: f64, max: f64, cfg: GridCfg) -> Grids {
    let w: u64 = cents.iter().map(|c| c.1).sum();
    let wf = w as f64;
    let room = cfg.qcap.saturating_sub(72).max(8);
    let full = (8 * w) as usize;
    let n = full.min(room).max(1);
    let mut q: Vec<f64> = (0..=n).map(|i| i as f64 / n as f64).collect();
    q.extend([0.0, 1.0, 1.0 / wf, 1.0 - 1.0 / wf]);
    if full > n {
        // capped: keep the tails (where the special-case formulas live) dense
        for j in 1..=16 {
            for t in [j as f64 / wf, (j as f64 - 0.5) / wf] {
                q.push(t);
                q.push(1.0 - t);
            }
        }
    }
    q.retain(|x| (0.0..=1.0).contains(x));
    q.sort_by(|a, b| a.partial_cmp(b).unwrap());
    q.dedup();

    let mut core: Vec<f64> = vec![min, max, min - 1.0, max + 1.0, next_down(min), next_up(max)];
    for (i, c) in cents.iter().enumerate() {
        core.push(c.0);
        if i + 1 < cents.len() {
            core.push(c.0 / 2.0 + cents[i + 1].0 / 2.0);
        }
    }
    core.retain(|x| x.is_finite());
    core.sort_by(|a, b| a.total_cmp(b));
    core.dedup_by(|a, b| a == b);
    let mut v = core.clone();
    if min < max {
        for j in 1..=64 {
            let t = j as f64 / 65.0;
            v.push(min * (1.0 - t) + max * t);
        }
    }
    v.retain(|x| x.is_finite());
    v.sort_by(|a, b| a.total_cmp(b));
    v.dedup_by(|a, b| a == b);

    // split points: <= sp_pts evenly chosen core points (always the first and last, which lie outside [min,max])
    let m = core.len().min(cfg.sp_pts.max(2));
    let chosen: Vec<f64> = (0..m).map(|i| core[if m == 1 { 0 } else { i * (core.len() - 1) / (m - 1) }]).collect();
    let mut idx: Vec<usize> = chosen.iter().map(|c| v.iter().position(|x| x == c).unwrap()).collect();
    idx.dedup();
    let mut sp: Vec<Vec<usize>> = vec![vec![]];
    for a in 0..idx.len() {
        sp.push(vec![idx[a]]);
    }
    for a in 0..idx.len() {
        for b in a + 1..idx.len() {
            sp.push(vec![idx[a], idx[b]]);
        }
    }
    for a in 0..idx.len() {
        for b in a + 1..idx.len() {
            for c in b + 1..idx.len() {
                sp.push(vec![idx[a], idx[b], idx[c]]);
            }
        }
    }
    Grids { q, v, sp }
}

#[derive(Clone, Default)]
pub struct Answers {
    pub total: Option<u64>,
    pub min: Option<f64>,
    pub max: Option<f64>,
    pub rank: Vec<f64>,
    pub quant: Vec<f64>,
    pub rq: Vec<f64>,
    pub cdf: Vec<Option<Vec<f64>>>,
    pub pmf: Vec<Option<Vec<f64>>>,
    pub none_seen: Option<String>,
    pub panics: Vec<(String, String)>,
}

impl Answers {
    fn bits(&self) -> Vec<u64> {
        let mut o = vec![self.total.unwrap_or(u64::MAX), self.min.unwrap_or(f64::NAN).to_bits(), self.max.unwrap_or(f64::NAN).to_bits()];
        o.extend(self.rank.iter().map(|x| x.to_bits()));
        o.extend(self.quant.iter().map(|x| x.to_bits()));
        o.extend(self.rq.iter().map(|x| x.to_bits()));
        for l in self.cdf.iter().chain(self.pmf.iter()) {
            match l {
                None => o.push(7),
                Some(v) => o.extend(v.iter().map(|x| x.to_bits())),
            }
        }
        o
    }
}

pub fn gather(d: &mut dyn Queries, g: &Grids) -> Answers {
    let mut a = Answers::default();
    let pk = |p: &PanicInfo| format!("panic|{}", p.site_key());
    match d.total_weight() {
        Ok(t) => a.total = Some(t),
        Err(p) => a.panics.push((pk(&p), format!("total_weight() panicked: {}", p.message))),
    }
    match d.min_value() {
        Ok(t) => a.min = t,
        Err(p) => a.panics.push((pk(&p), format!("min_value() panicked: {}", p.message))),
    }
    match d.max_value() {
        Ok(t) => a.max = t,
        Err(p) => a.panics.push((pk(&p), format!("max_value() panicked: {}", p.message))),
    }
    for &v in &g.v {
        match d.rank(v) {
            Ok(Some(r)) => a.rank.push(r),
            Ok(None) => {
                a.none_seen = Some(format!("rank({v:?}) returned None"));
                break;
            }
            Err(p) => {
                a.panics.push((pk(&p), format!("rank({v:?}) panicked: {} at {}:{}", p.message, p.file, p.line)));
                break;
            }
        }
    }
    for &q in &g.q {
        match d.quantile(q) {
            Ok(Some(x)) => a.quant.push(x),
            Ok(None) => {
                a.none_seen = Some(format!("quantile({q:?}) returned None"));
                break;
            }
            Err(p) => {
                a.panics.push((pk(&p), format!("quantile({q:?}) panicked: {} at {}:{}", p.message, p.file, p.line)));
                break;
            }
        }
    }
    if a.quant.len() == g.q.len() {
        for &x in &a.quant {
            if x.is_nan() {
                a.rq.push(f64::NAN);
                continue;
            }
            match d.rank(x) {
                Ok(Some(r)) => a.rq.push(r),
                Ok(None) => {
                    a.none_seen = Some(format!("rank({x:?}) returned None"));
                    break;
                }
                Err(p) => {
                    a.panics.push((pk(&p), format!("rank(quantile(q)={x:?}) panicked: {}", p.message)));
                    break;
                }
            }
        }
    }
    let mut cdf_panicked = false;
    let mut pmf_panicked = false;
    for l in &g.sp {
        let pts: Vec<f64> = l.iter().map(|&i| g.v[i]).collect();
        if !(cdf_panicked && !pts.is_empty()) {
            match d.cdf(&pts) {
                Ok(Some(c)) => a.cdf.push(Some(c)),
                Ok(None) => {
                    a.none_seen = Some(format!("cdf({pts:?}) returned None"));
                    a.cdf.push(None)
                }
                Err(p) => {
                    if pts.is_empty() {
                        a.panics.push(("td.cdf.empty_split_points".into(), format!("cdf(&[]) panicked ({} at {}:{}); the empty split-point list must be accepted", p.message, p.file, p.line)));
                    } else {
                        cdf_panicked = true;
                    }
                    a.panics.push((pk(&p), format!("cdf({pts:?}) panicked: {} at {}:{}", p.message, p.file, p.line)));
                    a.cdf.push(None)
                }
            }
        } else {
            a.cdf.push(None);
        }
        if !(pmf_panicked && !pts.is_empty()) {
            match d.pmf(&pts) {
                Ok(Some(c)) => a.pmf.push(Some(c)),
                Ok(None) => {
                    a.none_seen = Some(format!("pmf({pts:?}) returned None"));
                    a.pmf.push(None)
                }
                Err(p) => {
                    if pts.is_empty() {
                        a.panics.push(("td.pmf.empty_split_points".into(), format!("pmf(&[]) panicked ({} at {}:{}); the empty split-point list must be accepted", p.message, p.file, p.line)));
                    } else {
                        pmf_panicked = true;
                    }
                    a.panics.push((pk(&p), format!("pmf({pts:?}) panicked: {} at {}:{}", p.message, p.file, p.line)));
                    a.pmf.push(None)
                }
            }
        } else {
            a.pmf.push(None);
        }
    }
    a
}

pub struct Expect {
    pub total: u64,
    pub min: f64,
    pub max: f64,
}

struct Vios(Vec<(String, String)>);
impl Vios {
    fn push(&mut self, k: &str, w: impl FnOnce() -> String) {
        if !self.0.iter().any(|(x, _)| x == k) {
            self.0.push((k.to_string(), w()));
        }
    }
}

const RANK_EPS: f64 = 1e-12;

/// Evaluates every C10 clause on the answers of one digest. At most one report per clause key.
pub fn judge(a: &Answers, g: &Grids, cents: &[(f64, u64)], e: &Expect) -> Vec<(String, String)> {
    let mut o = Vios(vec![]);
    for (k, w) in &a.panics {
        o.push(k, || w.clone());
    }
    if let Some(w) = &a.none_seen {
        o.push("td.none_on_nonempty", || format!("{w} on a digest of total weight {}", e.total));
    }
    let wtot = e.total as f64;
    if let Some(t) = a.total {
        if t != e.total {
            o.push("td.total_weight", || format!("total_weight() = {t}, but {} finite values were offered", e.total));
        }
    }
    if a.min != Some(e.min) {
        o.push("td.min_value", || format!("min_value() = {:?}, exact minimum is {:?}", a.min, e.min));
    }
    if a.max != Some(e.max) {
        o.push("td.max_value", || format!("max_value() = {:?}, exact maximum is {:?}", a.max, e.max));
    }
    // --- rank over the v grid
    if a.rank.len() == g.v.len() {
        for (i, (&v, &r)) in g.v.iter().zip(&a.rank).enumerate() {
            if r.is_nan() {
                o.push("td.rank.nan", || format!("rank({v:?}) is NaN"));
                continue;
            }
            if r < 0.0 {
                o.push("td.rank.lt0", || format!("rank({v:?}) = {r:?} < 0"));
            }
            if r > 1.0 {
                o.push("td.rank.gt1", || format!("rank({v:?}) = {r:?} > 1 (min {:?}, max {:?}, first centroid {:?}, W {})", e.min, e.max, cents.first(), e.total));
            }
            if v < e.min && r != 0.0 {
                o.push("td.rank.below_min_nonzero", || format!("rank({v:?}) = {r:?} for a value below min {:?}", e.min));
            }
            if v > e.max && r != 1.0 {
                o.push("td.rank.above_max_not_one", || format!("rank({v:?}) = {r:?} for a value above max {:?}", e.max));
            }
            if i > 0 {
                let (pv, pr) = (g.v[i - 1], a.rank[i - 1]);
                if r < pr - RANK_EPS {
                    // region of the earlier point relative to the centroid list (not to the implementation)
                    let region = match (cents.first(), cents.last()) {
                        (Some(f), _) if pv < f.0 => "left_tail",
                        (_, Some(l)) if v > l.0 => "right_tail",
                        _ => "interior",
                    };
                    o.push(&format!("td.rank.nonmonotone.{region}"), || format!("rank({pv:?}) = {pr:?} > rank({v:?}) = {r:?}"));
                }
            }
        }
    }
    // --- quantile over the q grid
    if a.quant.len() == g.q.len() && !cents.is_empty() {
        // local magnitude of the two centroids bracketing q*W (for floating-point slack only)
        let n = cents.len();
        let mut cum_mid = Vec::with_capacity(n); // weight up to the middle of centroid i
        let mut acc = 0.0;
        for c in cents {
            cum_mid.push(acc + c.1 as f64 / 2.0);
            acc += c.1 as f64;
        }
        let scale_at = |q: f64| -> f64 {
            let idx = q * wtot;
            let i = cum_mid.partition_point(|&m| m <= idx); // first centroid whose middle is above idx
            let l = if i == 0 { e.min } else { cents[i - 1].0 };
            let r = if i >= n { e.max } else { cents[i].0 };
            let l2 = if i >= 2 { cents[i - 2].0 } else { e.min };
            let r2 = if i + 1 < n { cents[i + 1].0 } else { e.max };
            l.abs().max(r.abs()).max(l2.abs()).max(r2.abs())
        };
        let (w_first, w_last) = (cents[0].1 as f64, cents[n - 1].1 as f64);
        // 0 = left tail (q*W < w_first/2), 2 = right tail (W - q*W <= w_last/2), 1 = between the outer means
        let region_of = |q: f64| -> u8 {
            let idx = q * wtot;
            if wtot - idx <= w_last / 2.0 {
                2
            } else if idx < w_first / 2.0 {
                0
            } else {
                1
            }
        };
        let region_name = |a: u8, b: u8| -> &'static str {
            if a == 2 || b == 2 {
                "right_tail"
            } else if a == 0 || b == 0 {
                "left_tail"
            } else {
                "interior"
            }
        };
        let mut prev: Option<(f64, f64, f64)> = None;
        for (&q, &x) in g.q.iter().zip(&a.quant) {
            if x.is_nan() {
                o.push("td.quantile.nan", || format!("quantile({q:?}) is NaN (W {}, last centroid {:?})", e.total, cents.last()));
                prev = None;
                continue;
            }
            let tol = 1e-12 * scale_at(q);
            if x < e.min - tol {
                o.push("td.quantile.below_min", || format!("quantile({q:?}) = {x:?} < min {:?}", e.min));
            }
            if x > e.max + tol {
                o.push("td.quantile.above_max", || format!("quantile({q:?}) = {x:?} > max {:?} (last centroid {:?}, W {})", e.max, cents.last(), e.total));
            }
            if q == 0.0 && x != e.min {
                o.push("td.quantile.q0_not_min", || format!("quantile(0) = {x:?}, min is {:?}", e.min));
            }
            if q == 1.0 && x != e.max {
                o.push("td.quantile.q1_not_max", || format!("quantile(1) = {x:?}, max is {:?}", e.max));
            }
            if let Some((pq, px, ptol)) = prev {
                if x < px - (tol + ptol) {
                    o.push(&format!("td.quantile.nonmonotone.{}", region_name(region_of(pq), region_of(q))), || format!("quantile({pq:?}) = {px:?} > quantile({q:?}) = {x:?} (W {}, {} centroids)", e.total, n));
                }
            }
            prev = Some((q, x, tol));
        }
        // --- rank(quantile(q)) close to q
        if a.rq.len() == g.q.len() {
            for ((&q, &x), &r) in g.q.iter().zip(&a.quant).zip(&a.rq) {
                if x.is_nan() || r.is_nan() {
                    continue;
                }
                // tie groups bracketing x
                let lo = cents.partition_point(|c| c.0 < x); // first mean >= x
                let hi = cents.partition_point(|c| c.0 <= x); // first mean > x
                let group = |m: f64| -> f64 { cents.iter().filter(|c| c.0 == m).map(|c| c.1 as f64).sum() };
                let left_mean = if hi > 0 { cents[hi - 1].0 } else { cents[0].0 };
                let right_mean = if lo < n { cents[lo].0 } else { cents[n - 1].0 };
                let bound = (group(left_mean) + group(right_mean)) / (2.0 * wtot) + 1.0 / wtot + 1e-9;
                if (r - q).abs() > bound {
                    // region of the value at which rank is evaluated, else of q
                    let reg = if x < cents[0].0 { "left_tail" } else if x > cents[n - 1].0 { "right_tail" } else { region_name(region_of(q), region_of(q)) };
                    o.push(&format!("td.rank_of_quantile.{reg}"), || {
                        format!("rank(quantile({q:?}) = {x:?}) = {r:?}, off by {:?} > (w_left {} + w_right {})/(2W) + 1/W = {bound:?} (W {})", (r - q).abs(), group(left_mean), group(right_mean), e.total)
                    });
                }
            }
        }
    }
    // --- cdf / pmf
    if a.rank.len() == g.v.len() {
        for (j, l) in g.sp.iter().enumerate() {
            let pts = || l.iter().map(|&i| g.v[i]).collect::<Vec<f64>>();
            if let Some(Some(c)) = a.cdf.get(j) {
                if c.len() != l.len() + 1 {
                    o.push("td.cdf.len", || format!("cdf({:?}) has {} elements", pts(), c.len()));
                } else {
                    for (t, &i) in l.iter().enumerate() {
                        if c[t].to_bits() != a.rank[i].to_bits() && !(c[t] == a.rank[i]) {
                            o.push("td.cdf.ne_rank", || format!("cdf({:?})[{t}] = {:?} but rank = {:?}", pts(), c[t], a.rank[i]));
                        }
                    }
                    if c[l.len()] != 1.0 {
                        o.push("td.cdf.last_not_one", || format!("cdf({:?}) ends with {:?}", pts(), c[l.len()]));
                    }
                }
            }
            if let Some(Some(p)) = a.pmf.get(j) {
                if p.len() != l.len() + 1 {
                    o.push("td.pmf.len", || format!("pmf({:?}) has {} elements", pts(), p.len()));
                } else {
                    let s: f64 = p.iter().sum();
                    if !((s - 1.0).abs() <= 1e-9) {
                        o.push("td.pmf.sum", || format!("pmf({:?}) = {p:?} sums to {s:?}", pts()));
                    }
                    if p.iter().any(|&x| x < -1e-12) {
                        o.push("td.pmf.negative", || format!("pmf({:?}) = {p:?} has a negative mass", pts()));
                    }
                    if let Some(Some(c)) = a.cdf.get(j) {
                        if c.len() == p.len() {
                            for t in 0..p.len() {
                                let want = if t == 0 { c[0] } else { c[t] - c[t - 1] };
                                if !((p[t] - want).abs() <= 1e-12) {
                                    o.push("td.pmf.ne_cdf_diff", || format!("pmf({:?})[{t}] = {:?} but cdf difference is {want:?}", pts(), p[t]));
                                }
                            }
                        }
                    }
                }
            }
        }
    }
    o.0
}

/// Result of checking one digest: library violations kept, and clauses suspended because
/// the reference formulas fail them on this very digest.
#[derive(Default)]
pub struct Verdict {
    pub violations: Vec<(String, String)>,
    pub suspended: Vec<(String, String)>,
    pub lib_ne_ref_queries: u64,
    pub queries: u64,
}

/// Full C10 check of one non-empty library digest `td` whose compressed centroid list is
/// `cents` (from the image), against expectation `e`. Checks TDigestMut and the frozen TDigest.
pub fn check_digest(td: &TDigestMut, cents: &[(f64, u64)], e: &Expect, cfg: GridCfg) -> Verdict {
    let mut out = Verdict::default();
    let g = make_grids(cents, e.min, e.max, cfg);
    let mut refd = RefDigest::new(e.min, e.max, cents);
    let ra = gather(&mut refd, &g);
    let ref_v = judge(&ra, &g, cents, e);
    let bad: BTreeSet<String> = ref_v.iter().map(|x| x.0.clone()).collect();
    out.suspended = ref_v;
    let mut m = LibMut(td.clone());
    let ma = gather(&mut m, &g);
    let mv = judge(&ma, &g, cents, e);
    out.queries = (g.v.len() + 2 * g.q.len()) as u64;
    out.lib_ne_ref_queries = ma.rank.iter().zip(&ra.rank).filter(|(a, b)| (*a - *b).abs() > 1e-12).count() as u64
        + ma.quant.iter().zip(&ra.quant).filter(|(a, b)| !((*a - *b).abs() <= 1e-9 * (a.abs() + b.abs()))).count() as u64;
    let fa = match catch(|| td.clone().freeze()) {
        Ok(f) => {
            let mut f = LibFrozen(f);
            Some(gather(&mut f, &g))
        }
        Err(p) => {
            out.violations.push((format!("panic|{}", p.site_key()), format!("freeze() panicked: {}", p.message)));
            None
        }
    };
    let mut all = mv;
    if let Some(fa) = fa {
        for (k, w) in judge(&fa, &g, cents, e) {
            if !all.iter().any(|x| x.0 == k) {
                all.push((k, format!("[frozen TDigest] {w}")));
            }
        }
        if fa.bits() != ma.bits() && fa.panics.is_empty() && ma.panics.is_empty() {
            all.push(("td.mut_vs_frozen".into(), "TDigestMut and the frozen TDigest answer the same query grid differently".into()));
        }
    }
    for (k, w) in all {
        if bad.contains(&k) {
            continue;
        }
        out.violations.push((k, w));
    }
    out
}

// ---------------------------------------------------------------------------------------
// 5. In-process model
// ---------------------------------------------------------------------------------------

/// the capacity the library derives from k (mirrors `TDigestMut::make`; used only to pick
/// batch sizes / name edges and to REPORT against, never as an oracle bound)
pub fn derived_capacity(k: u16) -> usize {
    2 * k as usize + if k < 30 { 30 } else { 10 }
}

pub const BATCH_SHAPES: [&str; 7] = ["sorted ramp", "reversed ramp", "constant", "two clusters", "magnitudes 1e-300..1e300", "+-0.0", "NaN/+-inf"];

pub fn batch_value(shape: u8, size: usize, i: usize) -> f64 {
    match shape {
        0 => i as f64,
        1 => (size - 1 - i) as f64,
        2 => 7.0,
        3 => {
            if i % 2 == 0 {
                1.0 + i as f64 * 1e-6
            } else {
                1e6 + i as f64 * 1e-3
            }
        }
        4 => {
            let e = (i * 37 % 601) as i32 - 300;
            let s = if i % 3 == 0 { -1.0 } else { 1.0 };
            s * 10f64.powi(e)
        }
        5 => {
            if i % 2 == 0 {
                0.0
            } else {
                -0.0
            }
        }
        _ => [f64::NAN, f64::INFINITY, f64::NEG_INFINITY][i % 3],
    }
}

pub const STREAM_SHAPES: [&str; 8] =
    ["sorted", "reversed", "sawtooth", "constant", "heavy duplicates", "two far clusters", "geometric magnitudes 1e-300..1e300", "alternating extremes"];

/// value number `i` of stream `shape`; streams of different lengths are prefixes of each other
pub fn stream_value(shape: u8, i: usize) -> f64 {
    match shape {
        0 => i as f64,
        1 => -(i as f64),
        2 => (i % 97) as f64 + i as f64 * 1e-7,
        3 => 42.0,
        4 => (i * 7919 % 10) as f64,
        5 => {
            if i % 2 == 0 {
                i as f64 * 1e-9
            } else {
                1e12 + i as f64
            }
        }
        6 => {
            let e = (i * 389 % 601) as i32 - 300;
            let s = if i % 3 == 1 { -1.0 } else { 1.0 };
            s * 10f64.powi(e) * (1.0 + (i % 7) as f64 / 10.0)
        }
        _ => {
            if i % 2 == 0 {
                i as f64
            } else {
                -(i as f64)
            }
        }
    }
}

#[derive(Clone, Debug, PartialEq)]
pub enum Op {
    Batch { shape: u8, size: usize },
    Stream { shape: u8, from: usize, to: usize },
    Value(f64),
    DupMin,
    DupMax,
    Merge(u8),
    /// merge a donor built from scratch with its own k by the given ops
    MergeOps { k: u16, ops: Vec<Op> },
    Freeze,
    Serde,
    Query,
}

impl Op {
    pub fn json(&self) -> Value {
        match self {
            Op::Batch { shape, size } => json!({"batch":[shape,size]}),
            Op::Stream { shape, from, to } => json!({"stream":[shape,from,to]}),
            Op::Value(v) => json!({"value":v}),
            Op::DupMin => json!("dup_min"),
            Op::DupMax => json!("dup_max"),
            Op::Merge(j) => json!({"merge":j}),
            Op::MergeOps { k, ops } => json!({"merge_ops":{"k":k,"ops":ops.iter().map(|o| o.json()).collect::<Vec<_>>()}}),
            Op::Freeze => json!("freeze"),
            Op::Serde => json!("serde"),
            Op::Query => json!("query"),
        }
    }
    pub fn from_json(v: &Value) -> Op {
        if let Some(b) = v.get("batch") {
            Op::Batch { shape: b[0].as_u64().unwrap() as u8, size: b[1].as_u64().unwrap() as usize }
        } else if let Some(b) = v.get("stream") {
            Op::Stream { shape: b[0].as_u64().unwrap() as u8, from: b[1].as_u64().unwrap() as usize, to: b[2].as_u64().unwrap() as usize }
        } else if let Some(x) = v.get("value") {
            Op::Value(x.as_f64().unwrap())
        } else if let Some(j) = v.get("merge") {
            Op::Merge(j.as_u64().unwrap() as u8)
        } else if let Some(m) = v.get("merge_ops") {
            Op::MergeOps { k: m["k"].as_u64().unwrap() as u16, ops: m["ops"].as_array().unwrap().iter().map(Op::from_json).collect() }
        } else {
            match v.as_str().unwrap_or("") {
                "dup_min" => Op::DupMin,
                "dup_max" => Op::DupMax,
                "freeze" => Op::Freeze,
                "serde" => Op::Serde,
                _ => Op::Query,
            }
        }
    }
    pub fn describe(&self) -> String {
        match self {
            Op::Batch { shape, size } => format!("update x{size} [{}]", BATCH_SHAPES[*shape as usize]),
            Op::Stream { shape, from, to } => format!("update stream [{}] values {from}..{to}", STREAM_SHAPES[*shape as usize]),
            Op::Value(v) => format!("update({v:?})"),
            Op::DupMin => "update(min)".into(),
            Op::DupMax => "update(max)".into(),
            Op::Merge(j) => format!("merge(pool[{j}])"),
            Op::MergeOps { k, ops } => format!("merge(donor k={k}: {})", ops.iter().map(|o| o.describe()).collect::<Vec<_>>().join(", ")),
            Op::Freeze => "freeze->unfreeze".into(),
            Op::Serde => "serialize->deserialize".into(),
            Op::Query => "rank query on the live object".into(),
        }
    }
}

pub type Edges = BTreeMap<String, u64>;

fn edge(e: &mut Edges, s: &str) {
    *e.entry(s.to_string()).or_insert(0) += 1;
}

/// reads `reverse_merge` from the derived Debug output without formatting the whole object
pub fn peek_reverse(td: &TDigestMut) -> bool {
    struct W(String);
    impl std::fmt::Write for W {
        fn write_str(&mut self, s: &str) -> std::fmt::Result {
            self.0.push_str(s);
            if self.0.len() > 64 { Err(std::fmt::Error) } else { Ok(()) }
        }
    }
    let mut w = W(String::new());
    let _ = std::fmt::write(&mut w, format_args!("{:?}", td));
    w.0.contains("reverse_merge: true")
}

#[derive(Clone)]
pub struct Pair {
    pub k: u16,
    pub td: TDigestMut,
    pub vals: RefModel,
    /// model-tracked number of buffered values (for edge naming only)
    pub buf: usize,
    /// smallest k among all digests whose data was merged into this one (the resolution of
    /// merged-in centroids is that of the coarsest contributor; used by the C15 error bound)
    pub k_eff: u16,
}

pub const POOL_SIZE: u8 = 4;

/// Fixed merge partners, a function of (j, k) only.
pub fn pool_member(j: u8, k: u16) -> Pair {
    let mut e = Edges::new();
    match j {
        0 => {
            // buffered only, same k
            let mut p = Pair::new(k);
            for i in 0..50 {
                p.apply(&Op::Value(1000.0 + i as f64 * 0.5), &mut e).unwrap();
            }
            p
        }
        1 => {
            // different k, compressed centroids + buffer, far clusters overlapping typical ranges
            let mut p = Pair::new(10);
            p.apply(&Op::Batch { shape: 3, size: 5000 }, &mut e).unwrap();
            p
        }
        2 => {
            let mut p = Pair::new(k);
            p.apply(&Op::Value(-5.0), &mut e).unwrap();
            p
        }
        _ => Pair::new(k),
    }
}

impl Pair {
    pub fn new(k: u16) -> Pair {
        Pair { k, td: TDigestMut::new(k), vals: RefModel::new(), buf: 0, k_eff: k }
    }

    fn update_one(&mut self, v: f64, e: &mut Edges) -> Result<(), PanicInfo> {
        let cap4 = 4 * derived_capacity(self.k);
        if !v.is_finite() {
            edge(e, "update: non-finite value ignored");
        } else {
            if self.buf == cap4 {
                let rev = peek_reverse(&self.td);
                edge(e, if rev { "compress on full buffer, reverse direction" } else { "compress on full buffer, forward direction" });
                self.buf = 0;
            }
            self.buf += 1;
            if self.buf + 1 == cap4 {
                edge(e, "buffer boundary: 4*capacity-1 buffered");
            } else if self.buf == cap4 {
                edge(e, "buffer boundary: buffer full (4*capacity)");
            } else if self.buf == 1 && self.vals.len() >= cap4 {
                edge(e, "buffer boundary: first value after a compress");
            }
        }
        self.vals.offer(v);
        let td = &mut self.td;
        catch(|| td.update(v))
    }

    fn forced(&mut self, e: &mut Edges, what: &str) {
        if self.buf > 0 {
            let rev = peek_reverse(&self.td);
            edge(e, &format!("compress forced by {what}, {} direction", if rev { "reverse" } else { "forward" }));
        }
        self.buf = 0;
    }

    /// Applies one op to the real digest and the model. Err = (key, what) of a panic in a mutating call.
    pub fn apply(&mut self, op: &Op, e: &mut Edges) -> Result<(), (String, String)> {
        let pv = |p: PanicInfo, op: &Op| (format!("panic|{}", p.site_key()), format!("{} panicked: {} at {}:{}", op.describe(), p.message, p.file, p.line));
        match op {
            Op::Batch { shape, size } => {
                for i in 0..*size {
                    self.update_one(batch_value(*shape, *size, i), e).map_err(|p| pv(p, op))?;
                }
            }
            Op::Stream { shape, from, to } => {
                for i in *from..*to {
                    self.update_one(stream_value(*shape, i), e).map_err(|p| pv(p, op))?;
                }
            }
            Op::Value(v) => self.update_one(*v, e).map_err(|p| pv(p, op))?,
            Op::DupMin => {
                if !self.vals.is_empty() {
                    let v = self.vals.min();
                    edge(e, "update: duplicate of the current min");
                    self.update_one(v, e).map_err(|p| pv(p, op))?
                }
            }
            Op::DupMax => {
                if !self.vals.is_empty() {
                    let v = self.vals.max();
                    edge(e, "update: duplicate of the current max");
                    self.update_one(v, e).map_err(|p| pv(p, op))?
                }
            }
            Op::Merge(j) => {
                let o = pool_member(*j, self.k);
                self.merge_pair(&o, e).map_err(|p| pv(p, op))?;
            }
            Op::MergeOps { k, ops } => {
                let mut o = Pair::new(*k);
                for d in ops {
                    o.apply(d, e)?;
                }
                self.merge_pair(&o, e).map_err(|p| pv(p, op))?;
            }
            Op::Freeze => {
                self.forced(e, "freeze");
                edge(e, "freeze->unfreeze");
                let k = self.k;
                let t = std::mem::replace(&mut self.td, TDigestMut::new(k.max(10)));
                self.td = catch(move || t.freeze().unfreeze()).map_err(|p| pv(p, op))?;
            }
            Op::Serde => {
                self.forced(e, "serialize");
                let td = &mut self.td;
                let bytes = catch(|| td.serialize()).map_err(|p| pv(p, op))?;
                edge(e, match bytes.len() {
                    8 => "serialize->deserialize, empty form",
                    16 => "serialize->deserialize, single-value form",
                    _ => "serialize->deserialize, multi form (native f64)",
                });
                match catch(|| TDigestMut::deserialize(&bytes, false)).map_err(|p| pv(p, op))? {
                    Ok(t) => self.td = t,
                    Err(err) => return Err(("td.deserialize.rejects_own_image".into(), format!("deserialize(serialize()) failed: {err}; image {}", hex(&bytes[..bytes.len().min(64)])))),
                }
            }
            Op::Query => {
                self.forced(e, "a query");
                let td = &mut self.td;
                catch(|| td.rank(0.0)).map_err(|p| pv(p, op))?;
            }
        }
        Ok(())
    }

    pub fn merge_pair(&mut self, o: &Pair, e: &mut Edges) -> Result<(), PanicInfo> {
        if o.vals.is_empty() {
            edge(e, "merge: other is empty (no-op)");
        } else {
            if self.vals.is_empty() {
                edge(e, "merge: into an empty digest");
            }
            if o.k != self.k {
                edge(e, "merge: other has a different k");
            }
            if o.buf > 0 {
                edge(e, "merge: other has buffered values");
            }
            let rev = peek_reverse(&self.td);
            edge(e, if rev { "merge, reverse direction" } else { "merge, forward direction" });
            self.buf = 0;
            self.k_eff = self.k_eff.min(o.k_eff);
        }
        self.vals.absorb(&o.vals);
        let td = &mut self.td;
        catch(|| td.merge(&o.td))
    }

    /// Compressed image of a clone (the live object keeps its buffer).
    pub fn image(&self) -> Result<(Vec<u8>, TdImage), (String, String)> {
        let mut c = self.td.clone();
        let bytes = catch(|| c.serialize()).map_err(|p| (format!("panic|{}", p.site_key()), format!("serialize() panicked: {} at {}:{}", p.message, p.file, p.line)))?;
        let img = decode(&bytes).map_err(|e| ("td.image.undecodable".to_string(), format!("serialize() output does not follow the layout: {e}; first bytes {}", hex(&bytes[..bytes.len().min(48)]))))?;
        Ok((bytes, img))
    }

    /// The C10 oracle on this state.
    pub fn check10(&self, cfg: GridCfg) -> Verdict {
        let mut out = Verdict::default();
        if self.vals.is_empty() {
            // empty digest: everything answers None / 0 without panicking
            let mut c = self.td.clone();
            let r = catch(|| (c.is_empty(), c.total_weight(), c.min_value(), c.max_value(), c.rank(0.0), c.quantile(0.5), c.cdf(&[0.0]), c.pmf(&[0.0])));
            match r {
                Err(p) => out.violations.push((format!("panic|{}", p.site_key()), format!("query on an empty digest panicked: {}", p.message))),
                Ok(t) => {
                    if t != (true, 0, None, None, None, None, None, None) {
                        out.violations.push(("td.empty.not_empty".into(), format!("digest that was offered no finite value answers {t:?}")));
                    }
                }
            }
            return out;
        }
        let (_, img) = match self.image() {
            Ok(x) => x,
            Err(v) => {
                out.violations.push(v);
                return out;
            }
        };
        if !img.buffered.is_empty() {
            out.violations.push(("td.image.buffered".into(), "serialize() left buffered values in the image".into()));
            return out;
        }
        let e = Expect { total: self.vals.len() as u64, min: self.vals.min(), max: self.vals.max() };
        check_digest(&self.td, &img.centroids, &e, cfg)
    }
}

pub fn ops_json(k: u16, ops: &[Op], oracle: &str) -> Value {
    json!({"kind":"td_ops","k":k,"oracle":oracle,"ops":ops.iter().map(|o| o.json()).collect::<Vec<_>>()})
}

pub fn image_json(bytes: &[u8], is_f32: bool) -> Value {
    json!({"kind":"td_image","is_f32":is_f32,"hex":hex(bytes)})
}

/// merge tree over stream leaves (C15)
#[derive(Clone, Debug)]
pub enum Tree {
    Leaf(u8, usize),
    Node(Box<Tree>, Box<Tree>),
}

impl Tree {
    pub fn json(&self) -> Value {
        match self {
            Tree::Leaf(s, l) => json!({"leaf":[s,l]}),
            Tree::Node(a, b) => json!({"node":[a.json(), b.json()]}),
        }
    }
    pub fn from_json(v: &Value) -> Tree {
        if let Some(l) = v.get("leaf") {
            Tree::Leaf(l[0].as_u64().unwrap() as u8, l[1].as_u64().unwrap() as usize)
        } else {
            Tree::Node(Box::new(Tree::from_json(&v["node"][0])), Box::new(Tree::from_json(&v["node"][1])))
        }
    }
    pub fn leaves(&self) -> usize {
        match self {
            Tree::Leaf(..) => 1,
            Tree::Node(a, b) => a.leaves() + b.leaves(),
        }
    }
    pub fn build(&self, k: u16, e: &mut Edges) -> Result<Pair, (String, String)> {
        match self {
            Tree::Leaf(s, l) => {
                let mut p = Pair::new(k);
                p.apply(&Op::Stream { shape: *s, from: 0, to: *l }, e)?;
                Ok(p)
            }
            Tree::Node(a, b) => {
                let mut l = a.build(k, e)?;
                let r = b.build(k, e)?;
                l.merge_pair(&r, e).map_err(|p| (format!("panic|{}", p.site_key()), format!("merge panicked: {}", p.message)))?;
                Ok(l)
            }
        }
    }
}

pub const REPLAY_GRID: GridCfg = GridCfg { qcap: 4096, sp_pts: 12 };

/// Checks one image end to end (crafted digests and replay). Returns (verdict, decoded image).
pub fn check_image(bytes: &[u8], is_f32: bool, cfg: GridCfg) -> (Verdict, Option<TdImage>) {
    let mut out = Verdict::default();
    let img = match decode_as(bytes, is_f32) {
        Ok(i) => i,
        Err(e) => {
            out.violations.push(("harness.codec".into(), format!("spec decoder rejects the image: {e}")));
            return (out, None);
        }
    };
    let td = match catch(|| TDigestMut::deserialize(bytes, is_f32)) {
        Err(p) => {
            out.violations.push((format!("panic|{}", p.site_key()), format!("deserialize panicked: {} at {}:{}", p.message, p.file, p.line)));
            return (out, Some(img));
        }
        Ok(Err(e)) => {
            out.violations.push(("td.deserialize.rejects_valid_image".into(), format!("deserialize rejects a valid {} image: {e}", img.enc.name())));
            return (out, Some(img));
        }
        Ok(Ok(t)) => t,
    };
    if img.total_weight() == 0 {
        return (out, Some(img));
    }
    let mut cents = img.centroids.clone();
    if !img.buffered.is_empty() {
        // buffered values: take the compressed list from the library's own re-serialization
        let mut c = td.clone();
        match catch(|| c.serialize()).ok().and_then(|b| decode(&b).ok()) {
            Some(i2) => cents = i2.centroids,
            None => {
                out.violations.push(("td.image.undecodable".into(), "re-serialization of a deserialized image is not decodable".into()));
                return (out, Some(img));
            }
        }
    }
    let e = Expect { total: img.total_weight(), min: img.min, max: img.max };
    (check_digest(&td, &cents, &e, cfg), Some(img))
}

pub fn replay(case: &Value) -> String {
    let mut log = String::new();
    // when the case names the clause it witnesses, only that clause counts as a reproduction
    let want = case.get("expect_key").and_then(|k| k.as_str()).map(|s| s.to_string());
    let tag = |k: &str| -> &'static str { if want.as_deref().map(|w| w == k).unwrap_or(true) { "VIOLATES" } else { "(other clause also fails)" } };
    match case["kind"].as_str().unwrap_or("") {
        "td_image" => {
            let bytes = unhex(case["hex"].as_str().unwrap_or(""));
            let is_f32 = case["is_f32"].as_bool().unwrap_or(false);
            let (v, img) = check_image(&bytes, is_f32, REPLAY_GRID);
            if let Some(i) = img {
                log.push_str(&format!("image: {} k={} flags={:#x} min={:?} max={:?} centroids={:?} buffered={}\n", i.enc.name(), i.k, i.flags, i.min, i.max, &i.centroids[..i.centroids.len().min(8)], i.buffered.len()));
            }
            for (k, w) in &v.violations {
                log.push_str(&format!("{} {k}: {w}\n", tag(&k)));
            }
            for (k, w) in &v.suspended {
                log.push_str(&format!("(clause suspended, the reference formulas fail it here too) {k}: {w}\n"));
            }
        }
        "td_ops" | "td_tree" => {
            let k = case["k"].as_u64().unwrap_or(100) as u16;
            let mut e = Edges::new();
            let mut p = Pair::new(k);
            let mut dead = false;
            if case["kind"] == "td_tree" {
                match Tree::from_json(&case["tree"]).build(k, &mut e) {
                    Ok(x) => p = x,
                    Err((k, w)) => {
                        log.push_str(&format!("{} {k}: {w}\n", tag(&k)));
                        dead = true;
                    }
                }
            } else {
                for (i, o) in case["ops"].as_array().cloned().unwrap_or_default().iter().enumerate() {
                    let op = Op::from_json(o);
                    if let Err((k, w)) = p.apply(&op, &mut e) {
                        log.push_str(&format!("step {i} {}: {} {k}: {w}\n", op.describe(), tag(&k)));
                        dead = true;
                        break;
                    }
                }
            }
            if !dead {
                let which = case["oracle"].as_str().unwrap_or("C10");
                if which == "C15" {
                    let (vs, info) = crate::c15::observe(&mut p, &crate::c15::Consts::default());
                    log.push_str(&format!("observation: n={} centroids={} (derived capacity {}) image {} bytes\n", p.vals.len(), info.centroids, derived_capacity(k), info.image_len));
                    for (k, w) in vs.violations {
                        log.push_str(&format!("{} {k}: {w}\n", tag(&k)));
                    }
                    for (k, w) in vs.suspended {
                        log.push_str(&format!("(clause suspended, the reference formulas fail it here too) {k}: {w}\n"));
                    }
                } else {
                    let v = p.check10(REPLAY_GRID);
                    log.push_str(&format!("state: n={} min={:?} max={:?}\n", p.vals.len(), p.vals.min(), p.vals.max()));
                    for (k, w) in &v.violations {
                        log.push_str(&format!("{} {k}: {w}\n", tag(&k)));
                    }
                    for (k, w) in &v.suspended {
                        log.push_str(&format!("(clause suspended, the reference formulas fail it here too) {k}: {w}\n"));
                    }
                }
            }
        }
        k => log.push_str(&format!("unknown t-digest case kind {k:?}\n")),
    }
    log
}
