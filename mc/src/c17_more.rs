//! C17 parts for the hook-less families.
use crate::common::{Ctx, catch};
use rayon::prelude::*;
use serde_json::json;

pub fn explorers(ctx: &Ctx) {
    let jobs: Vec<Box<dyn Fn() + Sync + Send>> = vec![
        Box::new(|| crate::c07::explore(ctx, &crate::c07::no_observer)),
        Box::new(|| crate::c08::explore(ctx, &crate::c08::no_observer)),
        Box::new(|| crate::c09::explore(ctx, &crate::c09::no_observer)),
        Box::new(|| crate::c10::explore(ctx, &crate::c10::no_observer)),
    ];
    jobs.par_iter().for_each(|j| j());
}

/// Minimum configurations: t-digest k=10 (cdf/pmf with [], one and many split points;
/// rank/quantile at 0, 1, min, max), Bloom 1 bit x 1 and 32767 hashes, FI map size 8
/// (purge to empty, merge of empties), Count-Min 1x3.
pub fn extremes(ctx: &Ctx) {
    let run = |what: &str, f: &mut dyn FnMut()| {
        if let Err(p) = catch(|| f()) {
            ctx.violation(&format!("panic|{}", p.site_key()), &format!("{what}: {} at {}:{}", p.message, p.file, p.line), json!({"kind":"extreme","what":what}));
        }
        ctx.add_states(1);
        ctx.add_transitions(1);
    };
    run("t-digest k=10: cdf/pmf with empty, single and many split points; rank/quantile at the ends", &mut || {
        use datasketches::tdigest::TDigestMut;
        for n in [1usize, 2, 3, 39, 40, 41, 500] {
            let mut t = TDigestMut::new(10);
            for i in 0..n {
                t.update(i as f64);
            }
            let (lo, hi) = (t.min_value().unwrap(), t.max_value().unwrap());
            let _ = (t.cdf(&[]), t.pmf(&[]), t.cdf(&[lo]), t.pmf(&[hi]), t.cdf(&[lo, (lo + hi) / 2.0 + 0.25, hi + 1.0]));
            let _ = (t.rank(lo), t.rank(hi), t.rank(lo - 1.0), t.rank(hi + 1.0), t.quantile(0.0), t.quantile(1.0), t.quantile(0.5));
            let f = t.freeze();
            let _ = (f.cdf(&[]), f.pmf(&[]), f.rank(lo), f.quantile(1.0));
        }
    });
    run("Bloom filter with 1 bit and 1 / 32767 hashes", &mut || {
        use datasketches::bloom::BloomFilterBuilder;
        for h in [1u16, 32767] {
            let mut f = BloomFilterBuilder::with_size(1, h).build();
            let _ = f.contains(&1u64);
            f.insert(1u64);
            let _ = (f.contains_and_insert(&2u64), f.bits_used(), f.estimated_fpp());
            let g = f.clone();
            f.union(&g);
            f.intersect(&g);
            f.invert();
            f.reset();
            let _ = datasketches::bloom::BloomFilter::deserialize(&g.serialize()).unwrap();
        }
    });
    run("Frequent Items map size 8: purge to empty, merge of empties", &mut || {
        use datasketches::frequencies::{ErrorType, FrequentItemsSketch};
        let mut s = FrequentItemsSketch::<i64>::new(8);
        for i in 0..7 {
            s.update(i);
        }
        let e = FrequentItemsSketch::<i64>::new(8);
        let mut m = FrequentItemsSketch::<i64>::new(8);
        m.merge(&e);
        m.merge(&s);
        m.merge(&e);
        let _ = (m.frequent_items(ErrorType::NoFalsePositives), m.frequent_items(ErrorType::NoFalseNegatives), m.estimate(&3));
        let _ = FrequentItemsSketch::<i64>::deserialize(&m.serialize()).unwrap();
        let _ = FrequentItemsSketch::<i64>::deserialize(&e.serialize()).unwrap();
    });
    run("Count-Min 1x3 for every counter type", &mut || {
        use datasketches::countmin::CountMinSketch;
        macro_rules! one {
            ($t:ty) => {{
                let mut s: CountMinSketch<$t> = CountMinSketch::new(1, 3);
                s.update(1u64);
                s.update_with_weight("x", 2 as $t);
                let o = s.clone();
                s.merge(&o);
                let _ = (s.estimate(1u64), s.upper_bound(1u64), s.lower_bound(7u64));
                let _ = CountMinSketch::<$t>::deserialize(&s.serialize()).unwrap();
            }};
        }
        one!(u8);
        one!(u16);
        one!(u32);
        one!(u64);
        one!(i8);
        one!(i16);
        one!(i32);
        one!(i64);
    });
}

/// Parameter extremes: every constructor / builder at the ends (and around the internal
/// thresholds) of its DOCUMENTED argument range, followed by a short script of valid calls.
/// Each configuration is a separate case so that one panic does not hide the others.
pub fn param_extremes(ctx: &Ctx) {
    let case = |what: String, f: &mut dyn FnMut()| {
        if let Err(p) = catch(|| f()) {
            ctx.violation(&format!("panic|{}", p.site_key()), &format!("{what}: {} at {}:{}", p.message, p.file, p.line), json!({"kind":"param_extreme","what":what}));
        }
        ctx.add_states(1);
        ctx.add_transitions(1);
    };
    // t-digest: k is any u16 >= 10
    for k in [10u16, 11, 12, 100, 1000, 16383, 16384, 32767, 32768, 32769, 40000, 65534, 65535] {
        case(format!("TDigestMut::new({k}): 60 updates, queries (forces a compress), round trip, merges"), &mut || {
            use datasketches::tdigest::TDigestMut;
            let mut t = TDigestMut::new(k);
            for i in 0..60 {
                t.update((i * 37 % 61) as f64);
            }
            let _ = (t.rank(30.0), t.quantile(0.5), t.cdf(&[10.0, 20.0]), t.min_value(), t.max_value(), t.total_weight());
            let img = t.serialize();
            let mut d = TDigestMut::deserialize(&img, false).unwrap();
            d.update(1.5);
            let mut small = TDigestMut::new(10);
            for i in 0..500 {
                small.update(i as f64 * 0.5);
            }
            d.merge(&small);
            small.merge(&t);
            let _ = (d.quantile(0.9), small.quantile(0.1), d.serialize(), small.serialize());
            let f = d.freeze();
            let _ = (f.rank(3.0), f.quantile(0.25));
        });
    }
    // t-digest: every finite f64 is a valid value, including the largest magnitudes of both signs
    // (their difference and their weighted sums overflow f64 unless computed with care)
    let m = f64::MAX;
    let shapes: Vec<(&str, Box<dyn Fn(usize) -> f64 + Sync>)> = vec![
        ("block of -MAX then block of +MAX", Box::new(move |i| if i < 300 { -m } else { m })),
        ("alternating -MAX / +MAX", Box::new(move |i| if i % 2 == 0 { -m } else { m })),
        ("-MAX/1.5 .. +MAX/1.5 ramp", Box::new(move |i| (i as f64 / 300.0 - 1.0) * (m / 1.5))),
        ("+-MAX with small values in between", Box::new(move |i| match i % 4 { 0 => -m, 1 => m, 2 => 1.0, _ => -1.0 })),
        ("subnormals and MIN_POSITIVE", Box::new(|i| if i % 2 == 0 { f64::MIN_POSITIVE * (i as f64) } else { f64::from_bits(1 + i as u64) })),
    ];
    for (name, f) in &shapes {
        for k in [10u16, 20, 100] {
            case(format!("TDigestMut k={k}, 600 values: {name}; queries, round trip, merge of many tiny digests"), &mut || {
                use datasketches::tdigest::TDigestMut;
                let mut t = TDigestMut::new(k);
                for i in 0..600 {
                    t.update(f(i));
                    if i % 97 == 0 {
                        let _ = (t.rank(0.0), t.quantile(0.5));
                    }
                }
                let _ = (t.rank(-m), t.rank(m), t.rank(0.0), t.quantile(0.0), t.quantile(0.25), t.quantile(0.5), t.quantile(1.0), t.cdf(&[-1.0, 1.0]), t.pmf(&[0.0]));
                let d = TDigestMut::deserialize(&t.serialize(), false).unwrap();
                let mut acc = TDigestMut::new(k);
                for j in 0..40 {
                    let mut tiny = TDigestMut::new(k);
                    for i in 0..6 {
                        tiny.update(f(j * 6 + i));
                    }
                    acc.merge(&tiny);
                }
                acc.merge(&d);
                let _ = (acc.quantile(0.5), acc.rank(1.0), acc.serialize(), acc.total_weight());
                let fz = acc.freeze();
                let _ = (fz.quantile(0.9), fz.rank(-1.0));
            });
        }
    }
    // theta: lg_k in [5, 26], p in (0, 1] (f32)
    for lg_k in [5u8, 6, 12, 26] {
        for p in [1.0f32, 0.999_999_94, 0.5, 1e-3, 1e-10, 1.2e-19, 1.0e-19, 1e-20, 1e-30, f32::MIN_POSITIVE, f32::from_bits(1)] {
            case(format!("ThetaSketch lg_k={lg_k} sampling_probability({p:e}): updates, estimate, bounds, compact, serialize, trim, reset"), &mut || {
                use datasketches::common::NumStdDev::*;
                use datasketches::theta::ThetaSketch;
                let mut s = ThetaSketch::builder().lg_k(lg_k).sampling_probability(p).build();
                let _ = (s.estimate(), s.lower_bound(Two), s.upper_bound(Two), s.is_empty());
                for i in 0..200u64 {
                    s.update(i);
                }
                let _ = (s.estimate(), s.theta(), s.num_retained(), s.is_estimation_mode());
                for n in [One, Two, Three] {
                    let _ = (s.lower_bound(n), s.upper_bound(n));
                }
                for ordered in [true, false] {
                    let c = s.compact(ordered);
                    let _ = (c.estimate(), c.lower_bound(Two), c.upper_bound(Two));
                    let a = c.serialize();
                    let b = c.serialize_compressed();
                    let _ = datasketches::theta::CompactThetaSketch::deserialize(&a).map(|d| (d.estimate(), d.upper_bound(Three)));
                    let _ = datasketches::theta::CompactThetaSketch::deserialize(&b).map(|d| (d.estimate(), d.lower_bound(Three)));
                }
                s.trim();
                let _ = s.estimate();
                s.reset();
                let _ = (s.estimate(), s.upper_bound(One));
            });
        }
    }
    // Frequent Items: max_map_size is any power of two (usize)
    for lg in 0..usize::BITS {
        case(format!("FrequentItemsSketch::<i64>::new(1 << {lg}): updates, queries, serialize"), &mut || {
            use datasketches::frequencies::{ErrorType, FrequentItemsSketch};
            let mut s = FrequentItemsSketch::<i64>::new(1usize << lg);
            let _ = (s.maximum_map_capacity(), s.current_map_capacity(), s.epsilon(), s.lg_max_map_size());
            for i in 0..40 {
                s.update_with_count(i % 13, 1 + (i as u64 % 4));
            }
            let _ = (s.estimate(&3), s.upper_bound(&99), s.maximum_error(), s.frequent_items(ErrorType::NoFalsePositives).len());
            let mut o = FrequentItemsSketch::<i64>::new(8);
            o.update(5);
            s.merge(&o);
            let _ = s.serialize();
        });
    }
    for lg in 0u8..=63 {
        case(format!("FrequentItemsSketch::epsilon_for_lg({lg}) / apriori_error"), &mut || {
            use datasketches::frequencies::FrequentItemsSketch;
            let e = FrequentItemsSketch::<i64>::epsilon_for_lg(lg);
            assert!(e > 0.0 && e <= 3.5, "epsilon_for_lg({lg}) = {e}");
            for w in [0i64, 1, 1 << 40, i64::MAX] {
                let a = FrequentItemsSketch::<i64>::apriori_error(lg, w);
                assert!(a >= 0.0 && a.is_finite(), "apriori_error({lg}, {w}) = {a}");
            }
        });
    }
    // Bloom compatibility predicate guards the panicking set operations
    case("BloomFilter::is_compatible decides exactly when union/intersect are allowed".to_string(), &mut || {
        use datasketches::bloom::BloomFilterBuilder;
        let mk = |bits: u64, h: u16, seed: u64| BloomFilterBuilder::with_size(bits, h).seed(seed).build();
        let base = mk(128, 3, 7);
        for (bits, h, seed) in [(128u64, 3u16, 7u64), (65, 3, 7), (129, 3, 7), (128, 4, 7), (128, 3, 8), (1, 3, 7)] {
            let mut o = mk(bits, h, seed);
            o.insert(5u64);
            let same = base.bits_used() == 0 && o.capacity() == base.capacity() && h == 3 && seed == 7;
            assert_eq!(base.is_compatible(&o), same, "is_compatible for ({bits},{h},{seed})");
            assert_eq!(o.is_compatible(&base), same);
            if same {
                let mut b = base.clone();
                b.union(&o);
                b.intersect(&o);
                assert!(b.contains(&5u64));
            }
        }
    });
    // HLL and CPC: every lg_k of the documented range
    for lg_k in 4u8..=21 {
        case(format!("HllSketch/HllUnion lg_k={lg_k}: new, 30 updates, bounds, round trip, union"), &mut || {
            use datasketches::hll::{HllSketch, HllType, HllUnion};
            let mut u = HllUnion::new(lg_k);
            for t in [HllType::Hll4, HllType::Hll6, HllType::Hll8] {
                let mut s = HllSketch::new(lg_k, t);
                for i in 0..30u64 {
                    s.update(i);
                }
                let _ = (s.estimate(), s.upper_bound(datasketches::common::NumStdDev::Three));
                let d = HllSketch::deserialize(&s.serialize()).unwrap();
                u.update(&d);
            }
            let _ = (u.estimate(), u.to_sketch(HllType::Hll4).serialize());
        });
    }
    for lg_k in 4u8..=26 {
        case(format!("CpcSketch/CpcUnion lg_k={lg_k}: new, 30 updates, bounds, round trip, union"), &mut || {
            use datasketches::cpc::{CpcSketch, CpcUnion};
            let mut s = CpcSketch::new(lg_k);
            for i in 0..30u64 {
                s.update(i);
            }
            let _ = (s.estimate(), s.upper_bound(datasketches::common::NumStdDev::One), s.validate());
            let d = CpcSketch::deserialize(&s.serialize()).unwrap();
            let mut u = CpcUnion::new(lg_k);
            u.update(&d);
            u.update(&CpcSketch::new(4));
            let r = u.to_sketch();
            let _ = (r.estimate(), r.upper_bound(datasketches::common::NumStdDev::One), r.lower_bound(datasketches::common::NumStdDev::Three), r.serialize());
        });
    }
    // Count-Min helpers and Bloom builders over their documented ranges
    for re in [0.0f64, f64::MIN_POSITIVE, 1e-300, 1e-12, 1e-9, 1e-3, 0.5, 1.0, 2.0, 1e9, f64::MAX, f64::INFINITY] {
        case(format!("CountMinSketch::suggest_num_buckets({re:e})"), &mut || {
            let _ = datasketches::countmin::CountMinSketch::<u64>::suggest_num_buckets(re);
        });
    }
    for c in [0.0f64, f64::MIN_POSITIVE, 1e-9, 0.5, 0.99, 1.0 - f64::EPSILON, 1.0] {
        case(format!("CountMinSketch::suggest_num_hashes({c:e})"), &mut || {
            let _ = datasketches::countmin::CountMinSketch::<u64>::suggest_num_hashes(c);
        });
    }
    for n in [1u64, 2, 1000, 1 << 20, 1 << 32] {
        for fpp in [f64::MIN_POSITIVE, 1e-300, 1e-12, 1e-3, 0.5, 1.0 - f64::EPSILON, 1.0] {
            case(format!("BloomFilterBuilder::with_accuracy({n}, {fpp:e}) (built only when it needs <= 2^26 bits)"), &mut || {
                use datasketches::bloom::BloomFilterBuilder;
                let bits = BloomFilterBuilder::suggest_num_bits(n, fpp);
                let _ = BloomFilterBuilder::suggest_num_hashes_from_fpp(fpp);
                let _ = BloomFilterBuilder::suggest_num_hashes_from_accuracy(n, bits);
                if bits <= 1 << 26 {
                    let mut f = BloomFilterBuilder::with_accuracy(n, fpp).build();
                    f.insert(1u64);
                    let _ = (f.contains(&1u64), f.bits_used(), f.estimated_fpp(), f.serialize().len());
                }
            });
        }
    }
}
