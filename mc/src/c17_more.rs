//! C17 parts for the hook-less families.
use crate::common::{Ctx, catch};
use rayon::prelude::*;
use serde_json::json;

pub fn explorers(ctx: &Ctx) {
    let jobs: Vec<Box<dyn Fn() + Sync + Send>> = vec![
        Box::new(|| crate::c07::explore(ctx, &crate::c07::no_observer)),
        Box::new(|| crate::c08::explore(ctx, &crate::c08::no_observer)),
        Box::new(|| crate::c09::explore(ctx, &crate::c09::no_observer)),
        Box::new(|| crate::c10::explore(ctx, &crate::c10::no_observer)),
    ];
    jobs.par_iter().for_each(|j| j());
}

/// Minimum configurations: t-digest k=10 (cdf/pmf with [], one and many split points;
/// rank/quantile at 0, 1, min, max), Bloom 1 bit x 1 and 32767 hashes, FI map size 8
/// (purge to empty, merge of empties), Count-Min 1x3.
pub fn extremes(ctx: &Ctx) {
    let run = |what: &str, f: &mut dyn FnMut()| {
        if let Err(p) = catch(|| f()) {
            ctx.violation(&format!("panic|{}", p.site_key()), &format!("{what}: {} at {}:{}", p.message, p.file, p.line), json!({"kind":"extreme","what":what}));
        }
        ctx.add_states(1);
        ctx.add_transitions(1);
    };
    run("t-digest k=10: cdf/pmf with empty, single and many split points; rank/quantile at the ends", &mut || {
        use datasketches::tdigest::TDigestMut;
        for n in [1usize, 2, 3, 39, 40, 41, 500] {
            let mut t = TDigestMut::new(10);
            for i in 0..n {
                t.update(i as f64);
            }
            let (lo, hi) = (t.min_value().unwrap(), t.max_value().unwrap());
            let _ = (t.cdf(&[]), t.pmf(&[]), t.cdf(&[lo]), t.pmf(&[hi]), t.cdf(&[lo, (lo + hi) / 2.0 + 0.25, hi + 1.0]));
            let _ = (t.rank(lo), t.rank(hi), t.rank(lo - 1.0), t.rank(hi + 1.0), t.quantile(0.0), t.quantile(1.0), t.quantile(0.5));
            let f = t.freeze();
            let _ = (f.cdf(&[]), f.pmf(&[]), f.rank(lo), f.quantile(1.0));
        }
    });
    run("Bloom filter with 1 bit and 1 / 32767 hashes", &mut || {
        use datasketches::bloom::BloomFilterBuilder;
        for h in [1u16, 32767] {
            let mut f = BloomFilterBuilder::with_size(1, h).build();
            let _ = f.contains(&1u64);
            f.insert(1u64);
            let _ = (f.contains_and_insert(&2u64), f.bits_used(), f.estimated_fpp());
            let g = f.clone();
            f.union(&g);
            f.intersect(&g);
            f.invert();
            f.reset();
            let _ = datasketches::bloom::BloomFilter::deserialize(&g.serialize()).unwrap();
        }
    });
    run("Frequent Items map size 8: purge to empty, merge of empties", &mut || {
        use datasketches::frequencies::{ErrorType, FrequentItemsSketch};
        let mut s = FrequentItemsSketch::<i64>::new(8);
        for i in 0..7 {
            s.update(i);
        }
        let e = FrequentItemsSketch::<i64>::new(8);
        let mut m = FrequentItemsSketch::<i64>::new(8);
        m.merge(&e);
        m.merge(&s);
        m.merge(&e);
        let _ = (m.frequent_items(ErrorType::NoFalsePositives), m.frequent_items(ErrorType::NoFalseNegatives), m.estimate(&3));
        let _ = FrequentItemsSketch::<i64>::deserialize(&m.serialize()).unwrap();
        let _ = FrequentItemsSketch::<i64>::deserialize(&e.serialize()).unwrap();
    });
    run("Count-Min 1x3 for every counter type", &mut || {
        use datasketches::countmin::CountMinSketch;
        macro_rules! one {
            ($t:ty) => {{
                let mut s: CountMinSketch<$t> = CountMinSketch::new(1, 3);
                s.update(1u64);
                s.update_with_weight("x", 2 as $t);
                let o = s.clone();
                s.merge(&o);
                let _ = (s.estimate(1u64), s.upper_bound(1u64), s.lower_bound(7u64));
                let _ = CountMinSketch::<$t>::deserialize(&s.serialize()).unwrap();
            }};
        }
        one!(u8);
        one!(u16);
        one!(u32);
        one!(u64);
        one!(i8);
        one!(i16);
        one!(i32);
        one!(i64);
    });
}
