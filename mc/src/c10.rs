//! C10 — t-digest rank/quantile monotone, in range, mutually consistent.

use crate::common::{Ctx, Tier};
use crate::engine::{self, Step};
use crate::tdm::{self, Edges, Enc, GridCfg, Op, Pair, TdImage, Verdict};
use datasketches::tdigest::TDigestMut;
use rayon::prelude::*;
use serde_json::{Value, json};
use std::collections::BTreeMap;
use std::sync::Mutex;

pub type Observer = dyn Fn(&Ctx, &TDigestMut, &dyn Fn() -> Value) + Sync;
pub fn no_observer(_: &Ctx, _: &TDigestMut, _: &dyn Fn() -> Value) {}

/// Shared accumulators (merged into the Ctx at the end; keeps lock traffic low).
#[derive(Default)]
pub struct Acc {
    pub edges: Mutex<Edges>,
    /// clause key -> (digests on which the reference formulas fail it, first witness)
    pub suspended: Mutex<BTreeMap<String, (u64, String)>>,
    pub counters: Mutex<BTreeMap<String, u64>>,
    /// violation key -> smallest witness seen (deterministic whatever the thread timing)
    pub vios: Mutex<BTreeMap<String, VioAgg>>,
}

pub struct VioAgg {
    pub n: u64,
    pub primary: u64,
    pub tie: String,
    pub what: String,
    pub replay: Value,
}

/// size of a replay case: image length, or 1e6 per op plus the number of values it feeds
pub fn case_size(case: &Value) -> u64 {
    fn tree(t: &Value) -> u64 {
        if let Some(l) = t.get("leaf") { 1_000_000 + l[1].as_u64().unwrap_or(0) } else { tree(&t["node"][0]) + tree(&t["node"][1]) }
    }
    match case["kind"].as_str().unwrap_or("") {
        "td_image" => case["hex"].as_str().map(|h| h.len() as u64 / 2).unwrap_or(0),
        "td_tree" => tree(&case["tree"]),
        _ => case["ops"].as_array().map(|a| a.iter().map(|o| 1_000_000 + o.get("batch").map(|b| b[1].as_u64().unwrap_or(0)).or(o.get("stream").map(|b| b[2].as_u64().unwrap_or(0) - b[1].as_u64().unwrap_or(0))).unwrap_or(1)).sum()).unwrap_or(0),
    }
}

impl Acc {
    /// records one occurrence of `key`, keeping the smallest witness (size, then JSON text)
    pub fn vio(&self, key: &str, primary: u64, what: &dyn Fn() -> String, replay: &dyn Fn() -> Value) {
        let mut m = self.vios.lock().unwrap();
        match m.get_mut(key) {
            None => {
                let r = replay();
                m.insert(key.to_string(), VioAgg { n: 1, primary, tie: r.to_string(), what: what(), replay: r });
            }
            Some(a) => {
                a.n += 1;
                if primary > a.primary {
                    return;
                }
                let r = replay();
                let t = r.to_string();
                if primary < a.primary || t < a.tie {
                    a.primary = primary;
                    a.tie = t;
                    a.what = what();
                    a.replay = r;
                }
            }
        }
    }
    pub fn report(&self, v: &Verdict, primary: u64, prefix: &dyn Fn() -> String, replay: &dyn Fn() -> Value) {
        for (k, w) in &v.violations {
            self.vio(k, primary, &|| format!("{}: {w}", prefix()), replay);
        }
    }
    pub fn edges(&self, e: Edges) {
        if e.is_empty() {
            return;
        }
        let mut g = self.edges.lock().unwrap();
        for (k, v) in e {
            *g.entry(k).or_insert(0) += v;
        }
    }
    pub fn count(&self, k: &str, n: u64) {
        *self.counters.lock().unwrap().entry(k.to_string()).or_insert(0) += n;
    }
    pub fn verdict(&self, v: &Verdict, witness: &dyn Fn() -> String) {
        if !v.suspended.is_empty() {
            let mut s = self.suspended.lock().unwrap();
            for (k, w) in &v.suspended {
                // smallest witness text (length, then order): independent of thread timing
                let cand = format!("{} :: {w}", witness());
                let e = s.entry(k.clone()).or_insert_with(|| (0, cand.clone()));
                e.0 += 1;
                if (cand.len(), &cand) < (e.1.len(), &e.1) {
                    e.1 = cand;
                }
            }
        }
        if v.queries > 0 {
            let mut c = self.counters.lock().unwrap();
            *c.entry("rank/quantile grid queries compared with the reference formulas".into()).or_insert(0) += v.queries;
            *c.entry("  ... of which the library answer differs from the reference formulas (informational)".into()).or_insert(0) += v.lib_ne_ref_queries;
        }
    }
    pub fn flush(&self, ctx: &Ctx) {
        for (k, a) in self.vios.lock().unwrap().iter() {
            let mut case = a.replay.clone();
            if let Some(o) = case.as_object_mut() {
                o.insert("expect_key".into(), json!(k));
            }
            ctx.violation(k, &a.what, case);
            for _ in 1..a.n {
                ctx.violation(k, "", Value::Null);
            }
        }
        ctx.edges_merge(&self.edges.lock().unwrap());
        for (k, v) in self.counters.lock().unwrap().iter() {
            ctx.count(k, *v);
        }
        for (k, (n, w)) in self.suspended.lock().unwrap().iter() {
            ctx.count(&format!("admissibility: digests on which clause {k} is suspended"), *n);
            ctx.note(format!("ADMISSIBILITY: the reference formulas themselves fail clause {k} on {n} enumerated digests, so the clause is not applied to the library on exactly those digests (it stays in force everywhere else). First witness: {w}"));
        }
    }
}

// ---------------------------------------------------------------------------------------
// crafted digests
// ---------------------------------------------------------------------------------------

pub const CRAFT_WEIGHTS: [u64; 4] = [1, 2, 3, 8];
pub const CRAFT_MEANS: [f64; 4] = [0.0, 1.0, 2.0, 3.0];

pub fn crafted_lists() -> Vec<Vec<(f64, u64)>> {
    fn rec(n: usize, from: usize, cur: &mut Vec<(f64, u64)>, out: &mut Vec<Vec<(f64, u64)>>) {
        if cur.len() == n {
            out.push(cur.clone());
            return;
        }
        for mi in from..4 {
            for w in CRAFT_WEIGHTS {
                cur.push((CRAFT_MEANS[mi], w));
                rec(n, mi, cur, out);
                cur.pop();
            }
        }
    }
    let mut out = vec![];
    for n in 1..=4 {
        rec(n, 0, &mut vec![], &mut out);
    }
    out
}

fn crafted(ctx: &Ctx, acc: &Acc) {
    let lists = crafted_lists();
    ctx.count("crafted centroid lists (n 1..=4, weights {1,2,3,8}, means non-decreasing from {0,1,2,3})", lists.len() as u64);
    let cfg = GridCfg { qcap: 4096, sp_pts: 12 };
    let sampled = Mutex::new(0u32);
    lists.par_iter().for_each(|cs| {
        let mut e = Edges::new();
        let mut images = 0u64;
        for dmin in [0.0, 1.0] {
            for dmax in [0.0, 1.0] {
                let min = cs[0].0 - dmin;
                let max = cs[cs.len() - 1].0 + dmax;
                for k in [10u16, 100] {
                    for enc in Enc::ALL {
                        for rev in [false, true] {
                            if rev && !enc.native() {
                                continue; // the reference-implementation forms carry no flag
                            }
                            let img = TdImage { enc, k, flags: if rev { tdm::FLAG_REVERSE } else { 0 }, min, max, centroids: cs.clone(), buffered: vec![] };
                            let bytes = tdm::encode(&img, false);
                            images += 1;
                            *e.entry(format!("deserialize: {}", enc.name())).or_insert(0) += 1;
                            if rev {
                                *e.entry("deserialize: reverse_merge flag set".into()).or_insert(0) += 1;
                            }
                            if bytes.len() == 16 && enc == Enc::F64 || bytes.len() == 12 && enc == Enc::F32 {
                                *e.entry("deserialize: single-value form".into()).or_insert(0) += 1;
                            }
                            if cs[0].1 >= 3 && dmin > 0.0 {
                                *e.entry("crafted: heavy first centroid with min below it".into()).or_insert(0) += 1;
                            }
                            if cs[cs.len() - 1].1 >= 3 && dmax > 0.0 {
                                *e.entry("crafted: heavy last centroid with max above it".into()).or_insert(0) += 1;
                            }
                            let (v, dec) = tdm::check_image(&bytes, enc.is_f32(), cfg);
                            if let Some(d) = &dec {
                                if d.centroids != *cs || d.min != min || d.max != max || d.k != k {
                                    acc.vio("harness.codec", bytes.len() as u64, &|| "spec decode(encode(image)) != image".into(), &|| tdm::image_json(&bytes, enc.is_f32()));
                                }
                            }
                            acc.verdict(&v, &|| format!("{} image k={k} min={min} max={max} centroids={cs:?}", enc.name()));
                            if !v.violations.is_empty() {
                                acc.report(&v, bytes.len() as u64, &|| format!("crafted {} image k={k} rev={rev} min={min} max={max} centroids={cs:?}", enc.name()), &|| tdm::image_json(&bytes, enc.is_f32()));
                            }
                            if cs.len() == 3 && cs[0].1 == 8 && dmin > 0.0 && enc == Enc::F32 && k == 10 {
                                let mut s = sampled.lock().unwrap();
                                if *s < 2 {
                                    *s += 1;
                                    ctx.sample(json!({"crafted_image":{"encoding":enc.name(),"k":k,"reverse_merge":rev,"min":min,"max":max,"centroids":cs,"hex":crate::common::hex(&bytes)}}));
                                }
                            }
                        }
                    }
                }
            }
        }
        ctx.add_states(images);
        ctx.add_transitions(images);
        acc.count("crafted images deserialized and checked", images);
        acc.edges(e);
    });
}

// ---------------------------------------------------------------------------------------
// in-process digests
// ---------------------------------------------------------------------------------------

pub const KS: [u16; 7] = [10, 11, 29, 30, 100, 200, 500];

pub fn alphabet(k: u16, shapes: &[u8], sizes_idx: &[usize], pool: &[u8]) -> Vec<Op> {
    let cap4 = 4 * tdm::derived_capacity(k);
    let sizes = [1, 2, cap4 - 1, cap4, cap4 + 1, 10000];
    let mut a = vec![];
    for &s in shapes {
        for &zi in sizes_idx {
            a.push(Op::Batch { shape: s, size: sizes[zi] });
        }
    }
    for &j in pool {
        a.push(Op::Merge(j));
    }
    a.push(Op::Freeze);
    a.push(Op::Serde);
    a
}

fn dfs(ctx: &Ctx, acc: &Acc, obs: &Observer, k: u16, ops: &[Op], depth: usize, cfg: GridCfg, label: &str) {
    let init = Pair::new(k);
    let (nodes, _leaves) = engine::dfs_all(&init, ops, depth, &|p: &Pair, op: &Op, path: &[u16]| {
        let mut n = p.clone();
        let mut e = Edges::new();
        let seq = || -> Vec<Op> { path.iter().map(|&i| ops[i as usize].clone()).chain([op.clone()]).collect() };
        let r = n.apply(op, &mut e);
        acc.edges(e);
        if let Err((key, what)) = r {
            let case = tdm::ops_json(k, &seq(), "C10");
            acc.vio(&key, case_size(&case), &|| format!("k={k}: {what}"), &|| case.clone());
            return Step::Stop;
        }
        let v = n.check10(cfg);
        acc.verdict(&v, &|| format!("k={k} ops {:?}", seq().iter().map(|o| o.describe()).collect::<Vec<_>>()));
        if !v.violations.is_empty() {
            let case = tdm::ops_json(k, &seq(), "C10");
            acc.report(&v, case_size(&case), &|| format!("k={k} after {:?}", seq().iter().map(|o| o.describe()).collect::<Vec<_>>()), &|| case.clone());
        }
        obs(ctx, &n.td, &|| tdm::ops_json(k, &seq(), "C10"));
        Step::Next(n)
    });
    ctx.add_states(nodes);
    ctx.add_transitions(nodes);
    acc.count(&format!("in-process digests checked ({label})"), nodes);
}

pub struct Plan {
    pub k: u16,
    pub shapes: Vec<u8>,
    pub sizes_idx: Vec<usize>,
    pub pool: Vec<u8>,
    pub depth: usize,
    pub grid: GridCfg,
    pub label: String,
}

pub fn plans(tier: Tier) -> Vec<Plan> {
    let all_shapes: Vec<u8> = (0..7).collect();
    let all_sizes: Vec<usize> = (0..6).collect();
    let pool: Vec<u8> = (0..tdm::POOL_SIZE).collect();
    let mut v = vec![];
    for k in KS {
        let full = |depth: usize, grid: GridCfg| Plan {
            k,
            shapes: all_shapes.clone(),
            sizes_idx: all_sizes.clone(),
            pool: pool.clone(),
            depth,
            grid,
            label: format!("full alphabet (48 ops), depth {depth}, q grid cap {}, split points over {} v points", grid.qcap, grid.sp_pts),
        };
        // boundary sizes only
        let mid = |depth: usize, grid: GridCfg| Plan {
            k,
            shapes: all_shapes.clone(),
            sizes_idx: vec![0, 3, 4],
            pool: pool.clone(),
            depth,
            grid,
            label: format!("alphabet 7 shapes x sizes {{1,4cap,4cap+1}} + merge(pool[0..4]) + freeze + serde (27 ops), depth {depth}, q grid cap {}, split points over {} v points", grid.qcap, grid.sp_pts),
        };
        let small = |depth: usize, grid: GridCfg| Plan {
            k,
            shapes: vec![0, 1, 3, 4],
            sizes_idx: vec![0, 3, 4],
            pool: vec![1, 3],
            depth,
            grid,
            label: format!("alphabet 4 shapes (sorted, reversed, two clusters, magnitudes) x sizes {{1,4cap,4cap+1}} + merge(pool[1]), merge(pool[3]) + freeze + serde (16 ops), depth {depth}, q grid cap {}, split points over {} v points", grid.qcap, grid.sp_pts),
        };
        match tier {
            Tier::Quick => {
                if k <= 30 {
                    v.push(full(3, GridCfg { qcap: 384, sp_pts: 6 }));
                } else {
                    v.push(full(2, GridCfg { qcap: 256, sp_pts: 6 }));
                    v.push(small(3, GridCfg { qcap: 256, sp_pts: 6 }));
                }
            }
            Tier::Thorough => {
                v.push(full(3, GridCfg { qcap: if k >= 200 { 1024 } else { 2048 }, sp_pts: 8 }));
                if k <= 30 {
                    v.push(mid(4, GridCfg { qcap: 384, sp_pts: 6 }));
                } else {
                    v.push(small(4, GridCfg { qcap: 384, sp_pts: 6 }));
                }
            }
        }
    }
    v
}

fn inprocess(ctx: &Ctx, acc: &Acc, obs: &Observer) {
    let mut ps = plans(ctx.tier);
    if let Ok(f) = std::env::var("VERIF_ONLY_K") {
        let kk: u16 = f.parse().unwrap();
        ps.retain(|p| p.k == kk);
    }
    // biggest first so the long tasks start early
    ps.sort_by_key(|p| std::cmp::Reverse(p.k as usize * p.depth));
    ps.par_iter().for_each(|p| {
        let t0 = std::time::Instant::now();
        let ops = alphabet(p.k, &p.shapes, &p.sizes_idx, &p.pool);
        dfs(ctx, acc, obs, p.k, &ops, p.depth, p.grid, &p.label);
        if std::env::var("VERIF_DEBUG").is_ok() {
            eprintln!("k={} {}: {} ops, {:.1}s", p.k, p.label, ops.len(), t0.elapsed().as_secs_f64());
        }
    });
}

pub fn explore(ctx: &Ctx, obs: &Observer) {
    let acc = Acc::default();
    explore_with(ctx, obs, &acc);
    acc.flush(ctx);
}

fn explore_with(ctx: &Ctx, obs: &Observer, acc: &Acc) {
    if ctx.reduced {
        // observer runs (C11/C12/C17/C18): in-process digests only, k in {10, 30, 100}, depth 2
        let mut ps = plans(ctx.tier);
        ps.retain(|p| [10, 30, 100].contains(&p.k));
        let mut seen = std::collections::BTreeSet::new();
        ps.retain(|p| seen.insert(p.k));
        ps.par_iter().for_each(|p| {
            let ops = alphabet(p.k, &p.shapes, &p.sizes_idx, &p.pool);
            dfs(ctx, acc, obs, p.k, &ops, ctx.tier.pick(2, 3).min(p.depth), GridCfg { qcap: 64, sp_pts: 4 }, &format!("reduced: {}", p.label));
        });
        return;
    }
    if std::env::var("VERIF_SKIP_CRAFTED").is_err() {
        crafted(ctx, acc);
        if std::env::var("VERIF_DEBUG").is_ok() {
            eprintln!("crafted done at {:.1}s", ctx.start.elapsed().as_secs_f64());
        }
    }
    if std::env::var("VERIF_SKIP_INPROCESS").is_err() {
        inprocess(ctx, acc, obs);
    }
    extreme_values(ctx, acc);
}

/// Streams of the largest finite magnitudes of both signs (every finite f64 is a valid value):
/// differences and weighted sums of such means overflow f64 unless computed with care. The
/// full oracle is evaluated after every 50 values and at the end.
fn extreme_values(ctx: &Ctx, acc: &Acc) {
    let m = f64::MAX;
    let shapes: Vec<(&str, Box<dyn Fn(usize) -> f64 + Sync>)> = vec![
        ("block of -MAX then block of +MAX", Box::new(move |i| if i < 150 { -m } else { m })),
        ("alternating -MAX / +MAX", Box::new(move |i| if i % 2 == 0 { -m } else { m })),
        ("ramp from -MAX/1.5 to +MAX/1.5", Box::new(move |i| (i as f64 / 150.0 - 1.0) * (m / 1.5))),
        ("+-MAX around +-1", Box::new(move |i| match i % 4 { 0 => -m, 1 => m, 2 => 1.0, _ => -1.0 })),
        ("+MAX/2 .. +MAX (one sign)", Box::new(move |i| m / 2.0 + (i as f64 / 300.0) * (m / 2.0))),
    ];
    let mut n = 0u64;
    for (name, f) in &shapes {
        for k in [10u16, 20, 100] {
            let mut p = Pair::new(k);
            let mut e = tdm::Edges::new();
            let mut ops: Vec<Op> = vec![];
            for i in 0..300 {
                let op = Op::Value(f(i));
                ops.push(op.clone());
                n += 1;
                if let Err((key, what)) = p.apply(&op, &mut e) {
                    let case = tdm::ops_json(k, &ops, "C10");
                    acc.vio(&key, case_size(&case), &|| format!("k={k} extreme values [{name}] value {i}: {what}"), &|| case.clone());
                    break;
                }
                if i % 50 == 49 {
                    let v = p.check10(GridCfg { qcap: 64, sp_pts: 4 });
                    for (key, what) in v.violations {
                        let case = tdm::ops_json(k, &ops, "C10");
                        acc.vio(&key, case_size(&case), &|| format!("k={k} extreme values [{name}] after {} values: {what}", i + 1), &|| case.clone());
                    }
                }
            }
        }
    }
    ctx.add_states(n);
    ctx.add_transitions(n);
    acc.count("extreme-value streams: values offered (5 shapes x 3 k x 300, oracle every 50)", n);
}

pub fn run(ctx: &Ctx) -> i32 {
    match tdm::codec_self_test() {
        Ok(s) => ctx.note(format!("spec codec self-test against the repository's reference-implementation files: {s}")),
        Err(e) => {
            eprintln!("machinery error: t-digest spec codec self-test failed: {e}");
            return 2;
        }
    }
    explore(ctx, &no_observer);
    ctx.note("STATIC ORACLE NOTES: monotonicity is checked with slack 1e-12 (rank) / 1e-12 x the magnitude of the neighbouring centroid means (quantile) for floating-point rounding only; rank(quantile(q)) uses w_left/w_right = total weight of the tie groups of centroid means bracketing the answer.");
    ctx.sample(json!({"in_process":{"k":10,"ops":["update x199 [reversed ramp]","merge(pool[1])","serialize->deserialize"],"oracle":"q grid i/(8W) (<= cap) + {0,1,1/W,1-1/W}; v grid means/midpoints/min/max/min-1/max+1/64 points; rank in [0,1] monotone, quantile in [min,max] monotone, cdf==rank, pmf sums to 1, cdf(&[]) accepted, |rank(quantile(q))-q| <= (wl+wr)/2W+1/W, total_weight/min/max exact; TDigestMut and frozen TDigest"}}));
    {
        let e = ctx.edges.lock().unwrap();
        let need = [
            "compress on full buffer, forward direction",
            "compress on full buffer, reverse direction",
            "buffer boundary: buffer full (4*capacity)",
            "merge, forward direction",
            "merge, reverse direction",
            "freeze->unfreeze",
            "serialize->deserialize, multi form (native f64)",
            "deserialize: native f64",
            "deserialize: native f32",
            "deserialize: reference double BE",
            "deserialize: reference float BE",
            "crafted: heavy first centroid with min below it",
            "crafted: heavy last centroid with max above it",
            "update: non-finite value ignored",
        ];
        let missing: Vec<&str> = need.iter().copied().filter(|n| !e.contains_key(*n)).collect();
        if !missing.is_empty() && std::env::var("VERIF_SKIP_CRAFTED").is_err() && std::env::var("VERIF_SKIP_INPROCESS").is_err() && std::env::var("VERIF_ONLY_K").is_err() {
            eprintln!("machinery error: exploration is vacuous, edges not covered: {:?}", missing);
            if ctx.num_violations() == 0 {
                return 2;
            }
        }
    }
    let plan_desc: Vec<String> = plans(ctx.tier).iter().map(|p| format!("k={}: {}", p.k, p.label)).collect();
    let cov = json!({
        "exhaustive": true,
        "bounds": {
            "crafted": "every centroid list with 1..=4 centroids, weights {1,2,3,8}, means non-decreasing from {0,1,2,3}; min in {m0,m0-1}; max in {mn,mn+1}; k in {10,100}; encodings native f64 / native f32 / reference double BE / reference float BE; reverse_merge flag both ways (native forms); each through TDigestMut::deserialize",
            "in_process": plan_desc,
            "alphabet": "update of a batch {sorted ramp, reversed ramp, constant, two clusters, 1e-300..1e300 magnitudes, +-0.0, NaN/+-inf} x sizes {1,2,4cap-1,4cap,4cap+1,10000}; merge(pool[0..4]) (buffer-only same k; k=10 two clusters 5000 values; single value; empty); freeze->unfreeze; serialize->deserialize; ALL sequences to the stated depth (DFS, no state merging), oracle in every visited state",
            "grids": "q: i/N, N = min(8W, cap) with cap 4096 for crafted digests and the cap stated per plan for in-process digests, plus 0,1,1/W,1-1/W and, when capped, j/W,(j-1/2)/W and complements for j<=16; v: every centroid mean, every midpoint, min, max, min-1, max+1, nextafter(min,-inf), nextafter(max,+inf), 64 equally spaced; split points: [], singles, all sorted pairs and triples over the stated number (12 for crafted digests) of evenly chosen v points incl. one below min and one above max",
        },
    });
    ctx.finish(
        cov,
        vec![
            "centroid lists of in-process digests are read from serialize() of a clone through the harness's own decoder".into(),
            "the admissibility reference (tdm::RefDigest) is written from memory after the structure of datasketches-cpp get_rank/get_quantile with the tail/interpolation expressions of the t-digest reference algorithm; each clause is evaluated on it first, digest by digest".into(),
            "reverse_merge and buffer occupancy used for edge names come from the Debug output / a model counter and do not enter any oracle".into(),
        ],
    )
}
