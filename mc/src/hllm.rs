//! HLL reference model, lock-step trio of real sketches, and the per-state oracle (C02),
//! shared with C01/C03/C11/C12/C17/C18.

use crate::common::{Ctx, catch};
use datasketches::common::NumStdDev;
use datasketches::hll::{HllSketch, HllType};
use datasketches::verif::VerifHllState;
use serde_json::{Value, json};
use std::collections::{BTreeMap, BTreeSet};

pub const TYPES: [HllType; 3] = [HllType::Hll4, HllType::Hll6, HllType::Hll8];
pub const NSD: [NumStdDev; 3] = [NumStdDev::One, NumStdDev::Two, NumStdDev::Three];

pub fn coupon(slot: u32, value: u8) -> u32 {
    ((value as u32) << 26) | (slot & 0x3FF_FFFF)
}
pub fn c_slot(c: u32) -> u32 {
    c & 0x3FF_FFFF
}
pub fn c_val(c: u32) -> u8 {
    (c >> 26) as u8
}

/// Model precondition for hook use: value 1..=63 (a coupon produced by hashing never has
/// value 0, and never is the all-zero sentinel).
pub fn valid_coupon(c: u32) -> bool {
    (1..=63).contains(&c_val(c))
}

#[derive(Clone, Default, Debug, PartialEq, Eq, Hash)]
pub struct RefHll {
    pub coupons: BTreeSet<u32>,
}

impl RefHll {
    pub fn offer(&mut self, c: u32) -> bool {
        self.coupons.insert(c)
    }
    pub fn registers(&self, lg_k: u8) -> Vec<u8> {
        let k = 1usize << lg_k;
        let mut r = vec![0u8; k];
        for &c in &self.coupons {
            let s = (c_slot(c) as usize) & (k - 1);
            r[s] = r[s].max(c_val(c));
        }
        r
    }
}

/// Exact kxq split as the sum of inverse powers of two (exactly representable for k <= 2^21).
pub fn kxq_of(regs: &[u8]) -> (f64, f64) {
    let mut a = 0.0f64;
    let mut b = 0.0f64;
    for &v in regs {
        let p = (-(v as f64)).exp2();
        if v < 32 { a += p } else { b += p }
    }
    (a, b)
}

/// The C02 oracle on one dumped state against the reference coupon set.
/// Returns (violation key, description) pairs.
pub fn expected_mode(lg_k: u8, distinct_coupons: usize) -> u8 {
    if distinct_coupons < 8 {
        0
    } else if lg_k < 8 || distinct_coupons > 3 * (1usize << (lg_k - 3)) / 4 {
        2
    } else {
        1
    }
}

pub fn check_state(st: &VerifHllState, r: &RefHll, lg_k: u8) -> Vec<(String, String)> {
    check_state_with(st, r, &r.registers(lg_k), lg_k)
}

pub fn check_state_with(st: &VerifHllState, r: &RefHll, want: &[u8], lg_k: u8) -> Vec<(String, String)> {
    let mut out = vec![];
    let t = st.tgt;
    if st.lg_k != lg_k {
        out.push(("hll.lg_k".into(), format!("lg_k {} != configured {}", st.lg_k, lg_k)));
    }
    if st.mode < 2 {
        let stored: Vec<u32> = st.table.iter().copied().filter(|&c| c != 0).collect();
        let set: BTreeSet<u32> = stored.iter().copied().collect();
        if set.len() != stored.len() {
            out.push((format!("hll{t}.coupons.duplicate"), format!("coupon table holds a duplicate: {:x?}", stored)));
        }
        if set != r.coupons {
            let missing: Vec<_> = r.coupons.difference(&set).take(4).collect();
            let extra: Vec<_> = set.difference(&r.coupons).take(4).collect();
            out.push((
                format!("hll{t}.coupons.content.mode{}", st.mode),
                format!("coupon set differs from model: missing {:x?} extra {:x?} (model size {}, stored {})", missing, extra, r.coupons.len(), set.len()),
            ));
        }
        if st.len != stored.len() {
            out.push((format!("hll{t}.coupons.len"), format!("stored count {} but {} non-empty slots", st.len, stored.len())));
        }
        if st.table.len() != 1 << st.lg_arr {
            out.push((format!("hll{t}.coupons.lg_arr"), format!("table length {} != 2^{}", st.table.len(), st.lg_arr)));
        }
    } else {
        if st.registers != want {
            let idx = st.registers.iter().zip(want.iter()).position(|(a, b)| a != b).unwrap_or(0);
            out.push((
                format!("hll{t}.registers"),
                format!("register[{idx}] = {} but per-slot maximum is {} (cur_min {})", st.registers.get(idx).copied().unwrap_or(0), want.get(idx).copied().unwrap_or(0), st.cur_min),
            ));
        }
        let regs = &st.registers;
        if t == 4 {
            let min = regs.iter().copied().min().unwrap_or(0);
            if st.cur_min != min {
                out.push(("hll4.cur_min".into(), format!("cur_min {} but minimum register is {}", st.cur_min, min)));
            }
            let cnt = regs.iter().filter(|&&v| v == st.cur_min).count() as u32;
            if st.num_at_cur_min != cnt {
                out.push(("hll4.num_at_cur_min".into(), format!("num_at_cur_min {} but {} registers equal cur_min {}", st.num_at_cur_min, cnt, st.cur_min)));
            }
            let aux: BTreeMap<u32, u8> = st.aux.clone().unwrap_or_default().into_iter().collect();
            if aux.len() != st.aux.as_ref().map(|a| a.len()).unwrap_or(0) {
                out.push(("hll4.aux.duplicate".into(), "aux map holds two entries for one slot".into()));
            }
            for (s, &raw) in st.raw4.iter().enumerate() {
                let in_aux = aux.get(&(s as u32));
                if raw == 15 {
                    match in_aux {
                        None => out.push(("hll4.aux.missing".into(), format!("slot {s} has the aux token but no aux entry"))),
                        Some(&v) => {
                            if v < st.cur_min.saturating_add(15) {
                                out.push(("hll4.aux.range".into(), format!("aux entry slot {s} value {v} is representable in 4 bits at cur_min {}", st.cur_min)));
                            }
                        }
                    }
                } else if in_aux.is_some() {
                    out.push(("hll4.aux.stale".into(), format!("slot {s} has an aux entry but nibble {raw}")));
                }
            }
        } else {
            let zeros = regs.iter().filter(|&&v| v == 0).count() as u32;
            if st.num_at_cur_min != zeros {
                out.push((format!("hll{t}.num_zeros"), format!("num_zeros {} but {} registers are zero", st.num_at_cur_min, zeros)));
            }
        }
        let (a, b) = kxq_of(regs);
        if st.kxq0 != a || st.kxq1 != b {
            out.push((format!("hll{t}.kxq"), format!("kxq0/kxq1 = {}/{} but registers give {}/{}", st.kxq0, st.kxq1, a, b)));
        }
    }
    out
}

/// C01 ordering clause on one sketch.
pub fn check_bounds(s: &HllSketch) -> Vec<(String, String)> {
    let mut out = vec![];
    let e = s.estimate();
    let lb: Vec<f64> = NSD.iter().map(|&n| s.lower_bound(n)).collect();
    let ub: Vec<f64> = NSD.iter().map(|&n| s.upper_bound(n)).collect();
    let all = [lb[2], lb[1], lb[0], e, ub[0], ub[1], ub[2]];
    if all.iter().any(|x| !x.is_finite() || *x < 0.0) {
        out.push(("hll.bounds.finite".into(), format!("non-finite or negative estimate/bound: {:?}", all)));
    } else if all.windows(2).any(|w| w[0] > w[1]) {
        out.push(("hll.bounds.order".into(), format!("lb3<=lb2<=lb1<=est<=ub1<=ub2<=ub3 violated: {:?}", all)));
    }
    out
}

pub fn obs_est(s: &HllSketch) -> [u64; 7] {
    [
        s.estimate().to_bits(),
        s.lower_bound(NumStdDev::One).to_bits(),
        s.lower_bound(NumStdDev::Two).to_bits(),
        s.lower_bound(NumStdDev::Three).to_bits(),
        s.upper_bound(NumStdDev::One).to_bits(),
        s.upper_bound(NumStdDev::Two).to_bits(),
        s.upper_bound(NumStdDev::Three).to_bits(),
    ]
}

/// Three real sketches (Hll4, Hll6, Hll8) fed in lock-step, plus the reference.
#[derive(Clone)]
pub struct Trio {
    pub lg_k: u8,
    pub s: [HllSketch; 3],
    pub r: RefHll,
    /// expected registers, maintained incrementally
    pub want: Vec<u8>,
}

impl Trio {
    pub fn new(lg_k: u8) -> Self {
        Trio {
            lg_k,
            s: [
                HllSketch::new(lg_k, HllType::Hll4),
                HllSketch::new(lg_k, HllType::Hll6),
                HllSketch::new(lg_k, HllType::Hll8),
            ],
            r: RefHll::default(),
            want: vec![0; 1 << lg_k],
        }
    }

    fn note(&mut self, c: u32) {
        self.r.offer(c);
        let k = self.want.len();
        let s = (c_slot(c) as usize) & (k - 1);
        self.want[s] = self.want[s].max(c_val(c));
    }

    /// Offers a coupon checking only what public accessors show (no O(k) dump).
    pub fn offer_light(&mut self, c: u32) -> Vec<(String, String)> {
        let mut out = vec![];
        for (i, s) in self.s.iter_mut().enumerate() {
            if let Err(p) = catch(|| s.verif_update_with_coupon(c)) {
                out.push((format!("panic|{}", p.site_key()), format!("Hll{} update panicked: {} at {}:{}", [4, 6, 8][i], p.message, p.file, p.line)));
                return out;
            }
        }
        self.note(c);
        let o: Vec<[u64; 7]> = self.s.iter().map(obs_est).collect();
        if o[0] != o[1] || o[1] != o[2] {
            out.push(("hll.types_disagree".into(), format!("estimate/bounds differ across target types: Hll4 est {} Hll6 est {} Hll8 est {}", f64::from_bits(o[0][0]), f64::from_bits(o[1][0]), f64::from_bits(o[2][0]))));
        }
        out.extend(check_bounds(&self.s[0]));
        out
    }

    /// Full oracle on the current state (used periodically after `offer_light`).
    pub fn check_full(&self) -> Vec<(String, String)> {
        let mut out = self.check_mode();
        for s in &self.s {
            out.extend(check_state_with(&s.verif_state(), &self.r, &self.want, self.lg_k));
            out.extend(check_bounds(s));
        }
        out
    }

    pub fn from_coupons(lg_k: u8, cs: &[u32]) -> Self {
        let mut t = Trio::new(lg_k);
        for &c in cs {
            for s in t.s.iter_mut() {
                s.verif_update_with_coupon(c);
            }
            t.note(c);
        }
        t
    }

    /// Offers one coupon to all three sketches and runs the oracle.
    /// Returns the violations found (key, what) and the edges taken.
    /// Offers one coupon to all three sketches and runs the oracle; a panic anywhere (update or
    /// accessor) is itself a violation.
    pub fn offer(&mut self, c: u32, edges: &mut BTreeMap<String, u64>) -> Vec<(String, String)> {
        match catch(|| self.offer_inner(c, edges)) {
            Ok(v) => v,
            Err(p) => vec![(format!("panic|{}", p.site_key()), format!("panicked while offering coupon {c:#x} / reading the state: {} at {}:{}", p.message, p.file, p.line))],
        }
    }

    fn offer_inner(&mut self, c: u32, edges: &mut BTreeMap<String, u64>) -> Vec<(String, String)> {
        assert!(valid_coupon(c), "model precondition: coupon value in 1..=63");
        let mut out = vec![];
        let before: Vec<VerifHllState> = self.s.iter().map(|s| s.verif_state()).collect();
        let was_new = !self.r.coupons.contains(&c);
        for (i, s) in self.s.iter_mut().enumerate() {
            if let Err(p) = catch(|| s.verif_update_with_coupon(c)) {
                out.push((
                    format!("panic|{}", p.site_key()),
                    format!("Hll{} update panicked: {} at {}:{}", [4, 6, 8][i], p.message, p.file, p.line),
                ));
                return out;
            }
        }
        self.note(c);
        let after: Vec<VerifHllState> = self.s.iter().map(|s| s.verif_state()).collect();
        for i in 0..3 {
            out.extend(check_state_with(&after[i], &self.r, &self.want, self.lg_k));
            out.extend(check_bounds(&self.s[i]));
            if !was_new && !same_content(&before[i], &after[i], true) {
                out.push((format!("hll{}.duplicate_changes_state", [4, 6, 8][i]), format!("re-offering coupon {:#x} changed the sketch", c)));
            }
            if after[i].mode < before[i].mode {
                out.push(("hll.mode_regressed".into(), format!("mode went from {} to {}", before[i].mode, after[i].mode)));
            }
            record_edges(&before[i], &after[i], c, self.lg_k, edges);
        }
        // identical estimates and bounds across the three types
        let o: Vec<[u64; 7]> = self.s.iter().map(obs_est).collect();
        if o[0] != o[1] || o[1] != o[2] {
            out.push((
                "hll.types_disagree".into(),
                format!(
                    "estimate/bounds differ across target types: Hll4 est {} Hll6 est {} Hll8 est {}",
                    f64::from_bits(o[0][0]),
                    f64::from_bits(o[1][0]),
                    f64::from_bits(o[2][0])
                ),
            ));
        }
        if after[0].mode != after[1].mode || after[1].mode != after[2].mode {
            out.push(("hll.types_mode_disagree".into(), "the three types are in different modes after the same stream".into()));
        }
        out.extend(self.check_mode());
        out
    }

    /// A sketch fed from empty is in the mode the textbook model prescribes for its number of
    /// distinct coupons: list below 8, then (lg_k >= 8) a set up to 3/4 of 2^(lg_k-3), then the
    /// register array. (The estimator, and so every estimate and bound, depends on the mode.)
    pub fn check_mode(&self) -> Vec<(String, String)> {
        let n = self.r.coupons.len();
        let want = expected_mode(self.lg_k, n);
        let mut out = vec![];
        for s in &self.s {
            let st = s.verif_state();
            if st.mode != want {
                out.push(("hll.mode".into(), format!("Hll{} lg_k={} with {n} distinct coupons is in mode {} (0 list, 1 set, 2 array); the model prescribes {want}", st.tgt, self.lg_k, st.mode)));
                break;
            }
        }
        out
    }

    /// Content fingerprint for the "reached from elsewhere" comparison: registers / coupon
    /// sets and Array4 bookkeeping, not the order-dependent HIP accumulator.
    pub fn fingerprint(&self) -> Vec<u8> {
        let mut v = vec![];
        for s in &self.s {
            let st = s.verif_state();
            v.push(st.mode);
            v.push(st.cur_min);
            v.extend(st.num_at_cur_min.to_le_bytes());
            if st.mode < 2 {
                let mut cs: Vec<u32> = st.table.iter().copied().filter(|&c| c != 0).collect();
                cs.sort_unstable();
                v.extend((st.lg_arr as u32).to_le_bytes());
                for c in cs {
                    v.extend(c.to_le_bytes());
                }
            } else {
                v.extend(&st.registers);
                let mut aux = st.aux.clone().unwrap_or_default();
                aux.sort_unstable();
                for (s, val) in aux {
                    v.extend(s.to_le_bytes());
                    v.push(val);
                }
                v.extend(st.kxq0.to_bits().to_le_bytes());
                v.extend(st.kxq1.to_bits().to_le_bytes());
            }
        }
        v
    }
}

pub fn same_content(a: &VerifHllState, b: &VerifHllState, with_hip: bool) -> bool {
    let mut ta: Vec<u32> = a.table.iter().copied().filter(|&c| c != 0).collect();
    let mut tb: Vec<u32> = b.table.iter().copied().filter(|&c| c != 0).collect();
    ta.sort_unstable();
    tb.sort_unstable();
    let mut xa = a.aux.clone().unwrap_or_default();
    let mut xb = b.aux.clone().unwrap_or_default();
    xa.sort_unstable();
    xb.sort_unstable();
    a.mode == b.mode
        && ta == tb
        && a.registers == b.registers
        && a.cur_min == b.cur_min
        && a.num_at_cur_min == b.num_at_cur_min
        && xa == xb
        && a.kxq0.to_bits() == b.kxq0.to_bits()
        && a.kxq1.to_bits() == b.kxq1.to_bits()
        && a.ooo == b.ooo
        && (!with_hip || a.hip_accum.to_bits() == b.hip_accum.to_bits())
}

fn aux_initial_lg(lg_k: u8) -> u32 {
    const T: [u8; 27] = [0, 2, 2, 2, 2, 2, 2, 3, 3, 3, 4, 4, 5, 5, 6, 7, 8, 9, 10, 11, 12, 13, 14, 15, 16, 17, 18];
    T[lg_k as usize] as u32
}

pub fn record_edges(b: &VerifHllState, a: &VerifHllState, c: u32, lg_k: u8, edges: &mut BTreeMap<String, u64>) {
    let t = a.tgt;
    let mut e = |s: String| *edges.entry(s).or_insert(0) += 1;
    match (b.mode, a.mode) {
        (0, 1) => e("List->Set".to_string()),
        (0, 2) => e(format!("List->Array{t}")),
        (1, 2) => e(format!("Set->Array{t}")),
        (1, 1) if a.lg_arr != b.lg_arr => e(format!("Set grow lg{}->lg{}", b.lg_arr, a.lg_arr)),
        _ => {}
    }
    if b.mode == 2 && a.mode == 2 && t == 4 {
        let k = 1u32 << lg_k;
        let slot = (c_slot(c) & (k - 1)) as usize;
        if b.registers[slot] != a.registers[slot] {
            let rb = b.raw4[slot];
            let shifted_new = c_val(c) - b.cur_min;
            if rb == 15 {
                e("Array4 case1 (exception->exception)".to_string());
            } else if shifted_new >= 15 {
                e("Array4 case3 (normal->exception)".to_string());
            } else {
                e("Array4 case4 (normal->normal)".to_string());
            }
        }
        if a.cur_min != b.cur_min {
            let had_aux = b.aux.as_ref().map(|x| !x.is_empty()).unwrap_or(false);
            e(format!("Array4 shift_to_bigger_cur_min aux_{} (+{})", if had_aux { "nonempty" } else { "empty" }, a.cur_min - b.cur_min));
            if had_aux {
                let na = a.aux.as_ref().map(|x| x.len()).unwrap_or(0);
                let nb = b.aux.as_ref().map(|x| x.len()).unwrap_or(0);
                if na < nb {
                    e("Array4 shift moved an exception back into the 4-bit array".to_string());
                }
            }
        }
        let na = a.aux.as_ref().map(|x| x.len()).unwrap_or(0);
        let nb = b.aux.as_ref().map(|x| x.len()).unwrap_or(0);
        let cap0 = 1usize << aux_initial_lg(lg_k);
        if 4 * nb <= 3 * cap0 && 4 * na > 3 * cap0 {
            e("AuxMap grow".to_string());
        }
    }
    if b.mode == 2 && a.mode == 2 && b.registers != a.registers {
        let v = c_val(c);
        if v >= 32 {
            e("register value >= 32 (kxq1)".to_string());
        }
    }
}

pub fn replay_json(lg_k: u8, start: &[u32], ops: &[u32]) -> Value {
    json!({"kind": "hll_coupons", "lg_k": lg_k, "coupons": start.iter().chain(ops.iter()).collect::<Vec<_>>(), "start_len": start.len()})
}

/// Replays a coupon list on a fresh trio, running the oracle after every step.
pub fn replay(case: &Value) -> String {
    let lg_k = case["lg_k"].as_u64().unwrap() as u8;
    let cs: Vec<u32> = case["coupons"].as_array().unwrap().iter().map(|v| v.as_u64().unwrap() as u32).collect();
    let mut t = Trio::new(lg_k);
    let mut edges = BTreeMap::new();
    let mut log = String::new();
    for (i, &c) in cs.iter().enumerate() {
        let v = t.offer(c, &mut edges);
        for (k, w) in v {
            log.push_str(&format!("step {i} coupon {c:#x}: VIOLATES {k}: {w}\n"));
        }
    }
    log.push_str(&format!("final estimates: {:?}\n", t.s.iter().map(|s| s.estimate()).collect::<Vec<_>>()));
    log
}

pub fn report(ctx: &Ctx, vs: Vec<(String, String)>, lg_k: u8, start: &[u32], ops: &[u32]) -> bool {
    let mut new = false;
    for (k, w) in vs {
        new |= k.starts_with("panic|");
        new |= ctx.violation(&k, &format!("lg_k={lg_k}: {w}"), replay_json(lg_k, start, ops));
    }
    new
}
