//! C17 parts for the hook-less families.
use crate::common::Ctx;
use rayon::prelude::*;

pub fn explorers(ctx: &Ctx) {
    let jobs: Vec<Box<dyn Fn() + Sync + Send>> = vec![
        Box::new(|| crate::c08::explore(ctx, &crate::c08::no_observer)),
        Box::new(|| crate::c09::explore(ctx, &crate::c09::no_observer)),
    ];
    jobs.par_iter().for_each(|j| j());
}

pub fn extremes(_ctx: &Ctx) {}
