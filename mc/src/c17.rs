//! C17 — no valid sequence of public API calls panics, in debug or release builds.
//! Re-runs the family explorers (valid sequences only; every step under catch_unwind) in
//! TWO builds — this release binary and the `chk` profile (debug-assertions + overflow
//! checks) as a child process — plus the configuration extremes the property lists.

use crate::common::{Ctx, Tier, catch};
use crate::cpcm;
use crate::hllm::coupon;
use datasketches::cpc::CpcSketch;
use datasketches::hll::{HllSketch, HllType};
use rayon::prelude::*;
use serde_json::{Value, json};

fn panic_only(k: &str) -> bool {
    k.starts_with("panic|")
}

fn guard(ctx: &Ctx, what: &str, replay: Value, f: impl FnOnce()) {
    if let Err(p) = catch(f) {
        ctx.violation(&format!("panic|{}", p.site_key()), &format!("{what}: {} at {}:{}", p.message, p.file, p.line), replay);
    }
    ctx.add_transitions(1);
    ctx.add_states(1);
}

/// Configuration extremes (DESIGN §3/C17).
fn extremes(ctx: &Ctx) {
    let jobs: Vec<Box<dyn Fn() + Sync + Send>> = vec![
        // HLL lg_k 4 and 21, all types, through every promotion, with an Hll4 cur_min shift
        // while the aux map is populated
        Box::new(|| {
            for lg_k in [4u8, 21] {
                for t in [HllType::Hll4, HllType::Hll6, HllType::Hll8] {
                    guard(ctx, &format!("HLL lg_k={lg_k} {:?} full promotion + cur_min shift with aux entries", t), json!({"kind":"extreme","what":"hll","lg_k":lg_k}), || {
                        let k = 1u32 << lg_k;
                        let mut s = HllSketch::new(lg_k, t);
                        // public updates first: list -> set -> array
                        for i in 0..(k as u64 / 4).max(64) {
                            s.update(i);
                        }
                        let _ = (s.estimate(), s.serialize().len());
                        // then crafted coupons: exceptions, then fill every slot so that cur_min moves
                        for (slot, v) in [(0u32, 63u8), (1, 40), (2, 17), (k - 1, 33)] {
                            s.verif_update_with_coupon(coupon(slot, v));
                        }
                        for v in 1..=3u8 {
                            for slot in 0..k {
                                s.verif_update_with_coupon(coupon(slot, v));
                            }
                            let _ = s.estimate();
                        }
                        let img = s.serialize();
                        let d = HllSketch::deserialize(&img).expect("own image");
                        let _ = (d.estimate(), d.upper_bound(datasketches::common::NumStdDev::Three));
                    });
                }
            }
        }),
        // CPC lg_k 4, 21, 22 (and 26 through Sparse/Hybrid): serialize in every reachable flavor
        Box::new(|| {
            let lgs: Vec<u8> = if ctx.tier == Tier::Quick { vec![4, 21, 22] } else { vec![4, 12, 21, 22, 23, 26] };
            lgs.par_iter().for_each(|&lg_k| {
                guard(ctx, &format!("CPC lg_k={lg_k}: update through Sparse/Hybrid/Pinned with serialize at each flavor"), json!({"kind":"extreme","what":"cpc","lg_k":lg_k}), || {
                    let k = 1u64 << lg_k;
                    let mut s = CpcSketch::new(lg_k);
                    let mut last_flavor = 0u8;
                    if lg_k <= 12 {
                        // small sketches: crafted column-major pairs through the whole life
                        let limit = cpcm::max_coupons(lg_k) as u64;
                        let mut c = 0u64;
                        'outer: for col in 0..64u32 {
                            for row in 0..(k as u32) {
                                s.verif_row_col_update(cpcm::rc(row, col));
                                c += 1;
                                let fl = cpcm::flavor_of(lg_k, c as u32);
                                if fl != last_flavor || c == limit {
                                    last_flavor = fl;
                                    let img = s.serialize();
                                    let d = CpcSketch::deserialize(&img).expect("own image");
                                    assert_eq!(d.num_coupons(), s.num_coupons());
                                    let _ = (s.estimate(), d.estimate());
                                }
                                if c >= limit {
                                    break 'outer;
                                }
                            }
                        }
                    } else {
                        // large sketches: hashed items (sorted crafted pairs make the pair table's
                        // linear probing quadratic) until just past the Hybrid -> Pinned change
                        // (lg_k 26: just past Sparse -> Hybrid in quick, Pinned in thorough)
                        let target = if lg_k >= 26 && ctx.tier == Tier::Quick { (3 * k) / 32 + 4096 } else { k / 2 + 4096 };
                        let mut i = 0u64;
                        while (s.num_coupons() as u64) < target {
                            s.update(i);
                            i += 1;
                            let fl = cpcm::flavor_of(lg_k, s.num_coupons());
                            if fl != last_flavor {
                                last_flavor = fl;
                                let img = s.serialize();
                                let d = CpcSketch::deserialize(&img).expect("own image");
                                assert_eq!(d.num_coupons(), s.num_coupons());
                                let _ = (s.estimate(), s.lower_bound(datasketches::common::NumStdDev::Two), d.estimate());
                            }
                        }
                        let img = s.serialize();
                        let d = CpcSketch::deserialize(&img).expect("own image");
                        assert_eq!(d.num_coupons(), s.num_coupons());
                    }
                    // public updates on top
                    for i in 0..1000u64 {
                        s.update(i);
                    }
                    let _ = s.serialize();
                });
            });
        }),
        Box::new(|| crate::c17_more::extremes(ctx)),
        Box::new(|| crate::c17_more::param_extremes(ctx)),
        // out-of-order HLL estimates across the whole composite table (every knot, both ends)
        Box::new(|| {
            crate::c01::hll_composite_continuity(ctx);
        }),
    ];
    jobs.par_iter().enumerate().for_each(|(i, j)| {
        let t = std::time::Instant::now();
        j();
        if std::env::var("VERIF_DEBUG").is_ok() {
            eprintln!("C17 extremes job {i}: {:.1}s", t.elapsed().as_secs_f64());
        }
    });
}

fn explorers(ctx: &Ctx) {
    let jobs: Vec<Box<dyn Fn() + Sync + Send>> = vec![
        Box::new(|| crate::c02::explore(ctx, &crate::c02::no_observer)),
        Box::new(|| crate::c03::explore(ctx, &crate::c03::no_observer)),
        Box::new(|| crate::c04::explore(ctx, &crate::c04::no_observer)),
        Box::new(|| crate::c05::explore(ctx, &crate::c05::no_observer)),
        Box::new(|| crate::c06::explore(ctx, &crate::c06::no_observer)),
        Box::new(|| crate::c17_more::explorers(ctx)),
    ];
    jobs.par_iter().enumerate().for_each(|(i, j)| {
        let t = std::time::Instant::now();
        j();
        if std::env::var("VERIF_DEBUG").is_ok() {
            eprintln!("C17 explorer job {i}: {:.1}s", t.elapsed().as_secs_f64());
        }
    });
}

pub fn run(ctx: &Ctx) -> i32 {
    let child = std::env::var("MCX_CHILD").is_ok();
    explorers(ctx);
    extremes(ctx);
    if child {
        return ctx.finish_child();
    }
    // second build: the chk profile (debug-assertions=on, overflow-checks=on)
    let exe = std::env::current_exe().ok().and_then(|p| p.parent().map(|d| d.join("../chk/mcx")));
    let mut chk_states = 0u64;
    let mut chk_transitions = 0u64;
    let mut chk_wall = 0.0;
    match exe {
        Some(p) if p.exists() => {
            let out = std::process::Command::new(&p).arg("C17").arg("--tier").arg(ctx.tier.name()).env("MCX_CHILD", "1").output();
            match out {
                Err(e) => {
                    eprintln!("machinery error: cannot run the chk build {}: {e}", p.display());
                    return 2;
                }
                Ok(o) => {
                    let txt = String::from_utf8_lossy(&o.stdout);
                    let mut got = false;
                    let mut forwarded = false;
                    for l in txt.lines() {
                        if let Some(j) = l.strip_prefix("CHILD_RESULT ") {
                            if let Ok(v) = serde_json::from_str::<Value>(j) {
                                got = true;
                                chk_states = v["states"].as_u64().unwrap_or(0);
                                chk_transitions = v["transitions"].as_u64().unwrap_or(0);
                                chk_wall = v["wall_s"].as_f64().unwrap_or(0.0);
                                for x in v["violations"].as_array().cloned().unwrap_or_default() {
                                    ctx.adopt_violation(x["property"].as_str().unwrap_or("C17"), &format!("chk-build|{}", x["key"].as_str().unwrap_or("")), x["what"].as_str().unwrap_or(""), x["replay"].as_str().unwrap_or(""), x["occurrences"].as_u64().unwrap_or(1));
                                }
                                for x in v["known"].as_array().cloned().unwrap_or_default() {
                                    ctx.note_known(x["property"].as_str().unwrap_or("C17"), x["key"].as_str().unwrap_or(""), x["what"].as_str().unwrap_or(""), x["occurrences"].as_u64().unwrap_or(1));
                                }
                            }
                        } else if l.starts_with("VIOLATION") || l.starts_with("  key:") || l.starts_with("  what:") {
                            if l.starts_with("VIOLATION") {
                                forwarded = true;
                            }
                            println!("{l}");
                        }
                    }
                    if !got && forwarded {
                        // the child reported violations and was then taken down by a panic inside
                        // the library: its verdict stands although it could not send its summary
                        crate::common::VIOLATION_PRINTED.store(true, std::sync::atomic::Ordering::SeqCst);
                        ctx.note("the chk build reported the violations printed above and then died of a library panic outside a guarded step; its counters are missing".to_string());
                        let _ = ctx.finish(json!({"exhaustive": false, "bounds": "chk build aborted by a library panic"}), vec![]);
                        return 1;
                    }
                    if !got {
                        eprintln!("machinery error: the chk build produced no result (exit {:?})\n{}", o.status.code(), String::from_utf8_lossy(&o.stderr).lines().take(20).collect::<Vec<_>>().join("\n"));
                        return 2;
                    }
                }
            }
        }
        _ => {
            eprintln!("machinery error: chk build of the harness not found (run: cargo build --profile chk)");
            return 2;
        }
    }
    ctx.count("chk build (debug-assertions + overflow-checks): states", chk_states);
    ctx.count("chk build: transitions", chk_transitions);
    ctx.note(format!("chk build wall time {:.1}s", chk_wall));
    ctx.add_states(chk_states);
    ctx.add_transitions(chk_transitions);
    ctx.sample(json!({"explorer":"every op of the C02..C10 explorations (valid sequences only) under catch_unwind, in the release build and in the chk build","extreme":{"hll":"lg_k=21 Hll4: promotions, exceptions 63/40/17/33, fill all 2M slots x3 so cur_min shifts with a live aux map"}}));
    ctx.sample(json!({"extreme":{"cpc":"lg_k=22: 2^21+1024 crafted pairs, serialize+deserialize at each flavor change (u32 products in determine_pseudo_phase)"}}));
    let cov = json!({
        "exhaustive": true,
        "bounds": "the reduced-bound explorations of C02..C10 (see their evidence for alphabets) run twice (release, chk) + configuration extremes: HLL lg_k 4/21 x 3 types, CPC lg_k 4/21/22 (thorough: 12/23/26), and the hook-less families' extremes",
    });
    ctx.finish(cov, vec!["models only generate operations whose documented preconditions hold (coupon values 1..=63, CPC coupon cap, counter totals within range)".into()])
}

pub fn filter() -> fn(&str) -> bool {
    panic_only
}
