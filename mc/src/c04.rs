//! C04 — Theta sketch retains exactly the distinct hashes below theta (KMV invariant).

use crate::common::{Ctx, Tier};
use crate::engine::{self, Step};
use crate::thetam::{self, Cfg, MAX_THETA, Op, Pair};
use rayon::prelude::*;
use serde_json::{Value, json};
use std::collections::BTreeMap;
use std::sync::Mutex;

pub type Observer = dyn Fn(&Ctx, &Pair, &dyn Fn() -> Value) + Sync;
pub fn no_observer(_: &Ctx, _: &Pair, _: &dyn Fn() -> Value) {}

pub fn configs(tier: Tier) -> Vec<Cfg> {
    let mut v = vec![];
    let lgs: &[u8] = match tier {
        Tier::Quick => &[5, 6, 7, 8],
        Tier::Thorough => &[5, 6, 7, 8],
    };
    for &lg_k in lgs {
        for rf in 0..4 {
            for p in [1.0f32, 0.5, 0.0009765625] {
                for seed in [9001u64, 0] {
                    if tier == Tier::Quick && seed == 0 && !(lg_k == 5 && rf == 3) {
                        continue;
                    }
                    v.push(Cfg { lg_k, rf, p, seed });
                }
            }
        }
    }
    v
}

/// Hashes that collide in the WHOLE probe sequence for every table size up to 2^(lg_k+1):
/// identical low lg_k+1 index bits and identical 7 stride bits for each size, differing only above.
fn colliding(cfg: &Cfg, class: u64, n: u64) -> Vec<u64> {
    let top = cfg.lg_k as u32 + 1 + 7;
    let init = cfg.initial_theta();
    // low bits: all ones (index = size-1, wraps) for class 0; pattern for class 1
    let low: u64 = if class == 0 { (1u64 << top) - 1 } else { ((1u64 << (cfg.lg_k + 1)) - 1) & 0x2A5 | (0x55 << (cfg.lg_k + 1)) };
    // spread the high parts over (0, initial theta)
    let span = (init >> top).max(n + 2);
    (1..=n).map(|j| (((j * (span / (n + 1))) << top) | low).clamp(1, MAX_THETA - 1)).collect()
}

pub fn default_runs(cfg: &Cfg, len: usize) -> Vec<(&'static str, Vec<Op>)> {
    let init = cfg.initial_theta();
    let n = len as u64;
    let step = (init / (n + 1)).max(1);
    let asc: Vec<Op> = (1..=n).map(|i| Op::Hash((i * step).clamp(1, MAX_THETA - 1))).collect();
    let desc: Vec<Op> = asc.iter().rev().cloned().collect();
    let mut alt = vec![];
    for i in 0..len / 2 {
        alt.push(asc[len - 1 - i].clone());
        alt.push(asc[i].clone());
    }
    let coll: Vec<Op> = {
        let mut a = colliding(cfg, 0, n / 2);
        a.extend(colliding(cfg, 1, n - n / 2));
        // interleave large and small
        let mut o = vec![];
        let m = a.len();
        for i in 0..m {
            o.push(Op::Hash(if i % 2 == 0 { a[m - 1 - i / 2] } else { a[i / 2] }));
        }
        o
    };
    // real items: when p is tiny almost everything is screened; use many more items then
    let items: Vec<Op> = (0..(if cfg.p < 0.01 { n * 16 } else { n })).map(Op::Item).collect();
    vec![
        ("ascending hashes", asc),
        ("descending hashes (rebuilds repeatedly)", desc),
        ("alternating ends", alt),
        ("two full-probe-sequence collision classes, interleaved", coll),
        ("items 0..n through the public update (reference MurmurHash model)", items),
    ]
}

/// `item_of`: for the public-update run, the item behind each offered hash. The hook screens
/// chosen hashes with its own copy of the rule, so the boundary cases of the REAL screen in
/// `update` (hash == theta, largest retained, smallest screened-out) are re-offered as items.
fn dev_alphabet(p: &Pair, item_of: Option<&BTreeMap<u64, u64>>) -> Vec<Op> {
    let mut d = vec![Op::ThetaMinus(1), Op::ThetaMinus(0), Op::Hash(1), Op::Trim, Op::Reset];
    if let Some(m) = item_of {
        let theta = p.s.theta64();
        let mut hs: Vec<u64> = vec![];
        if p.offered.contains(&theta) {
            hs.push(theta);
        }
        hs.extend(p.offered.range(1..theta).next_back().copied());
        hs.extend(p.offered.range(theta + 1..).next().copied());
        hs.extend(p.offered.iter().next().copied());
        for h in hs {
            if let Some(&it) = m.get(&h) {
                d.push(Op::Item(it));
            }
        }
    }
    if let Some(&mn) = p.offered.iter().next() {
        d.push(Op::Hash(mn)); // duplicate of the smallest
    }
    let theta = p.s.theta64();
    if let Some(&mx) = p.offered.range(1..theta).next_back() {
        d.push(Op::Hash(mx)); // duplicate of the largest retained
        if mx + 1 < theta {
            d.push(Op::Hash(mx + 1));
        }
    }
    d
}

fn executed_ops(run: &[Op], trace: &[(usize, Op)], pos: usize, last: &Op) -> Vec<Op> {
    let mut ops = vec![];
    let mut ti = 0;
    for (i, r) in run.iter().enumerate().take(pos + 1) {
        while ti < trace.len() && trace[ti].0 == i {
            ops.push(trace[ti].1.clone());
            ti += 1;
        }
        if i < pos {
            ops.push(r.clone());
        }
    }
    if ops.last() != Some(last) {
        ops.push(last.clone());
    }
    ops
}

/// `grid1`/`grid2`: number of (evenly spaced) positions per run at which a first / second
/// deviation may be inserted.
fn run_deep(ctx: &Ctx, cfg: &Cfg, bound: usize, grid1: usize, grid2: usize, obs: &Observer, edges: &Mutex<BTreeMap<String, u64>>) {
    let k = 1usize << cfg.lg_k;
    for (rname, run) in default_runs(cfg, 4 * k) {
        let stride1 = (run.len() / grid1.max(1)).max(1);
        let stride2 = (run.len() / grid2.max(1)).max(1);
        let init = Pair::new(*cfg);
        let item_of: Option<BTreeMap<u64, u64>> = if matches!(run.first(), Some(Op::Item(_))) {
            Some(run.iter().filter_map(|o| if let Op::Item(i) = o { Some((thetam::item_hash(*i, cfg.seed), *i)) } else { None }).collect())
        } else {
            None
        };
        let stats = engine::deviations(
            &init,
            &run,
            bound,
            &|_pos, _lvl, p: &Pair| dev_alphabet(p, item_of.as_ref()),
            &|pos, lvl| if lvl == 0 { pos % stride1 == 0 } else { pos % stride2 == 0 },
            &|p: &mut Pair, op: &Op, trace: &[(usize, Op)], pos: usize| {
                let mut e = BTreeMap::new();
                // compact(ordered) clauses: every step on small sketches, every 8th position otherwise
                let with_compact = cfg.lg_k <= 6 || pos % 8 == 0 || !matches!(op, Op::Hash(_) | Op::Item(_));
                let vs = p.apply_opt(op, &mut e, with_compact);
                if !e.is_empty() {
                    let mut g = edges.lock().unwrap();
                    for (k, v) in e {
                        *g.entry(k).or_insert(0) += v;
                    }
                }
                if !vs.is_empty() {
                    if thetam::report(ctx, vs, cfg, &executed_ops(&run, trace, pos, op)) {
                        return false;
                    }
                }
                if trace.is_empty() || trace.last().map(|t| t.0) == Some(pos) {
                    obs(ctx, p, &|| thetam::replay_json(cfg, &executed_ops(&run, trace, pos, op)));
                }
                true
            },
        );
        ctx.add_states(stats.steps);
        ctx.add_transitions(stats.steps);
        ctx.count(&format!("E2 bound={bound} executions"), stats.executions);
        if std::env::var("VERIF_DEBUG2").is_ok() {
            eprintln!("  run_deep {:?} b={bound} [{rname}] len={} execs={} steps={}", cfg, run.len(), stats.executions, stats.steps);
        }
    }
}

/// E1: BFS over colliding hashes + boundary values + trim/reset from the empty state and
/// from deep start states (each resize boundary, the state just before a rebuild).
fn run_small(ctx: &Ctx, cfg: &Cfg, depth: usize, obs: &Observer, edges: &Mutex<BTreeMap<String, u64>>) {
    let k = 1usize << cfg.lg_k;
    let mut alphabet: Vec<Op> = colliding(cfg, 0, 5).into_iter().map(Op::Hash).collect();
    alphabet.extend(colliding(cfg, 1, 3).into_iter().map(Op::Hash));
    alphabet.extend([Op::ThetaMinus(1), Op::ThetaMinus(0), Op::Hash(1), Op::Trim, Op::Reset]);
    // start states: prefixes of the descending and colliding runs
    let runs = default_runs(cfg, 4 * k);
    let mut starts: Vec<(Pair, Vec<u16>, Vec<Op>)> = vec![(Pair::new(*cfg), vec![], vec![])];
    for ri in [1usize, 3] {
        let run = &runs[ri].1;
        let mut p = Pair::new(*cfg);
        let mut e = BTreeMap::new();
        let mut prev_lg = p.s.verif_table().0;
        let cap = (15 * 2 * k) / 16;
        for (i, op) in run.iter().enumerate() {
            let before = p.clone();
            let vs = p.apply(op, &mut e);
            if !vs.is_empty() {
                if thetam::report(ctx, vs, cfg, &run[..=i]) {
                    break;
                }
            }
            let lg = p.s.verif_table().0;
            let rebuilt = p.s.theta64() != before.s.theta64();
            if lg != prev_lg || rebuilt || (before.s.num_retained() == cap && starts.len() < 12) {
                // the state just BEFORE this resize/rebuild
                starts.push((before, vec![], run[..i].to_vec()));
            }
            prev_lg = lg;
            if starts.len() >= 12 {
                break;
            }
        }
    }
    let alphabet = &alphabet;
    starts.into_par_iter().for_each(|(p0, _, prefix)| {
        let stats = engine::bfs(
            vec![(p0, vec![])],
            alphabet,
            depth,
            400_000,
            |p: &Pair, op: &Op, path: &[u16]| {
                let mut n = p.clone();
                let mut e = BTreeMap::new();
                let vs = n.apply(op, &mut e);
                if !e.is_empty() {
                    let mut g = edges.lock().unwrap();
                    for (k, v) in e {
                        *g.entry(k).or_insert(0) += v;
                    }
                }
                let ops = || -> Vec<Op> { prefix.iter().cloned().chain(path.iter().map(|&i| alphabet[i as usize].clone())).chain([op.clone()]).collect() };
                if !vs.is_empty() {
                    if thetam::report(ctx, vs, cfg, &ops()) {
                        return Step::Stop;
                    }
                }
                Step::Next(n)
            },
            |p: &Pair| p.key(),
            |p: &Pair| (p.s.estimate().to_bits(), p.s.num_retained(), p.s.is_empty()),
            |p0: &[u16], p1: &[u16]| {
                ctx.violation(
                    "theta.same_content_different_observation",
                    "two paths to the same (retained set, theta, table size) disagree on estimate/count/emptiness",
                    json!({"kind":"theta_two_paths","cfg":cfg.json(),"prefix_len":prefix.len(),"path_a":p0,"path_b":p1}),
                );
            },
            |p: &Pair, path: &[u16]| {
                obs(ctx, p, &|| thetam::replay_json(cfg, &prefix.iter().cloned().chain(path.iter().map(|&i| alphabet[i as usize].clone())).collect::<Vec<Op>>()));
            },
        );
        ctx.add_states(stats.states);
        ctx.add_transitions(stats.transitions);
        ctx.count("E1 start states", 1);
        ctx.count("E1 states", stats.states);
        ctx.count("E1 merged arrivals", stats.merged);
    });
}

pub fn explore(ctx: &Ctx, obs: &Observer) {
    let mut cfgs = configs(ctx.tier);
    if let Ok(f) = std::env::var("VERIF_ONLY") {
        // debugging aid: VERIF_ONLY=lg_k,rf,p-index
        let v: Vec<usize> = f.split(',').map(|x| x.parse().unwrap()).collect();
        cfgs.retain(|c| c.lg_k as usize == v[0] && c.rf == v[1] && [1.0f32, 0.5, 0.0009765625][v[2]] == c.p);
    }
    let edges = Mutex::new(BTreeMap::new());
    ctx.count("configurations (lg_k x resize factor x p x seed)", cfgs.len() as u64);
    if ctx.reduced {
        cfgs.retain(|c| c.seed == 9001 && (c.rf == 3 || c.rf == 0 || c.lg_k == 5));
        cfgs.par_iter().for_each(|cfg| {
            run_deep(ctx, cfg, 1, ctx.tier.pick(4, 16), 1, obs, &edges);
            if cfg.lg_k <= 6 {
                run_small(ctx, cfg, ctx.tier.pick(3, 4), obs, &edges);
            }
        });
        ctx.edges_merge(&edges.lock().unwrap());
        return;
    }
    cfgs.par_iter().for_each(|cfg| {
        let k = 1usize << cfg.lg_k;
        let t0 = std::time::Instant::now();
        struct D<'a>(&'a Cfg, std::time::Instant);
        impl Drop for D<'_> {
            fn drop(&mut self) {
                if std::env::var("VERIF_DEBUG2").is_ok() {
                    eprintln!("cfg {:?}: {:.1}s", self.0, self.1.elapsed().as_secs_f64());
                }
            }
        }
        let _d = D(cfg, t0);
        match ctx.tier {
            Tier::Quick => {
                let _ = k;
                run_deep(ctx, cfg, 1, if cfg.lg_k >= 8 { 16 } else { 32 }, 1, obs, &edges);
                if cfg.lg_k == 5 {
                    run_deep(ctx, cfg, 2, 8, 8, obs, &edges);
                } else if cfg.lg_k == 6 {
                    run_deep(ctx, cfg, 2, 4, 4, obs, &edges);
                }
                if cfg.lg_k <= 7 {
                    run_small(ctx, cfg, if cfg.lg_k <= 6 { 5 } else { 4 }, obs, &edges);
                }
            }
            Tier::Thorough => {
                run_deep(ctx, cfg, 1, if cfg.lg_k <= 6 { 128 } else { 48 }, 1, obs, &edges);
                if cfg.lg_k <= 6 {
                    run_deep(ctx, cfg, 2, 12, 12, obs, &edges);
                }
                run_small(ctx, cfg, if cfg.lg_k <= 6 { 6 } else { 5 }, obs, &edges);
            }
        }
    });
    if ctx.tier == Tier::Thorough {
        // spot checks at larger lg_k: default runs with single deviations on a coarse grid
        let big: Vec<Cfg> = [10u8, 12, 14].iter().flat_map(|&lg_k| [3usize, 0].into_iter().map(move |rf| Cfg { lg_k, rf, p: 1.0, seed: 9001 })).collect();
        big.par_iter().for_each(|cfg| {
            let k = 1usize << cfg.lg_k;
            let _ = k;
            if cfg.lg_k <= 10 {
                run_deep(ctx, cfg, 1, 4, 1, obs, &edges);
            } else {
                run_deep(ctx, cfg, 0, 1, 1, obs, &edges);
            }
        });
    }
    ctx.edges_merge(&edges.lock().unwrap());
}

pub fn run(ctx: &Ctx) -> i32 {
    explore(ctx, &no_observer);
    ctx.sample(json!({"E2":{"cfg":{"lg_k":5,"resize_factor":2,"p":0.5},"run":"descending hashes (rebuilds repeatedly)","deviation":{"before_pos":61,"op":"offer theta-1"},"oracle":"iter()=={h offered: 0<h<theta}; theta non-increasing and an offered hash; rebuild/trim leave exactly k; estimate==retained/theta; compact(ordered) same set/theta/emptiness/estimate; bounds ordered"}}));
    ctx.sample(json!({"E1":{"cfg":{"lg_k":5,"resize_factor":8,"p":1.0},"start":"60 retained (capacity of the full table), next insert rebuilds","alphabet":"8 hashes colliding in the whole probe sequence for all table sizes, theta-1, theta, 1, trim, reset","depth":4}}));
    {
        let e = ctx.edges.lock().unwrap();
        let need = ["rebuild (theta decreased on insert)", "trim with more than k entries", "reset"];
        let missing: Vec<&str> = need.iter().copied().filter(|n| !e.contains_key(*n)).collect();
        let resized = e.keys().any(|k| k.starts_with("resize"));
        if !missing.is_empty() || !resized {
            eprintln!("machinery error: exploration is vacuous, edges not covered: {:?} resize={resized}", missing);
            if ctx.num_violations() == 0 {
                return 2;
            }
        }
    }
    let cov = json!({
        "exhaustive": true,
        "bounds": {
            "configs": "lg_k {5,6,8} (thorough adds 7 and spot runs at 10,12,14) x 4 resize factors x p {1, 0.5, 2^-10} x seeds",
            "E2": "five default runs of 4k offers (ascending, descending, alternating, two full-probe collision classes, public update of items against the reference hash) with every single deviation {theta-1, theta, 1, duplicate of min/max retained, max+1, trim, reset; on the public-update run also the ITEMS whose hash is theta / the largest retained / the smallest screened-out / the smallest} on a position grid; bound 2 at lg_k 5 (6)",
            "E1": "BFS depth 4-6 from the empty state and from the states just before each resize/rebuild, merged on (retained set, theta, table size)",
        },
    });
    ctx.finish(
        cov,
        vec![
            "hashes are offered through the add-only hook ThetaSketch::verif_insert_hash, which screens against theta exactly as update does; the public-update run ties items to hashes through the reference MurmurHash".into(),
            "E1 merges states with equal retained set/theta/table size regardless of table layout; layout sensitivity is covered by the unmerged E2 runs".into(),
        ],
    )
}
