//! C01 — estimates ordered / nested / exact; HIP unbiased (one-step martingale identity);
//! estimator tables smooth and consistent with their definitions.
//!
//! The universal clauses are decided in every explored state and over the estimators' whole
//! (finite) argument spaces; the HIP unbiasedness clause is turned into the exhaustively
//! checkable identity  sum_over_all_next_coupons p * (estimate' - estimate) == 1 ; the remaining
//! distributional clauses are outside this technique (see MANIFEST level_note / DESIGN §4).

use crate::common::{Ctx, catch, hex};
use crate::cpcm::{self, Duo};
use crate::hllm::{self, Trio, coupon};
use crate::spec_hll::{self, EncOpts};
use crate::spec_misc::{self, MAX_THETA};
use datasketches::common::NumStdDev;
use datasketches::cpc::CpcWrapper;
use datasketches::hll::{HllSketch, HllType, HllUnion};
use datasketches::theta::CompactThetaSketch;
use rayon::prelude::*;
use serde_json::json;
use std::sync::atomic::{AtomicU64, Ordering};

const NSD: [NumStdDev; 3] = [NumStdDev::One, NumStdDev::Two, NumStdDev::Three];

fn ordered(ctx: &Ctx, key: &str, desc: &str, v: [f64; 7], replay: serde_json::Value) -> bool {
    if v.iter().any(|x| !x.is_finite() || *x < 0.0) {
        ctx.violation(&format!("{key}.finite"), &format!("{desc}: non-finite or negative value in {:?}", v), replay);
        false
    } else if v.windows(2).any(|w| w[0] > w[1]) {
        ctx.violation(&format!("{key}.order"), &format!("{desc}: lb3<=lb2<=lb1<=est<=ub1<=ub2<=ub3 violated: {:?}", v), replay);
        false
    } else {
        true
    }
}

// ------------------------------------------------------------------ HLL coupon estimator

fn hll_coupon_sweep(ctx: &Ctx) -> u64 {
    // the largest coupon count a set holds (lg_k = 21): every len on the way there
    let lg_k = ctx.tier.pick(16u8, 21);
    let mut s = HllSketch::new(lg_k, HllType::Hll8);
    let mut prev = [0.0f64; 7];
    let mut n = 0u64;
    let mut len = 0u64;
    loop {
        let v = [s.lower_bound(NSD[2]), s.lower_bound(NSD[1]), s.lower_bound(NSD[0]), s.estimate(), s.upper_bound(NSD[0]), s.upper_bound(NSD[1]), s.upper_bound(NSD[2])];
        n += 1;
        let rp = json!({"kind":"hll_coupon_len","lg_k":lg_k,"len":len});
        ordered(ctx, "hll.bounds.coupon", &format!("coupon-mode sketch with {len} coupons"), v, rp.clone());
        if v[3] < len as f64 {
            ctx.violation("hll.bounds.coupon.below_count", &format!("estimate {} below the number of distinct coupons {len}", v[3]), rp.clone());
        }
        if (0..7).any(|i| v[i] < prev[i]) {
            ctx.violation("hll.bounds.coupon.nonmonotone", &format!("estimate/bounds decrease from {} to {} coupons: {:?} -> {:?}", len - 1, len, prev, v), rp);
        }
        prev = v;
        len += 1;
        s.verif_update_with_coupon(coupon(len as u32 * 2654435 % (1 << 26), 1 + (len % 5) as u8));
        if s.verif_state().mode == 2 {
            break;
        }
        if s.verif_state().len as u64 != len {
            // a slot collision of the generator: skip
            len = s.verif_state().len as u64;
        }
    }
    ctx.count("HLL coupon estimator: lengths swept", n);
    n
}

// ------------------------------------------------------------------ HLL rel-err table via bounds

fn hll_rel_err_table(ctx: &Ctx) -> u64 {
    // rel[lg_k][ooo][ub][nsd] = est/bound - 1, observed on array-mode sketches
    let rows: Vec<(u8, Vec<f64>)> = (4u8..=21)
        .into_par_iter()
        .map(|lg_k| {
            let k = 1u32 << lg_k;
            let mut s = HllSketch::new(lg_k, HllType::Hll8);
            for slot in 0..k {
                s.verif_update_with_coupon(coupon(slot, 1 + (slot % 3) as u8));
            }
            let mut u = HllUnion::new(lg_k);
            u.update(&s);
            u.update(&s);
            let o = u.to_sketch(HllType::Hll8);
            let mut v = vec![];
            for sk in [&s, &o] {
                let e = sk.estimate();
                for n in NSD {
                    v.push(e / sk.lower_bound(n) - 1.0);
                }
                for n in NSD {
                    v.push(e / sk.upper_bound(n) - 1.0);
                }
            }
            (lg_k, v)
        })
        .collect();
    let mut n = 0;
    for (lg_k, v) in &rows {
        // layout: [hip lb1..3, hip ub1..3, ooo lb1..3, ooo ub1..3]
        for (ooo, base) in [(false, 0usize), (true, 6)] {
            let lb = &v[base..base + 3];
            let ub = &v[base + 3..base + 6];
            n += 6;
            let rp = json!({"kind":"hll_rel_err","lg_k":lg_k,"ooo":ooo,"lb":lb,"ub":ub});
            if !(lb[0] > 0.0 && lb[0] < lb[1] && lb[1] < lb[2] && lb[2] < 1.5) {
                ctx.violation("hll.bounds.relerr.lb_shape", &format!("lg_k {lg_k} ooo {ooo}: lower-bound relative errors {:?} are not positive and increasing in the number of std devs", lb), rp.clone());
            }
            if !(ub[0] < 0.0 && ub[0] > ub[1] && ub[1] > ub[2] && ub[2] > -0.9) {
                ctx.violation("hll.bounds.relerr.ub_shape", &format!("lg_k {lg_k} ooo {ooo}: upper-bound relative errors {:?} are not negative and decreasing in the number of std devs", ub), rp);
            }
        }
        // HIP is tighter than non-HIP
        for i in 0..6 {
            n += 1;
            if v[i].abs() >= v[6 + i].abs() {
                ctx.violation("hll.bounds.relerr.hip_vs_nonhip", &format!("lg_k {lg_k}: HIP relative error {} is not smaller than the non-HIP one {}", v[i], v[6 + i]), json!({"kind":"hll_rel_err","lg_k":lg_k,"column":i}));
            }
        }
    }
    // smoothness across lg_k: each column shrinks by a factor in [0.55, 0.80] per step (1/sqrt(2) analytically)
    for w in rows.windows(2) {
        let (l0, a) = &w[0];
        let (_, b) = &w[1];
        for i in 0..12 {
            n += 1;
            let r = b[i] / a[i];
            if !(0.55..=0.80).contains(&r) {
                ctx.violation("hll.bounds.relerr.rough", &format!("relative-error column {i} changes by a factor {r:.3} from lg_k {l0} to {} ({} -> {}); expected about 0.707", l0 + 1, a[i], b[i]), json!({"kind":"hll_rel_err","lg_k":l0,"column":i}));
            }
        }
    }
    ctx.count("HLL relative-error table cells checked through bounds (lg_k 4..=21 x HIP/non-HIP x lb/ub x 3)", n);
    n
}

// ------------------------------------------------------------------ HLL composite estimator

fn hll_composite_multisets(ctx: &Ctx) -> u64 {
    // all multisets of 16 register values (lg_k = 4) from a small value set, as out-of-order images
    let values: Vec<u8> = ctx.tier.pick(vec![0, 1, 2, 3, 4, 5, 6, 32], vec![0, 1, 2, 3, 4, 5, 6, 7, 31, 32, 63]);
    let nv = values.len();
    // enumerate non-decreasing index sequences of length 16: parallel over the first two positions
    let firsts: Vec<(usize, usize)> = (0..nv).flat_map(|a| (a..nv).map(move |b| (a, b))).collect();
    let total = AtomicU64::new(0);
    firsts.par_iter().for_each(|&(a, b)| {
        let mut idx = [0usize; 16];
        idx[0] = a;
        idx[1] = b;
        fn rec(ctx: &Ctx, values: &[u8], idx: &mut [usize; 16], pos: usize, cnt: &mut u64) {
            if pos == 16 {
                let regs: Vec<u8> = idx.iter().map(|&i| values[i]).collect();
                let (ka, kb) = hllm::kxq_of(&regs);
                let cur_min = regs.iter().copied().min().unwrap();
                let img = spec_hll::encode_array(4, 8, &regs, cur_min, 0.0, ka, kb, EncOpts { compact: false, ooo: true, lg_arr: 0, extra_flags: 0 });
                *cnt += 1;
                match catch(|| HllSketch::deserialize(&img).map(|s| (s.estimate(), s.lower_bound(NSD[2]), s.upper_bound(NSD[2])))) {
                    Ok(Ok((e, lb, ub))) => {
                        let all_zero = regs.iter().all(|&v| v == 0);
                        let rp = || json!({"kind":"hll_composite","registers":regs,"image_hex":hex(&img)});
                        if !e.is_finite() || e < 0.0 || !(lb <= e && e <= ub) {
                            ctx.violation("hll.bounds.composite.order", &format!("out-of-order lg_k=4 registers {:?}: estimate {e}, lb3 {lb}, ub3 {ub}", regs), rp());
                        } else if (e == 0.0) != all_zero {
                            ctx.violation("hll.bounds.composite.zero", &format!("out-of-order lg_k=4 registers {:?}: composite estimate {e} (zero only for the empty sketch)", regs), rp());
                        }
                    }
                    Ok(Err(e)) => {
                        ctx.violation("hll.bounds.composite.rejected", &format!("spec image rejected: {e}"), json!({"kind":"hll_composite","registers":regs}));
                    }
                    Err(p) => {
                        ctx.violation(&format!("panic|{}", p.site_key()), &format!("composite estimate panicked: {}", p.message), json!({"kind":"hll_composite","registers":regs}));
                    }
                }
                return;
            }
            for i in idx[pos - 1]..values.len() {
                idx[pos] = i;
                rec(ctx, values, idx, pos + 1, cnt);
            }
        }
        let mut cnt = 0u64;
        rec(ctx, &values, &mut idx, 2, &mut cnt);
        total.fetch_add(cnt, Ordering::Relaxed);
    });
    let t = total.load(Ordering::Relaxed);
    ctx.count(&format!("HLL composite estimator: all multisets of 16 registers from {:?}", values), t);
    t
}

/// Continuity / monotonicity sweep of the composite (out-of-order) estimator: for each lg_k
/// and each pair of adjacent register values (v, v+1), the k+1 register arrays with j slots
/// at v+1 and k-j at v take the raw estimate through a whole octave in steps of relative
/// size about 1/(2k); across the octaves v = 1..=7 this crosses every branch boundary of the
/// estimator (start of the interpolation table, every table knot, the end of the table and
/// the extrapolation beyond it). The estimate must increase with j and no single step may
/// be out of proportion to the step of the raw sum.
pub fn hll_composite_continuity(ctx: &Ctx) -> u64 {
    let lgs: Vec<u8> = ctx.tier.pick(vec![8, 10, 12], vec![7, 8, 9, 10, 11, 12, 13, 14, 16]);
    let jobs: Vec<(u8, u8)> = lgs.iter().flat_map(|&l| (1u8..=7).map(move |v| (l, v))).collect();
    let worst = std::sync::Mutex::new(0.0f64);
    let n: u64 = jobs
        .par_iter()
        .map(|&(lg_k, v)| {
            let k = 1usize << lg_k;
            let mut prev: Option<(f64, f64)> = None;
            let mut cnt = 0u64;
            let stride = if lg_k > 12 { 1usize << (lg_k - 12) } else { 1 };
            let mut j = 0usize;
            while j <= k {
                let regs: Vec<u8> = (0..k).map(|s| if s < j { v + 1 } else { v }).collect();
                let (ka, kb) = hllm::kxq_of(&regs);
                let cur_min = if j == k { v + 1 } else { v };
                let img = spec_hll::encode_array(lg_k, 8, &regs, cur_min, 0.0, ka, kb, EncOpts { compact: false, ooo: true, lg_arr: 0, extra_flags: 0 });
                let raw = 1.0 / (ka + kb);
                cnt += 1;
                match catch(|| HllSketch::deserialize(&img).map(|s| s.estimate())) {
                    Ok(Ok(e)) => {
                        if let Some((pe, praw)) = prev {
                            let rel_e = e / pe - 1.0;
                            let rel_raw = raw / praw - 1.0;
                            let rp = || json!({"kind":"hll_composite_sweep","lg_k":lg_k,"low_value":v,"slots_at_high_value":j});
                            if !(e > pe) {
                                ctx.violation("hll.bounds.composite.nonmonotone", &format!("lg_k {lg_k}: raising one register from {v} to {} ({j} slots raised) moves the out-of-order estimate from {pe} to {e}", v + 1), rp());
                            } else if rel_e > 3.0 * rel_raw + 1e-12 {
                                ctx.violation("hll.bounds.composite.jump", &format!("lg_k {lg_k}: with {j} slots at {} and the rest at {v} the out-of-order estimate jumps by {:.4}% while the raw estimate moves by {:.4}% ({pe} -> {e})", v + 1, 100.0 * rel_e, 100.0 * rel_raw), rp());
                            }
                            let mut w = worst.lock().unwrap();
                            if rel_e / rel_raw > *w {
                                *w = rel_e / rel_raw;
                            }
                        }
                        prev = Some((e, raw));
                    }
                    Ok(Err(e)) => {
                        ctx.violation("hll.bounds.composite.rejected", &format!("spec image rejected: {e}"), json!({"kind":"hll_composite_sweep","lg_k":lg_k,"low_value":v,"slots_at_high_value":j}));
                        break;
                    }
                    Err(p) => {
                        ctx.violation(&format!("panic|{}", p.site_key()), &format!("composite estimate panicked: {}", p.message), json!({"kind":"hll_composite_sweep","lg_k":lg_k,"low_value":v,"slots_at_high_value":j}));
                        break;
                    }
                }
                j += stride;
            }
            cnt
        })
        .sum();
    ctx.note(format!("HLL composite continuity sweep: largest (relative estimate step)/(relative raw step) observed {:.3} (bound 3)", *worst.lock().unwrap()));
    ctx.count("HLL composite estimator: continuity sweep states (lg_k x octave x slots raised)", n);
    n
}

// ------------------------------------------------------------------ CPC ICON and confidence tables

fn cpc_wrapper_image(lg_k: u8, c: u32, hip: Option<(f64, f64)>) -> Vec<u8> {
    if c == 0 {
        return vec![2, 1, 16, lg_k, 0, 2 | if hip.is_some() { 4 } else { 0 }, 0xcc, 0x93];
    }
    let mut b = vec![if hip.is_some() { 8 } else { 4 }, 1, 16, lg_k, 0, 2 | 8 | if hip.is_some() { 4 } else { 0 }];
    b.extend(spec_misc::seed_hash(9001).to_le_bytes());
    b.extend(c.to_le_bytes());
    b.extend(1u32.to_le_bytes());
    if let Some((kxp, h)) = hip {
        b.extend(kxp.to_le_bytes());
        b.extend(h.to_le_bytes());
    }
    b
}

/// Exact ICON estimate from its definition: the N with E[C | N] = C, where
/// E[C | N] = k * sum_{j>=1} (1 - (1 - 2^-j / k)^N).
fn icon_exact(lg_k: u8, c: f64) -> f64 {
    let k = (1u64 << lg_k) as f64;
    let expect = |n: f64| -> f64 {
        let mut s = 0.0;
        for j in 1..=80 {
            let p = (-(j as f64)).exp2() / k;
            s += -(n * (-p).ln_1p()).exp_m1(); // 1 - (1-p)^n
        }
        k * s
    };
    let (mut lo, mut hi) = (c * 0.5, c.max(1.0));
    while expect(hi) < c {
        hi *= 2.0;
    }
    for _ in 0..200 {
        let mid = 0.5 * (lo + hi);
        if expect(mid) < c { lo = mid } else { hi = mid }
        if (hi - lo) <= 1e-11 * hi {
            break;
        }
    }
    0.5 * (lo + hi)
}

/// Relative tolerance for |ICON approximation - exact definition| per lg_k: about 10x the
/// largest deviation measured on the unchanged tree (7.3e-4 at lg_k 4, halving per lg_k down to
/// 1.1e-6 from lg_k 16 on; the measured values are written into the evidence on every run).
fn icon_tol(lg_k: u8) -> f64 {
    (8.0e-3 * (-((lg_k - 4) as f64)).exp2()).max(1.2e-5)
}

fn cpc_icon(ctx: &Ctx) -> u64 {
    let max_dev = std::sync::Mutex::new((0.0f64, 0u8, 0u32));
    let per_lg: Vec<std::sync::Mutex<f64>> = (0..27).map(|_| std::sync::Mutex::new(0.0)).collect();
    let n: u64 = (4u8..=26)
        .into_par_iter()
        .map(|lg_k| {
            let k = 1u64 << lg_k;
            let cap = ((475 * k + 7) / 8 - 1) as u32;
            // every C for small k, a 1/64-octave grid above
            let full = ctx.tier.pick(10u8, 12);
            let cs: Vec<u32> = if lg_k <= full {
                (0..=cap).collect()
            } else {
                let mut v: Vec<u32> = (0..=256).collect();
                let mut x = 256.0f64;
                while (x as u64) < cap as u64 {
                    v.push(x as u32);
                    x *= 2f64.powf(1.0 / ctx.tier.pick(16.0, 64.0));
                }
                // around the polynomial/exponential switch
                for f in [5.6f64, 5.7] {
                    let c0 = (f * k as f64) as u32;
                    for d in 0..=4u32 {
                        v.push(c0.saturating_sub(2) + d);
                    }
                }
                v.push(cap);
                v.sort_unstable();
                v.dedup();
                v.retain(|c| *c <= cap);
                v
            };
            // evaluate every C in parallel, then check monotonicity sequentially
            let evals: Vec<Option<f64>> = cs
                .par_iter()
                .enumerate()
                .map(|(ci, &c)| {
                    let img = cpc_wrapper_image(lg_k, c, None);
                    let w = match catch(|| CpcWrapper::new(&img)) {
                        Ok(Ok(w)) => w,
                        other => {
                            ctx.violation("cpc.bounds.icon.wrapper", &format!("CpcWrapper rejected a preamble image for lg_k {lg_k} C {c}: {:?}", other.map(|r| r.map(|_| ()).map_err(|e| e.to_string()))), json!({"kind":"image","image_hex":hex(&img)}));
                            return None;
                        }
                    };
                    let rp = || json!({"kind":"cpc_icon","lg_k":lg_k,"num_coupons":c,"image_hex":hex(&img)});
                    let v = match catch(|| [w.lower_bound(NSD[2]), w.lower_bound(NSD[1]), w.lower_bound(NSD[0]), w.estimate(), w.upper_bound(NSD[0]), w.upper_bound(NSD[1]), w.upper_bound(NSD[2])]) {
                        Ok(v) => v,
                        Err(p) => {
                            ctx.violation(&format!("panic|{}", p.site_key()), &format!("ICON estimate/bounds panicked at lg_k {lg_k} C {c}: {}", p.message), rp());
                            return None;
                        }
                    };
                    ordered(ctx, "cpc.bounds.icon", &format!("merged sketch lg_k {lg_k} C {c}"), v, rp());
                    let e = v[3];
                    if e < c as f64 {
                        ctx.violation("cpc.bounds.icon.below_count", &format!("ICON estimate {e} below the coupon count {c} (lg_k {lg_k})"), rp());
                    }
                    // agreement with the definition (every C for small k, every 4th grid point above)
                    if c >= 2 && (lg_k <= full || ci % 4 == 0) {
                        let x = icon_exact(lg_k, c as f64);
                        let dev = (e - x).abs() / x;
                        {
                            let mut m = max_dev.lock().unwrap();
                            if dev > m.0 {
                                *m = (dev, lg_k, c);
                            }
                            let mut p = per_lg[lg_k as usize].lock().unwrap();
                            if dev > *p {
                                *p = dev;
                            }
                        }
                        if dev > icon_tol(lg_k) {
                            ctx.violation("cpc.bounds.icon.vs_definition", &format!("ICON estimate {e} at lg_k {lg_k} C {c} deviates from its definition ({x}) by {:.2e} relative (tolerance {:.0e})", dev, icon_tol(lg_k)), rp());
                        }
                    }
                    Some(e)
                })
                .collect();
            let mut prev = -1.0f64;
            let mut prev_c = 0u32;
            let mut cnt = 0u64;
            for (ci, e) in evals.iter().enumerate() {
                let Some(e) = *e else { continue };
                let c = cs[ci];
                cnt += 1;
                if e < prev {
                    ctx.violation("cpc.bounds.icon.nonmonotone", &format!("ICON estimate decreases from C={prev_c} ({prev}) to C={c} ({e}) at lg_k {lg_k}"), json!({"kind":"cpc_icon","lg_k":lg_k,"num_coupons":c}));
                }
                prev = e;
                prev_c = c;
            }
            cnt
        })
        .sum();
    ctx.note(format!("icon max relative deviation per lg_k 4..=26: {:?}", (4..=26).map(|l| format!("{:.1e}", *per_lg[l].lock().unwrap())).collect::<Vec<_>>()));
    let m = max_dev.lock().unwrap();
    ctx.note(format!("icon_max_rel_dev = {:.3e} at lg_k {} C {} (tolerance 8e-3 * 2^-(lg_k-4), floor 1.2e-5)", m.0, m.1, m.2));
    ctx.count("CPC ICON evaluations (lg_k 4..=26 x C grid)", n);
    n
}

fn cpc_confidence_tables(ctx: &Ctx) -> u64 {
    // eps(lg_k, kappa) observed through bounds of a large-C sketch; 4 tables x (lg_k 4..=14 + formula above)
    let mut rows = vec![];
    for lg_k in 4u8..=20 {
        let c = 8u32 << lg_k;
        let mut v = vec![];
        let w = CpcWrapper::new(&cpc_wrapper_image(lg_k, c, None)).unwrap();
        let e = w.estimate();
        for n in NSD {
            v.push(e / w.lower_bound(n) - 1.0);
        }
        for n in NSD {
            v.push(1.0 - e / w.upper_bound(n));
        }
        let h = 1.0e6 * (1u64 << lg_k) as f64;
        let w = CpcWrapper::new(&cpc_wrapper_image(lg_k, c, Some((1.0, h)))).unwrap();
        for n in NSD {
            v.push(h / w.lower_bound(n) - 1.0);
        }
        for n in NSD {
            v.push(1.0 - h / w.upper_bound(n));
        }
        rows.push((lg_k, v));
    }
    let mut n = 0;
    for (lg_k, v) in &rows {
        for t in 0..4 {
            let col = &v[3 * t..3 * t + 3];
            n += 3;
            if !(col[0] > 0.0 && col[0] < col[1] && col[1] < col[2] && col[2] < 0.95) {
                ctx.violation("cpc.bounds.conf.shape", &format!("lg_k {lg_k} table {t} (0 icon-lb,1 icon-ub,2 hip-lb,3 hip-ub): relative half-widths {:?} not positive/increasing in kappa", col), json!({"kind":"cpc_conf","lg_k":lg_k,"table":t}));
            }
        }
        // HIP intervals are tighter than ICON intervals
        for i in 0..6 {
            n += 1;
            if v[6 + i] >= v[i] {
                ctx.violation("cpc.bounds.conf.hip_vs_icon", &format!("lg_k {lg_k}: HIP half-width {} not smaller than ICON {}", v[6 + i], v[i]), json!({"kind":"cpc_conf","lg_k":lg_k,"column":i}));
            }
        }
    }
    for w in rows.windows(2) {
        let (l0, a) = &w[0];
        let (_, b) = &w[1];
        for i in 0..12 {
            n += 1;
            let r = b[i] / a[i];
            // empirical tables per lg_k: kappa*x/sqrt(k) with x varying by up to ~15% between rows
            if !(0.55..=0.85).contains(&r) {
                ctx.violation("cpc.bounds.conf.rough", &format!("confidence column {i} changes by a factor {r:.3} from lg_k {l0} to {} ({} -> {}); expected about 0.707", l0 + 1, a[i], b[i]), json!({"kind":"cpc_conf","lg_k":l0,"column":i}));
            }
        }
    }
    ctx.count("CPC confidence table cells checked through bounds", n);
    n
}

// ------------------------------------------------------------------ Theta binomial bounds

fn theta_bounds_grid(ctx: &Ctx) -> u64 {
    let mut ns: Vec<usize> = (0..=300).collect();
    let mut x = 304;
    while x <= 7680 {
        ns.push(x);
        x += ctx.tier.pick(64, 16);
    }
    let mut thetas: Vec<u64> = (1..=ctx.tier.pick(32u64, 256)).map(|i| MAX_THETA / ctx.tier.pick(32, 256) * i).collect();
    for i in 1..=20u64 {
        thetas.push(MAX_THETA - i); // the smallest representable steps below 1.0
        thetas.push(8192 + i * 1000); // tiny thetas (just above the largest entry used)
    }
    for p in [0.5f32, 0.0009765625, 0.1, 0.999] {
        thetas.push((MAX_THETA as f64 * p as f64) as u64);
    }
    thetas.sort_unstable();
    thetas.dedup();
    let total: u64 = thetas
        .par_iter()
        .map(|&theta| {
            let mut cnt = 0u64;
            let mut prev: Option<[f64; 7]> = None;
            for &n in &ns {
                let entries: Vec<u64> = (1..=n as u64).collect();
                if n as u64 >= theta {
                    break;
                }
                let img = spec_misc::theta_encode_v3(9001, theta, &entries, true, n == 0 && theta == MAX_THETA, false);
                let c = match catch(|| CompactThetaSketch::deserialize(&img)) {
                    Ok(Ok(c)) => c,
                    _ => continue,
                };
                let rp = || json!({"kind":"theta_bounds","num_retained":n,"theta":theta});
                let v = match catch(|| [c.lower_bound(NSD[2]), c.lower_bound(NSD[1]), c.lower_bound(NSD[0]), c.estimate(), c.upper_bound(NSD[0]), c.upper_bound(NSD[1]), c.upper_bound(NSD[2])]) {
                    Ok(v) => v,
                    Err(p) => {
                        ctx.violation(&format!("panic|{}", p.site_key()), &format!("theta bounds panicked for {n} entries, theta {theta}: {}", p.message), rp());
                        continue;
                    }
                };
                cnt += 1;
                ordered(ctx, "theta.bounds.grid", &format!("{n} entries, theta {theta}"), v, rp());
                if v[0] < n as f64 - 1e-9 && !c.is_empty() {
                    ctx.violation("theta.bounds.grid.lb_below_retained", &format!("lower bound {} below the {n} retained entries (theta {theta})", v[0]), rp());
                }
                if theta == MAX_THETA && (v[0] != n as f64 || v[6] != n as f64) {
                    ctx.violation("theta.bounds.grid.exact_mode", &format!("exact mode with {n} entries: bounds {:?}", v), rp());
                }
                if let Some(p) = prev {
                    // bounds follow the number of retained entries; the exact small-n algorithm and
                    // the Gaussian approximation meet with a seam of a few 0.1% at n = 120/121, so
                    // only a decrease of more than 1% is treated as a broken table/formula
                    if (0..7).any(|i| v[i] < p[i] - 0.01 * p[i].abs()) {
                        ctx.violation("theta.bounds.grid.nonmonotone", &format!("bounds decrease when one more entry is retained (n={n}, theta {theta}): {:?} -> {:?}", p, v), rp());
                    }
                }
                prev = Some(v);
            }
            cnt
        })
        .sum();
    ctx.count("theta binomial bounds: (num_retained x theta) points", total);
    total
}

// ------------------------------------------------------------------ HIP martingale identity

/// sum over every possible next coupon of p * (estimate' - estimate) for one HLL sketch.
fn hll_expected_increment(s: &HllSketch, lg_k: u8) -> f64 {
    let k = 1u32 << lg_k;
    let e0 = s.estimate();
    let mut acc = 0.0f64;
    // group by slot: only values above the current register change anything
    let regs = s.verif_state();
    for slot in 0..k {
        let cur = if regs.mode == 2 { regs.registers[slot as usize] } else { 0 };
        let mut slot_acc = 0.0f64;
        for v in (1..=63u8).rev() {
            let p = if v == 63 { (-62.0f64).exp2() } else { (-(v as f64)).exp2() };
            if regs.mode == 2 && v <= cur {
                continue;
            }
            let mut c = s.clone();
            c.verif_update_with_coupon(coupon(slot, v));
            slot_acc += p * (c.estimate() - e0);
        }
        acc += slot_acc / k as f64;
    }
    acc
}

fn hip_martingale(ctx: &Ctx) -> u64 {
    let evals = AtomicU64::new(0);
    // HLL: array-mode in-order states along the default runs (lg_k 4..=8 quick, ..=10 thorough)
    let lgs: Vec<u8> = ctx.tier.pick(vec![4, 5, 6, 8], vec![4, 5, 6, 7, 8, 9, 10]);
    lgs.par_iter().for_each(|&lg_k| {
        let k = 1usize << lg_k;
        for (rname, run) in crate::c02::default_runs(lg_k, 8 * k) {
            let mut t = Trio::new(lg_k);
            let stride = if lg_k == 4 { 1 } else { (run.len() / ctx.tier.pick(48, 96)).max(1) };
            for (i, &c) in run.iter().enumerate() {
                let _ = t.offer_light(c);
                if i % stride != 0 {
                    continue;
                }
                for (ti, s) in t.s.iter().enumerate() {
                    let st = s.verif_state();
                    if st.mode != 2 || st.ooo {
                        continue;
                    }
                    // only one representative type per state beyond lg_k 6 (they are bit-identical, C02)
                    if lg_k > 6 && ti != 0 {
                        continue;
                    }
                    let inc = hll_expected_increment(s, lg_k);
                    evals.fetch_add(1, Ordering::Relaxed);
                    if (inc - 1.0).abs() > 1e-9 {
                        ctx.violation(
                            "hll.bounds.hip_martingale",
                            &format!("lg_k {lg_k} Hll{}: the expected HIP increment over all next coupons is {inc}, not 1 (estimator biased from this state on)", [4, 6, 8][ti]),
                            hllm::replay_json(lg_k, &[], &run[..=i]),
                        );
                    }
                }
            }
            let _ = rname;
        }
    });
    // CPC: every state along the four default runs at lg_k 4 (and 5 on a grid)
    let cl: Vec<u8> = ctx.tier.pick(vec![4, 5], vec![4, 5, 6]);
    cl.par_iter().for_each(|&lg_k| {
        let k = 1u32 << lg_k;
        crate::c05::default_runs(lg_k).par_iter().for_each(|(_rname, run)| {
            let mut d = Duo::new(lg_k);
            let stride = if lg_k == 4 { ctx.tier.pick(4, 1) } else { (run.len() / ctx.tier.pick(48, 256)).max(1) };
            for (i, &p) in run.iter().enumerate() {
                if !d.r.allows(p) {
                    break;
                }
                let _ = d.offer_light(p);
                if i % stride != 0 || d.r.count + 1 >= cpcm::max_coupons(lg_k) {
                    continue;
                }
                let e0 = d.s.estimate();
                let mut acc = 0.0f64;
                for row in 0..k {
                    let mut racc = 0.0f64;
                    for col in (0..64u32).rev() {
                        if d.r.has(cpcm::rc(row, col)) {
                            continue;
                        }
                        let pr = if col == 63 { (-63.0f64).exp2() } else { (-((col + 1) as f64)).exp2() };
                        let mut c = d.s.clone();
                        c.verif_row_col_update(cpcm::rc(row, col));
                        racc += pr * (c.estimate() - e0);
                    }
                    acc += racc / k as f64;
                }
                evals.fetch_add(1, Ordering::Relaxed);
                // kxp is kept in f64 with cancellation: tolerate the rounding bound of the model
                let tol = 1e-9 + 4.0 * d.r.kxp_eps() / d.r.kxp().max(1e-300);
                if (acc - 1.0).abs() > tol {
                    ctx.violation(
                        "cpc.bounds.hip_martingale",
                        &format!("lg_k {lg_k} C={}: the expected HIP increment over all next pairs is {acc}, not 1 (tolerance {tol:.1e})", d.r.count),
                        cpcm::replay_json(lg_k, &run[..=i]),
                    );
                }
            }
        });
    });
    let n = evals.load(Ordering::Relaxed);
    ctx.count("HIP martingale identity: states in which ALL next coupons were enumerated", n);
    n
}

// ------------------------------------------------------------- the "deserialized" clause
// The estimate and the six bounds of deserialize(serialize(s)) must be those of s, so every
// ordering / nesting / exactness fact established for s holds for the restored sketch too.

fn hll_deserialized(ctx: &Ctx, t: &Trio, mk: &dyn Fn() -> serde_json::Value) {
    for s in &t.s {
        let r = catch(|| HllSketch::deserialize(&s.serialize()));
        match r {
            Ok(Ok(d)) => {
                if hllm::obs_est(&d) != hllm::obs_est(s) {
                    ctx.violation("hll.bounds.deserialized", &format!("estimate/bounds change across serialize->deserialize: {} -> {}", s.estimate(), d.estimate()), mk());
                }
            }
            Ok(Err(e)) => {
                ctx.violation("hll.bounds.deserialized", &format!("own image rejected: {e}"), mk());
            }
            Err(p) => {
                ctx.violation(&format!("panic|{}", p.site_key()), &format!("serialize/deserialize panicked: {}", p.message), mk());
            }
        }
    }
}

fn theta_deserialized(ctx: &Ctx, p: &crate::thetam::Pair, mk: &dyn Fn() -> serde_json::Value) {
    use NumStdDev::*;
    let o = |c: &CompactThetaSketch| [c.estimate(), c.lower_bound(One), c.lower_bound(Two), c.lower_bound(Three), c.upper_bound(One), c.upper_bound(Two), c.upper_bound(Three)].map(f64::to_bits);
    let r = catch(|| {
        let mut bad = vec![];
        let live = [p.s.estimate(), p.s.lower_bound(One), p.s.lower_bound(Two), p.s.lower_bound(Three), p.s.upper_bound(One), p.s.upper_bound(Two), p.s.upper_bound(Three)].map(f64::to_bits);
        for ordered in [true, false] {
            let c = p.s.compact(ordered);
            let want = o(&c);
            // the compact form answers exactly as the sketch it was taken from
            if want != live {
                bad.push(format!("compact(ordered={ordered}): estimate {} / ub3 {} but the update sketch says {} / {}", c.estimate(), c.upper_bound(Three), p.s.estimate(), p.s.upper_bound(Three)));
            }
            for (form, img) in [("serialize", c.serialize()), ("serialize_compressed", c.serialize_compressed())] {
                match CompactThetaSketch::deserialize_with_seed(&img, p.cfg.seed) {
                    Ok(d) => {
                        if o(&d) != want || d.is_empty() != c.is_empty() || d.is_estimation_mode() != c.is_estimation_mode() {
                            bad.push(format!("{form} (ordered={ordered}): estimate {} -> {}, estimation mode {} -> {}", c.estimate(), d.estimate(), c.is_estimation_mode(), d.is_estimation_mode()));
                        }
                    }
                    Err(e) => bad.push(format!("{form}: own image rejected: {e}")),
                }
            }
        }
        bad
    });
    match r {
        Ok(bad) => {
            if let Some(w) = bad.first() {
                ctx.violation("theta.bounds.deserialized", &format!("estimate/bounds change across compact->serialize->deserialize: {w}"), mk());
            }
        }
        Err(p) => {
            ctx.violation(&format!("panic|{}", p.site_key()), &format!("compact/serialize/deserialize panicked: {}", p.message), mk());
        }
    }
}

fn cpc_deserialized(ctx: &Ctx, d: &Duo, mk: &dyn Fn() -> serde_json::Value) {
    use NumStdDev::*;
    let o = |c: &datasketches::cpc::CpcSketch| [c.estimate(), c.lower_bound(One), c.lower_bound(Two), c.lower_bound(Three), c.upper_bound(One), c.upper_bound(Two), c.upper_bound(Three)].map(f64::to_bits);
    match catch(|| datasketches::cpc::CpcSketch::deserialize(&d.s.serialize())) {
        Ok(Ok(r)) => {
            if o(&r) != o(&d.s) {
                ctx.violation("cpc.bounds.deserialized", &format!("estimate/bounds change across serialize->deserialize: {} -> {}", d.s.estimate(), r.estimate()), mk());
            }
        }
        Ok(Err(e)) => {
            ctx.violation("cpc.bounds.deserialized", &format!("own image rejected: {e}"), mk());
        }
        Err(p) => {
            ctx.violation(&format!("panic|{}", p.site_key()), &format!("serialize/deserialize panicked: {}", p.message), mk());
        }
    }
}

pub fn run(ctx: &Ctx) -> i32 {
    let total = AtomicU64::new(0);
    let jobs: Vec<Box<dyn Fn() + Sync + Send>> = vec![
        // (1) ordering/nesting/exactness in every explored state
        Box::new(|| crate::c02::explore(ctx, &hll_deserialized)),
        Box::new(|| crate::c03::explore(ctx, &crate::c03::no_observer)),
        Box::new(|| crate::c04::explore(ctx, &theta_deserialized)),
        Box::new(|| crate::c05::explore(ctx, &cpc_deserialized)),
        Box::new(|| crate::c06::explore(ctx, &crate::c06::no_observer)),
        // (2) estimator argument spaces
        Box::new(|| {
            total.fetch_add(hll_coupon_sweep(ctx), Ordering::Relaxed);
        }),
        Box::new(|| {
            total.fetch_add(hll_rel_err_table(ctx), Ordering::Relaxed);
        }),
        Box::new(|| {
            total.fetch_add(hll_composite_multisets(ctx), Ordering::Relaxed);
        }),
        Box::new(|| {
            total.fetch_add(hll_composite_continuity(ctx), Ordering::Relaxed);
        }),
        Box::new(|| {
            total.fetch_add(cpc_icon(ctx), Ordering::Relaxed);
        }),
        Box::new(|| {
            total.fetch_add(cpc_confidence_tables(ctx), Ordering::Relaxed);
        }),
        Box::new(|| {
            total.fetch_add(theta_bounds_grid(ctx), Ordering::Relaxed);
        }),
        // (3) HIP unbiasedness as a one-step identity
        Box::new(|| {
            total.fetch_add(hip_martingale(ctx), Ordering::Relaxed);
        }),
    ];
    jobs.par_iter().enumerate().for_each(|(i, j)| {
        let t = std::time::Instant::now();
        // a panic that escapes a job's own guards (e.g. inside an estimator table lookup) is a
        // violation of the property's "in every state" clauses, not a crash of the check
        if let Err(p) = catch(|| j()) {
            ctx.violation(&format!("panic|{}", p.site_key()), &format!("C01 job {i} panicked: {} at {}:{}", p.message, p.file, p.line), json!({"kind":"c01_job","job":i}));
        }
        if std::env::var("VERIF_DEBUG").is_ok() {
            eprintln!("C01 job {i}: {:.1}s", t.elapsed().as_secs_f64());
        }
    });
    let t = total.load(Ordering::Relaxed);
    ctx.add_states(t);
    ctx.add_transitions(t);
    ctx.sample(json!({"martingale":{"family":"hll","lg_k":4,"state":"in-order array after 37 coupons of the default run","enumerated":"16 slots x values 1..=63 with probability 2^-v/16 (value 63 carries 2^-62)","identity":"sum p*(estimate'-estimate) == 1 +- 1e-9"}}));
    ctx.sample(json!({"icon":{"lg_k":10,"num_coupons":5837,"checks":["est >= C","monotone in C","bounds nested","|approx - bisection of E[C|N]=C| <= 8e-3 * 2^-(lg_k-4) relative (floor 1.2e-5)"]}}));
    let cov = json!({
        "exhaustive": true,
        "bounds": {
            "states": "every state of the reduced-bound C02..C06 explorations (ordering, nesting, exact mode, non-collapsing coverage after screened updates)",
            "hll": "coupon estimator: every length up to the set capacity at lg_k 16 (21 thorough); relative-error table: lg_k 4..=21 x HIP/non-HIP x lb/ub x 3 std devs; composite estimator: ALL multisets of 16 registers (lg_k=4) over {0..6,32} (thorough {0..7,31,32,63})",
            "cpc": "ICON: lg_k 4..=26, every C up to the model cap for lg_k <= 10 (12), 1/16 (1/64)-octave grid above, incl. the polynomial/exponential switch; confidence tables lg_k 4..=20",
            "theta": "binomial bounds: num_retained {0..=300, then every 64th (16th) to 7680} x 76 (300) thetas incl. the smallest steps below 1.0 and tiny thetas",
            "hip_martingale": "HLL lg_k 4,5,6,8 (..10): every (lg_k=4) / 24 (96) grid states of 3 default runs x all k*63 next coupons; CPC lg_k 4 every 4th (every) state, lg_k 5 (6) grid, 4 default runs x all k*64 next pairs",
        },
        "not_decided_here": "bias of the composite/ICON/coupon/theta estimators over random item sets, RSE consistency and 68/95/99.7% coverage rates are statements about distributions; deciding them needs sampling, a different family (DESIGN §4)",
    });
    ctx.finish(
        cov,
        vec![
            "ICON tolerance is fixed at about 10x the largest deviation from the exact definition measured on the unchanged tree (reported as icon_max_rel_dev)".into(),
            "HIP unbiasedness follows from the one-step identity by the tower property, for every cardinality reachable from the states in which it was checked".into(),
        ],
    )
}

pub fn filter(k: &str) -> bool {
    k.contains(".bounds") || k.starts_with("theta.exact_mode") || k.starts_with("theta.estimate") || k.starts_with("theta.empty_after_screened") || k.starts_with("union.zero_estimate") || k.starts_with("union.type_dependent") || k.starts_with("hll.types_disagree") || k.starts_with("panic|")
}
