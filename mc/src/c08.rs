//! C08 — Count-Min never under-counts; its table is the exact sum of hashed weights.
//!
//! E1 (explicit-state BFS over the real sketch) per configuration, E3 for the deterministic
//! confidence clause. See cmm.rs for the model and the oracle.

use crate::cm_dispatch;
use crate::cmm::{self, Applied, Cv, Edges, Layout, Op, Pair};
use crate::common::{Ctx, Tier, catch};
use crate::engine::{self, Step};
use datasketches::countmin::CountMinSketch;
use rayon::prelude::*;
use serde_json::{Value, json};
use std::sync::atomic::{AtomicU64, Ordering};

/// What an observer (C11/C12/C17/C18 riding on this exploration) sees of a visited state.
pub struct CmState<'a> {
    pub ty: &'static str,
    pub hashes: u8,
    pub buckets: u32,
    pub seed: u64,
    /// `serialize()` of the real sketch in this state
    pub image: &'a [u8],
    pub model_table: &'a [u64],
    pub model_total: u64,
}

pub type Observer = dyn Fn(&Ctx, &CmState, &dyn Fn() -> Value) + Sync;
pub fn no_observer(_: &Ctx, _: &CmState, _: &dyn Fn() -> Value) {}

pub const HASHES: [u8; 8] = [1, 2, 3, 4, 5, 6, 7, 8];
pub const BUCKETS: [u32; 9] = [3, 4, 5, 7, 8, 16, 17, 64, 512];
pub const SEEDS: [u64; 4] = [9001, 0, 1, u64::MAX];

#[derive(Clone, Debug, PartialEq)]
pub struct Job {
    pub ty: &'static str,
    pub hashes: u8,
    pub buckets: u32,
    pub seed: u64,
    pub depth: usize,
}

/// The configurations explored and the BFS depth of each.
///
/// thorough: the COMPLETE product (8 x 9 x 4 x 8 = 2304) to depth 4; at seed 9001 every
///   (type, num_hashes) at 3 buckets, and for u16/i32 every num_buckets with num_hashes
///   rotating, to depth 5; u8/u64/i8/i32 with 2 hashes x 3 buckets to depth 6.
/// quick: every (type, num_hashes) at 3 buckets (seed rotating over all four) and every
///   (type, num_buckets != 3) with num_hashes and seed rotating (Latin square), all to depth 4.
pub fn jobs(tier: Tier) -> Vec<Job> {
    let mut v: Vec<Job> = vec![];
    let mut push = |j: Job| {
        if let Some(e) = v.iter_mut().find(|e| e.ty == j.ty && e.hashes == j.hashes && e.buckets == j.buckets && e.seed == j.seed) {
            e.depth = e.depth.max(j.depth);
        } else {
            v.push(j);
        }
    };
    match tier {
        Tier::Quick => {
            for (ti, ty) in cmm::TYPES.iter().enumerate() {
                for (hi, &hashes) in HASHES.iter().enumerate() {
                    push(Job { ty, hashes, buckets: 3, seed: SEEDS[(ti + hi) % 4], depth: 4 });
                }
                for (bi, &buckets) in BUCKETS.iter().enumerate().skip(1) {
                    let hashes = HASHES[(ti + bi) % 8];
                    let seed = SEEDS[(ti + bi + 1) % 4];
                    push(Job { ty, hashes, buckets, seed, depth: 4 });
                }
            }
        }
        Tier::Thorough => {
            for ty in cmm::TYPES {
                for hashes in HASHES {
                    for buckets in BUCKETS {
                        for seed in SEEDS {
                            let ti = cmm::TYPES.iter().position(|t| *t == ty).unwrap();
                            let bi = BUCKETS.iter().position(|b| *b == buckets).unwrap();
                            let mut depth = 4;
                            if seed == 9001 && (buckets == 3 || ((ty == "u16" || ty == "i32") && hashes == HASHES[(ti + bi) % 8])) {
                                depth = 5;
                            }
                            if buckets == 3 && seed == 9001 && hashes == 2 && ["u8", "u64", "i8", "i32"].contains(&ty) {
                                depth = 6;
                            }
                            push(Job { ty, hashes, buckets, seed, depth });
                        }
                    }
                }
            }
        }
    }
    if let Ok(f) = std::env::var("VERIF_ONLY") {
        // debugging aid: VERIF_ONLY=type,hashes,buckets,seed,depth
        let p: Vec<&str> = f.split(',').collect();
        let ty = cmm::TYPES.iter().copied().find(|t| *t == p[0]).expect("type");
        return vec![Job { ty, hashes: p[1].parse().unwrap(), buckets: p[2].parse().unwrap(), seed: p[3].parse().unwrap(), depth: p[4].parse().unwrap() }];
    }
    // biggest first, for load balance
    v.sort_by_key(|j| std::cmp::Reverse((j.depth, j.hashes as u64 * j.buckets as u64)));
    v
}

struct Shared<'a> {
    ctx: &'a Ctx,
    obs: &'a Observer,
    edges: &'a Edges,
    ub_overflow_states: &'a AtomicU64,
    /// smallest (ops, job index) witness of the query-only finding, reported once at the end
    ub_best: &'a std::sync::Mutex<Option<((usize, u64, usize), String, Value)>>,
    per_depth: &'a std::sync::Mutex<Vec<u64>>,
}

fn explore_cfg<T: Cv>(sh: &Shared, job: &Job, job_idx: usize) {
    let ctx = sh.ctx;
    let lay = Layout::new(job.hashes, job.buckets, job.seed);
    let recipes = cmm::pool_recipes(T::NAME);
    let desc = format!("CountMinSketch<{}> {}x{} seed {}", T::NAME, job.hashes, job.buckets, job.seed);
    let full = lay.rows_colliding(0, 1) == lay.hashes as usize;
    ctx.count(if full { "configurations whose alphabet has a pair colliding in ALL rows" } else { "configurations where no candidate pair collides in all rows (best partial pair used)" }, 1);
    let report = |vs: Vec<(String, String)>, ops: &dyn Fn() -> Vec<Op>| -> bool {
        let mut stop = false;
        for (k, w) in vs {
            if cmm::is_query_only(&k) {
                // counted everywhere, reported once (deterministically: the shortest witness on the
                // smallest table, ties by job order)
                sh.ub_overflow_states.fetch_add(1, Ordering::Relaxed);
                let o = ops();
                let mut g = sh.ub_best.lock().unwrap();
                let rank = (o.len(), job.hashes as u64 * job.buckets as u64, job_idx);
                let better = match &*g {
                    None => true,
                    Some((r, _, _)) => rank < *r,
                };
                if better {
                    *g = Some((rank, format!("{desc}: {w}"), cmm::replay_json(T::NAME, &lay, &recipes, &o)));
                }
                continue;
            }
            let new = ctx.violation(&k, &format!("{desc}: {w}"), cmm::replay_json(T::NAME, &lay, &recipes, &ops()));
            stop |= new || k.starts_with("panic|");
        }
        stop
    };
    // pool
    let mut pool: Vec<Pair<T>> = vec![];
    for r in &recipes {
        match cmm::build_member::<T>(&lay, r, sh.edges) {
            Ok(p) => pool.push(p),
            Err(vs) => {
                let ops = || r.iter().map(|(i, w)| Op::Update(*i, *w)).collect::<Vec<_>>();
                report(vs, &ops);
                return;
            }
        }
    }
    let mut init = match Pair::<T>::new(&lay) {
        Ok(p) => p,
        Err(v) => {
            report(vec![v], &|| vec![]);
            return;
        }
    };
    let bounds_n = ctx.tier.pick(32, 64);
    let (vs, _) = init.check_state(&lay, sh.edges, lay.items.len(), &|_| true);
    if report(vs, &|| vec![]) {
        return;
    }
    let ops = cmm::alphabet(T::NAME);
    let ops_ref = &ops;
    // states whose domain queries have been evaluated (sharded set)
    let visited: Vec<std::sync::Mutex<std::collections::HashSet<Vec<u8>>>> = (0..64).map(|_| Default::default()).collect();
    let first_visit = |k: &[u8]| -> bool {
        let h = crate::refhash::xxh64(k, 0);
        let mut g = visited[(h % 64) as usize].lock().unwrap();
        if g.contains(k) {
            false
        } else {
            g.insert(k.to_vec());
            true
        }
    };
    let queried = AtomicU64::new(0);
    let tiny: Option<CountMinSketch<T>> = catch(|| CountMinSketch::<T>::with_seed(1, 3, lay.seed)).ok();
    let first_visit = |k: &[u8]| -> bool {
        let f = first_visit(k);
        if f {
            queried.fetch_add(1, Ordering::Relaxed);
        }
        f
    };
    let stats = engine::bfs(
        vec![(init, vec![])],
        &ops,
        job.depth,
        8_000_000,
        |p: &Pair<T>, op: &Op, path: &[u16]| {
            let mut n = p.clone();
            match n.apply(&lay, &pool, op, sh.edges, bounds_n, &first_visit) {
                Applied::Refused => Step::Refused,
                Applied::Done(vs, img) => {
                    let opsf = || -> Vec<Op> { path.iter().map(|&i| ops_ref[i as usize].clone()).chain([op.clone()]).collect() };
                    if !vs.is_empty() && report(vs, &opsf) {
                        return Step::Stop;
                    }
                    (sh.obs)(
                        ctx,
                        &CmState { ty: T::NAME, hashes: lay.hashes, buckets: lay.buckets, seed: lay.seed, image: &img, model_table: &n.m.table, model_total: n.m.total },
                        &|| cmm::replay_json(T::NAME, &lay, &recipes, &opsf()),
                    );
                    if path.len() + 1 >= job.depth {
                        // leaf of the bounded exploration: never expanded, keep only the key
                        n.m.table = Vec::new();
                        if let Some(tiny) = &tiny {
                            n.s = tiny.clone();
                        }
                    }
                    Step::Next(n)
                }
            }
        },
        |p: &Pair<T>| p.key.clone(),
        |_: &Pair<T>| (),
        |_: &[u16], _: &[u16]| {},
        |_: &Pair<T>, _: &[u16]| {},
    );
    ctx.add_states(stats.states);
    ctx.add_transitions(stats.transitions);
    ctx.count("E1 configurations explored", 1);
    ctx.count(&format!("E1 configurations explored to depth {}", stats.depth_completed), 1);
    ctx.count("E1 states (distinct (table, total, truths))", stats.states);
    ctx.count("E1 merged arrivals", stats.merged);
    ctx.count("E1 states in which the whole query domain was evaluated", queried.load(Ordering::Relaxed) + 1);
    ctx.count("E1 ops refused by the model (overflow of T::MAX)", stats.refused);
    if let Some(dp) = stats.cap_hit_at_depth {
        ctx.note(format!("{desc}: state cap hit at depth {dp}; complete to depth {}", stats.depth_completed));
        ctx.count("E1 configurations capped", 1);
    }
    {
        let mut pd = sh.per_depth.lock().unwrap();
        for (i, n) in stats.per_depth.iter().enumerate() {
            if pd.len() <= i {
                pd.resize(i + 1, 0);
            }
            pd[i] += n;
        }
    }
    if std::env::var("VERIF_DEBUG").is_ok() {
        eprintln!("{desc} depth {}: states {} transitions {} per_depth {:?} t={:.1}s", job.depth, stats.states, stats.transitions, stats.per_depth, ctx.start.elapsed().as_secs_f64());
    }
}

/// E3: deterministic form of the confidence clause. Stream "items 0..10w, weight 1"; over the
/// ENTIRE 4096-item query domain the fraction with estimate > truth + (e/w)*W must be <= e^-d.
fn confidence_t<T: Cv>(ctx: &Ctx, hashes: u8, buckets: u32, seed: u64) -> u64 {
    let n_items = 10 * buckets as u64;
    if n_items > T::MAXU {
        return 0;
    }
    let r = catch(|| {
        let mut s = CountMinSketch::<T>::with_seed(hashes, buckets, seed);
        for x in 0..n_items {
            s.update(x);
        }
        let est: Vec<i128> = (0..4096u64).map(|x| s.estimate(x).to_i128()).collect();
        (est, s.total_weight().to_i128(), s.relative_error())
    });
    let case = json!({"kind":"cm_confidence","type":T::NAME,"hashes":hashes,"buckets":buckets,"seed":seed,"stream":format!("update(x) for x in 0..{n_items} (u64)"),"query":"estimate(x) for x in 0..4096"});
    match r {
        Err(p) => {
            ctx.violation(&format!("panic|{}", p.site_key()), &format!("confidence stream panicked: {}", p.message), case);
            0
        }
        Ok((est, total, eps)) => {
            let mut bad = 0u64;
            let mut under = 0u64;
            for (x, e) in est.iter().enumerate() {
                let truth = if (x as u64) < n_items { 1i128 } else { 0 };
                if *e < truth {
                    under += 1;
                }
                if (*e as f64) > truth as f64 + (std::f64::consts::E / buckets as f64) * n_items as f64 {
                    bad += 1;
                }
            }
            let frac = bad as f64 / 4096.0;
            let allowed = (-(hashes as f64)).exp();
            if total != n_items as i128 || eps.to_bits() != (std::f64::consts::E / buckets as f64).to_bits() {
                ctx.violation("cm.total_weight", &format!("{}x{} seed {seed}: total_weight {total} after {n_items} unit updates, relative_error {eps}", hashes, buckets), case.clone());
            }
            if under > 0 {
                ctx.violation("cm.underestimate", &format!("{}x{} seed {seed}: {under} of 4096 queried items have estimate < truth after the unit stream", hashes, buckets), case.clone());
            }
            if frac > allowed {
                ctx.violation(
                    "cm.confidence",
                    &format!("CountMinSketch<{}> {hashes}x{buckets} seed {seed}: {bad}/4096 items have estimate > truth + eps*W, fraction {frac:.4} > e^-{hashes} = {allowed:.4}", T::NAME),
                    case,
                );
            }
            4096
        }
    }
}

pub fn replay_confidence(case: &Value) -> String {
    let ty = case["type"].as_str().unwrap_or("u64").to_string();
    let (h, b, s) = (case["hashes"].as_u64().unwrap() as u8, case["buckets"].as_u64().unwrap() as u32, case["seed"].as_u64().unwrap());
    fn go<T: Cv>(h: u8, b: u32, s: u64) -> String {
        let n_items = 10 * b as u64;
        let r = catch(|| {
            let mut sk = CountMinSketch::<T>::with_seed(h, b, s);
            for x in 0..n_items {
                sk.update(x);
            }
            (0..4096u64).map(|x| sk.estimate(x).to_i128()).collect::<Vec<_>>()
        });
        match r {
            Err(p) => format!("VIOLATES panic|{}: {}\n", p.site_key(), p.message),
            Ok(est) => {
                let mut bad = 0;
                let mut under = 0;
                for (x, e) in est.iter().enumerate() {
                    let truth = if (x as u64) < n_items { 1i128 } else { 0 };
                    under += (*e < truth) as u64;
                    bad += ((*e as f64) > truth as f64 + (std::f64::consts::E / b as f64) * n_items as f64) as u64;
                }
                let mut out = format!("under-estimates {under}/4096, beyond eps*W {bad}/4096 (allowed fraction e^-{h} = {:.4})\n", (-(h as f64)).exp());
                if under > 0 {
                    out.push_str("VIOLATES cm.underestimate\n");
                }
                if bad as f64 / 4096.0 > (-(h as f64)).exp() {
                    out.push_str("VIOLATES cm.confidence\n");
                }
                out
            }
        }
    }
    cm_dispatch!(ty.as_str(), go(h, b, s))
}

fn confidence(ctx: &Ctx) {
    let mut grid = vec![];
    for ty in ["u64", "i32", "u16"] {
        for hashes in HASHES {
            for buckets in BUCKETS {
                for seed in SEEDS {
                    if ctx.tier == Tier::Quick && ty != "u64" && seed != 9001 {
                        continue;
                    }
                    grid.push((ty, hashes, buckets, seed));
                }
            }
        }
    }
    let evals: u64 = grid
        .par_iter()
        .map(|&(ty, h, b, s)| {
            let n = cm_dispatch!(ty, confidence_t(ctx, h, b, s));
            if n > 0 {
                ctx.count("E3 confidence grid points (type x hashes x buckets x seed)", 1);
            }
            n
        })
        .sum();
    ctx.count("E3 confidence: estimates compared against truth + eps*W", evals);
    ctx.add_transitions(evals);
    if evals > 0 {
        ctx.edge("E3 confidence clause evaluated over the entire 4096-item query domain");
    }
}

pub fn explore(ctx: &Ctx, obs: &Observer) {
    let mut js = jobs(ctx.tier);
    if ctx.reduced {
        // observer runs: every 4th configuration (still every counter type), one level shallower
        js = js.into_iter().enumerate().filter(|(i, _)| i % 4 == 0).map(|(_, mut j)| { j.depth = j.depth.min(3); j }).collect();
    }
    let edges = Edges::default();
    let ub = AtomicU64::new(0);
    let ub_best = std::sync::Mutex::new(None);
    let per_depth = std::sync::Mutex::new(vec![]);
    let sh = Shared { ctx, obs, edges: &edges, ub_overflow_states: &ub, ub_best: &ub_best, per_depth: &per_depth };
    ctx.count("configurations (type x num_hashes x num_buckets x seed)", js.len() as u64);
    js.par_iter().enumerate().for_each(|(ji, job)| {
        let shr = &sh;
        cm_dispatch!(job.ty, explore_cfg(shr, job, ji));
    });
    edges.flush(ctx);
    if let Some((_, what, replay)) = ub_best.lock().unwrap().take() {
        ctx.violation("cm.upper_bound.overflow", &what, replay);
    }
    ctx.count("states in which upper_bound of some queried item overflows T::MAX and wraps", ub.load(Ordering::Relaxed));
    ctx.note(format!("E1 states per BFS depth summed over configurations: {:?}", per_depth.lock().unwrap()));
}

pub fn run(ctx: &Ctx) -> i32 {
    match crate::refhash::self_test() {
        Ok(_) => {}
        Err(e) => {
            eprintln!("machinery error: reference hash self-test failed: {e}");
            return 2;
        }
    }
    explore(ctx, &no_observer);
    confidence(ctx);
    // two real cases, executed here and described step by step
    {
        let lay = Layout::new(8, 3, 9001);
        let rec = cmm::pool_recipes("u8");
        let d = catch(|| cmm::describe::<u8>(&lay, &rec, &[Op::Update(0, 2), Op::Update(1, 1), Op::Merge(1), Op::Halve, Op::Decay(0.999)])).unwrap_or(json!("sample run failed (see violations)"));
        ctx.sample(json!({"E1 path (u8, 8 rows x 3 buckets: items [0] and [1] collide in all 8 rows)": d}));
        let lay = Layout::new(3, 17, u64::MAX);
        let rec = cmm::pool_recipes("i16");
        let d = catch(|| cmm::describe::<i16>(&lay, &rec, &[Op::Update(4, i16::MAX as u64 / 4), Op::Merge(2), Op::Update(5, 2), Op::Update(0, i16::MAX as u64 / 4), Op::Update(0, i16::MAX as u64 / 4)])).unwrap_or(json!("sample run failed (see violations)"));
        ctx.sample(json!({"E1 path (i16, 3 rows x 17 buckets, seed u64::MAX)": d}));
    }
    {
        let e = ctx.edges.lock().unwrap();
        let mut need = vec![
            "update of an item that collides in ALL rows",
            "merge(non-empty into non-empty)",
            "merge(empty operand)",
            "halve truncates an odd counter",
            "decay(0.5)",
            "decay(0.999)",
            "decay truncates a counter to 0",
            "state with estimate(x) > truth(x) for a counted item",
            "state with estimate(x) > 0 for a never-updated item",
            "op refused by the model",
            "E3 confidence clause",
        ];
        if std::env::var("VERIF_ONLY").is_ok() {
            need.clear();
        }
        let missing: Vec<&str> = need.iter().copied().filter(|n| !e.keys().any(|k| k.starts_with(n))).collect();
        if !missing.is_empty() {
            eprintln!("machinery error: exploration is vacuous, edges not covered: {:?}", missing);
            if ctx.num_violations() == 0 {
                return 2;
            }
        }
    }
    let js = jobs(ctx.tier);
    let depth_hist = {
        let mut m = std::collections::BTreeMap::new();
        for j in &js {
            *m.entry(format!("depth {}", j.depth)).or_insert(0u64) += 1;
        }
        m
    };
    let cov = json!({
        "exhaustive": true,
        "bounds": {
            "configurations": match ctx.tier {
                Tier::Quick => "quick: all 8 counter types x all num_hashes 1..=8 at 3 buckets (seed rotating over {9001,0,1,u64::MAX}) + every type x every num_buckets in {4,5,7,8,16,17,64,512} with num_hashes and seed rotating (Latin square)",
                Tier::Thorough => "thorough: COMPLETE product num_hashes 1..=8 x num_buckets {3,4,5,7,8,16,17,64,512} x seed {9001,0,1,u64::MAX} x 8 counter types = 2304 configurations to depth 4; 80 of them (seed 9001: every type x num_hashes at 3 buckets; u16/i32 at every other bucket count) to depth 5; u8/u64/i8/i32 2x3 to depth 6",
            },
            "configurations_by_depth": depth_hist,
            "alphabet": "update_with_weight(item i, w) for 6 items (brute-force chosen among 512 candidates of kinds u64/&str/&[u8]: [0],[1] collide in ALL rows whenever any candidate pair does, [2] collides with [0] in some rows, [3] in none, [4] a &str, [5] a byte slice) x w in {1, 2, T::MAX/4}; merge(pool[j]) for a pool of 4 same-configuration sketches ([0]:1 | [1]:2,[2]:1,[0]:1 | [5]:T::MAX/4,[3]:2 | empty); unsigned types also halve, decay(0.5), decay(1.0), decay(0.999)",
            "model_refusal": "an op that would make total_weight exceed T::MAX is refused by the model (counted as edge 'op refused')",
            "query_domain": format!("estimate of all 256 domain items in EVERY state; lower_bound/upper_bound of {} of them", ctx.tier.pick("the first 32 (incl. the 6 alphabet items)", "the first 64 (incl. the 6 alphabet items)")),
            "merge_key": "sparse real table decoded from serialize() + total + model truths of the 6 alphabet items (the table and the total are the entire mutable state)",
            "E3": "confidence clause: stream items 0..10w weight 1, ENTIRE 4096-item query domain, all (hashes, buckets) grid points x seeds, types u64 (+ i32, u16 where 10w fits)",
        },
    });
    ctx.finish(
        cov,
        vec![
            "bucket positions of the model come from my transcription of MurmurHash3 x64 128 (self-tested on every run) applied to the bytes the item's Hash impl writes (recorded with a Hasher that only records)".into(),
            "the real table is read from serialize() (16-byte preamble, total, counters row-major); C11/C12 check the serializer itself, and estimate() is compared in every state against the minimum of the item's model counters, which ties the in-memory table to the image".into(),
            "after halve/decay the model carries the truncated integer truth floor(d*truth) forward (monotonicity of x -> floor(d*x)); a real-valued scaled truth would NOT be a valid lower bound after repeated truncation with d close to 1".into(),
            "decay on u64 goes through f64 in library and model alike; values above 2^53 are rounded the same way in both".into(),
            "states are merged when real table, total and model truths agree; the alphabet has 6 items and 3 weights, so claims are for those histories up to the stated depth".into(),
        ],
    )
}
