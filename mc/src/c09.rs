//! C09 — Bloom filter: no false negatives; bits are exactly the reference hash positions.
//!
//! E1 (explicit-state BFS over the real filter) per configuration; E3 for the builder
//! functions and the deterministic false-positive-rate clause. Model/oracle: bloomm.rs.

use crate::bloomm::{self, Applied, Edges, Layout, Op, Pair};
use crate::common::{Ctx, Tier, catch};
use crate::engine::{self, Step};
use datasketches::bloom::{BloomFilter, BloomFilterBuilder};
use rayon::prelude::*;
use serde_json::{Value, json};
use std::sync::atomic::{AtomicU64, Ordering};

/// What an observer riding on this exploration sees of a visited state.
pub struct BloomState<'a> {
    pub num_bits: u64,
    pub num_hashes: u16,
    pub seed: u64,
    pub filter: &'a BloomFilter,
    /// `serialize()` of the real filter in this state
    pub image: &'a [u8],
    pub model_bits: &'a [u64],
    pub obligations: u64,
}

pub type Observer = dyn Fn(&Ctx, &BloomState, &dyn Fn() -> Value) + Sync;
pub fn no_observer(_: &Ctx, _: &BloomState, _: &dyn Fn() -> Value) {}

pub const SIZES: [u64; 12] = [1, 2, 63, 64, 65, 100, 127, 128, 129, 1000, 4096, 65536];
pub const SEEDS: [u64; 3] = [9001, 0, u64::MAX];

#[derive(Clone, Debug, PartialEq)]
pub struct Job {
    pub num_bits: u64,
    pub num_hashes: u16,
    pub seed: u64,
    pub depth: usize,
}

/// quick: COMPLETE product 12 sizes x num_hashes 1..=16 x 3 seeds = 576 configurations, depth 4.
/// thorough: the complete product to depth 6 for sizes <= 4096 and depth 5 for 65536 bits
///   (8 KiB per live state); sizes {1 (-> 64 bits), 65 (-> 128)} x num_hashes {1, 3} at seed
///   9001 to depth 7.
pub fn jobs(tier: Tier) -> Vec<Job> {
    let mut v = vec![];
    for &num_bits in SIZES.iter() {
        for num_hashes in 1..=16u16 {
            for &seed in SEEDS.iter() {
                let depth = match tier {
                    Tier::Quick => 4,
                    Tier::Thorough => {
                        if seed == 9001 && [1, 65].contains(&num_bits) && [1, 3].contains(&num_hashes) {
                            7
                        } else if num_bits <= 4096 {
                            6
                        } else {
                            5
                        }
                    }
                };
                v.push(Job { num_bits, num_hashes, seed, depth });
            }
        }
    }
    if let Ok(f) = std::env::var("VERIF_ONLY") {
        // debugging aid: VERIF_ONLY=num_bits,num_hashes,seed,depth
        let p: Vec<u64> = f.split(',').map(|x| x.parse().unwrap()).collect();
        return vec![Job { num_bits: p[0], num_hashes: p[1] as u16, seed: p[2], depth: p[3] as usize }];
    }
    v.sort_by_key(|j| std::cmp::Reverse((j.depth, j.num_bits)));
    v
}

fn explore_cfg(ctx: &Ctx, obs: &Observer, edges: &Edges, per_depth: &std::sync::Mutex<Vec<u64>>, job: &Job) {
    let lay = Layout::new(job.num_bits, job.num_hashes, job.seed);
    let recipes = bloomm::pool_recipes();
    let desc = format!("BloomFilter({} bits -> capacity {}, {} hashes, seed {})", job.num_bits, lay.words * 64, job.num_hashes, job.seed);
    let report = |vs: Vec<(String, String)>, ops: &dyn Fn() -> Vec<Op>| -> bool {
        let mut stop = false;
        for (k, w) in vs {
            let new = ctx.violation(&k, &format!("{desc}: {w}"), bloomm::replay_json(&lay, &recipes, &ops()));
            stop |= new || k.starts_with("panic|");
        }
        stop
    };
    let mut pool: Vec<Pair> = vec![];
    for r in &recipes {
        match bloomm::build_member(&lay, r, edges) {
            Ok(p) => pool.push(p),
            Err(vs) => {
                report(vs, &|| r.iter().map(|i| Op::Insert(*i)).collect());
                return;
            }
        }
    }
    let mut init = match Pair::new(&lay) {
        Ok(p) => p,
        Err(v) => {
            report(vec![v], &|| vec![]);
            return;
        }
    };
    let (vs, _) = init.check_state(&lay, edges, &|_| true);
    if report(vs, &|| vec![]) {
        return;
    }
    let ops = bloomm::alphabet();
    let ops_ref = &ops;
    let visited: Vec<std::sync::Mutex<std::collections::HashSet<Vec<u8>>>> = (0..64).map(|_| Default::default()).collect();
    let queried = AtomicU64::new(0);
    let first_visit = |k: &[u8]| -> bool {
        let h = crate::refhash::xxh64(k, 0);
        let mut g = visited[(h % 64) as usize].lock().unwrap();
        if g.contains(k) {
            false
        } else {
            g.insert(k.to_vec());
            queried.fetch_add(1, Ordering::Relaxed);
            true
        }
    };
    let tiny = Layout::build(1, 1, lay.seed, vec![]).make().ok();
    let stats = engine::bfs(
        vec![(init, vec![])],
        &ops,
        job.depth,
        8_000_000,
        |p: &Pair, op: &Op, path: &[u16]| {
            let mut n = p.clone();
            let Applied::Done(vs, img) = n.apply(&lay, &pool, op, edges, &first_visit);
            let opsf = || -> Vec<Op> { path.iter().map(|&i| ops_ref[i as usize].clone()).chain([op.clone()]).collect() };
            if !vs.is_empty() && report(vs, &opsf) {
                return Step::Stop;
            }
            obs(
                ctx,
                &BloomState { num_bits: lay.num_bits, num_hashes: lay.num_hashes, seed: lay.seed, filter: &n.f, image: &img, model_bits: &n.m.bits, obligations: n.m.oblig },
                &|| bloomm::replay_json(&lay, &recipes, &opsf()),
            );
            if path.len() + 1 >= job.depth {
                // leaf of the bounded exploration: never expanded, keep only the key
                n.m.bits = Vec::new();
                if let Some(t) = &tiny {
                    n.f = t.clone();
                }
            }
            Step::Next(n)
        },
        |p: &Pair| p.key.clone(),
        |_: &Pair| (),
        |_: &[u16], _: &[u16]| {},
        |_: &Pair, _: &[u16]| {},
    );
    ctx.add_states(stats.states);
    ctx.add_transitions(stats.transitions);
    ctx.count("E1 configurations explored", 1);
    ctx.count(&format!("E1 configurations explored to depth {}", stats.depth_completed), 1);
    ctx.count("E1 states (distinct (bit array, num_bits_set, obligation set))", stats.states);
    ctx.count("E1 merged arrivals", stats.merged);
    ctx.count("E1 states in which the whole query domain was evaluated", queried.load(Ordering::Relaxed) + 1);
    if let Some(dp) = stats.cap_hit_at_depth {
        ctx.note(format!("{desc}: state cap hit at depth {dp}; complete to depth {}", stats.depth_completed));
        ctx.count("E1 configurations capped", 1);
    }
    {
        let mut pd = per_depth.lock().unwrap();
        for (i, n) in stats.per_depth.iter().enumerate() {
            if pd.len() <= i {
                pd.resize(i + 1, 0);
            }
            pd[i] += n;
        }
    }
    if std::env::var("VERIF_DEBUG").is_ok() {
        eprintln!("{desc} depth {}: states {} transitions {} per_depth {:?} t={:.1}s", job.depth, stats.states, stats.transitions, stats.per_depth, ctx.start.elapsed().as_secs_f64());
    }
}

/// Item shapes (E3): items whose `Hash` impl issues several `write` calls of awkward lengths
/// (strings of every length 0..=70, byte slices, u64 tuples of 1..=6 members, nested tuples),
/// one insert each into fresh filters of three configurations, bit array against the
/// reference positions computed from the recorded byte sequence.
fn item_shapes(ctx: &Ctx) -> u64 {
    use crate::c16::recorded_bytes;
    use crate::refhash;
    use datasketches::bloom::BloomFilterBuilder;
    fn one<T: std::hash::Hash + std::fmt::Debug>(ctx: &Ctx, item: &T, label: &str) -> u64 {
        let bytes = recorded_bytes(item);
        let mut n = 0;
        for (bits, hashes, seed) in [(1000u64, 5u16, 9001u64), (64, 3, 0), (4096, 16, u64::MAX)] {
            let mut f = BloomFilterBuilder::with_size(bits, hashes).seed(seed).build();
            f.insert(item);
            let cap = f.capacity() as u64;
            let h0 = refhash::xxh64(&bytes, seed);
            let h1 = refhash::xxh64(&bytes, h0);
            let mut want = vec![0u64; (cap / 64) as usize];
            for i in 1..=hashes as u64 {
                let p = (h0.wrapping_add(i.wrapping_mul(h1)) >> 1) % cap;
                want[(p / 64) as usize] |= 1 << (p % 64);
            }
            let img = f.serialize();
            let got: Vec<u64> = img[32..].chunks(8).map(|c| u64::from_le_bytes(c.try_into().unwrap())).collect();
            n += 1;
            if got != want || !f.contains(item) {
                ctx.violation(
                    "bloom.bits.item_shape",
                    &format!("BloomFilter({bits} bits, {hashes} hashes, seed {seed}): bit array after inserting {label} {:?} ({} hashed bytes) differs from the reference positions", item, bytes.len()),
                    json!({"kind":"bloom_item_shape","label":label,"item":format!("{:?}", item),"hashed_bytes":crate::common::hex(&bytes),"bits":bits,"hashes":hashes,"seed":seed}),
                );
            }
        }
        n
    }
    let mut n = 0;
    for len in 0..=70usize {
        let s: String = (0..len).map(|i| (b'a' + (i % 26) as u8) as char).collect();
        n += one(ctx, &s.as_str(), "&str");
        n += one(ctx, &s, "String");
        let v: Vec<u8> = (0..len).map(|i| (i * 7 + 1) as u8).collect();
        n += one(ctx, &v.as_slice(), "&[u8]");
    }
    n += one(ctx, &(1u64,), "tuple1");
    n += one(ctx, &(1u64, 2u64), "tuple2");
    n += one(ctx, &(1u64, 2u64, 3u64), "tuple3");
    n += one(ctx, &(1u64, 2u64, 3u64, 4u64), "tuple4");
    n += one(ctx, &(1u64, 2u64, 3u64, 4u64, 5u64), "tuple5");
    n += one(ctx, &(1u64, 2u64, 3u64, 4u64, 5u64, 6u64), "tuple6");
    n += one(ctx, &(1u128, 2u128), "tuple of u128");
    n += one(ctx, &(7u8, 1u64, 2u32, "abc"), "mixed tuple");
    n += one(ctx, &[1u64, 2, 3, 4], "array of u64");
    n += one(ctx, &("0123456789012345678901234567890", 5u8), "31-byte str in a tuple");
    ctx.count("E3 item shapes: single inserts compared with reference positions", n);
    ctx.add_states(n);
    ctx.add_transitions(n);
    n
}

pub fn explore(ctx: &Ctx, obs: &Observer) {
    item_shapes(ctx);
    let mut js = jobs(ctx.tier);
    if ctx.reduced {
        // observer runs: every 4th configuration (still every size), one level shallower
        js = js.into_iter().enumerate().filter(|(i, _)| i % 4 == 0).map(|(_, mut j)| { j.depth = j.depth.min(3); j }).collect();
    }
    let edges = Edges::default();
    let per_depth = std::sync::Mutex::new(vec![]);
    ctx.count("configurations (num_bits x num_hashes x seed)", js.len() as u64);
    js.par_iter().for_each(|job| explore_cfg(ctx, obs, &edges, &per_depth, job));
    edges.flush(ctx);
    ctx.note(format!("E1 states per BFS depth summed over configurations: {:?}", per_depth.lock().unwrap()));
}

// ---------------------------------------------------------------------------------------
// E3: builder functions and the deterministic false-positive-rate clause
// ---------------------------------------------------------------------------------------

/// ceil(x) of a real-valued textbook quantity; `exact` is false when x is so close to an
/// integer that a different but equally valid floating-point arrangement may round the other way.
fn ceil_with_slack(x: f64) -> (f64, bool) {
    let c = x.ceil();
    let near = (x - x.round()).abs() <= 1e-9 * x.abs().max(1.0);
    (c, !near)
}

fn builder_point(n: u64, p: f64) -> Vec<(String, String)> {
    let mut out = vec![];
    let ln2 = std::f64::consts::LN_2;
    let max_bits = BloomFilterBuilder::MAX_NUM_BITS;
    let r = catch(|| {
        let m = BloomFilterBuilder::suggest_num_bits(n, p);
        (m, BloomFilterBuilder::suggest_num_hashes_from_accuracy(n, m), BloomFilterBuilder::suggest_num_hashes_from_fpp(p))
    });
    let (m, k_acc, k_fpp) = match r {
        Ok(v) => v,
        Err(pi) => return vec![(format!("panic|{}", pi.site_key()), format!("suggest_* panicked for n={n} p={p}: {}", pi.message))],
    };
    // m = ceil(n * ln(1/p) / ln(2)^2), clamped to [1, MAX_NUM_BITS]
    let (mc, exact) = ceil_with_slack(n as f64 * (1.0 / p).ln() / (ln2 * ln2));
    let clamp = |v: f64| -> u64 { (v.max(1.0) as u64).min(max_bits) };
    let ok = m == clamp(mc) || (!exact && (m == clamp(mc - 1.0) || m == clamp(mc + 1.0)));
    if !ok {
        out.push(("bloom.suggest_num_bits".into(), format!("suggest_num_bits({n}, {p}) = {m}, textbook ceil(n ln(1/p) / ln(2)^2) clamped to [1, MAX_NUM_BITS] = {}", clamp(mc))));
    }
    // k = ceil(m/n * ln 2) clamped to [1, 32767]
    let (kc, exact) = ceil_with_slack(m as f64 * ln2 / n as f64);
    let clampk = |v: f64| -> u16 { v.clamp(1.0, 32767.0) as u16 };
    let ok = k_acc == clampk(kc) || (!exact && (k_acc == clampk(kc - 1.0) || k_acc == clampk(kc + 1.0)));
    if !ok {
        out.push(("bloom.suggest_num_hashes".into(), format!("suggest_num_hashes_from_accuracy({n}, {m}) = {k_acc}, textbook ceil(m/n ln 2) = {}", clampk(kc))));
    }
    // k = ceil(-log2 p) = ceil(ln(1/p)/ln 2)
    let (kc, exact) = ceil_with_slack((1.0 / p).ln() / ln2);
    let ok = k_fpp == clampk(kc) || (!exact && (k_fpp == clampk(kc - 1.0) || k_fpp == clampk(kc + 1.0)));
    if !ok {
        out.push(("bloom.suggest_num_hashes".into(), format!("suggest_num_hashes_from_fpp({p}) = {k_fpp}, textbook ceil(-log2 p) = {}", clampk(kc))));
    }
    // with_accuracy uses exactly these (only where the filter is small enough to allocate)
    if m <= 1 << 26 {
        match catch(|| BloomFilterBuilder::with_accuracy(n, p).build()) {
            Err(pi) => out.push((format!("panic|{}", pi.site_key()), format!("with_accuracy({n}, {p}).build() panicked: {}", pi.message))),
            Ok(f) => {
                if f.capacity() as u64 != m.div_ceil(64) * 64 || f.num_hashes() != k_acc || !f.is_empty() || f.seed() != 9001 {
                    out.push(("bloom.with_accuracy".into(), format!("with_accuracy({n}, {p}) built capacity {} / {} hashes / seed {}; expected {} bits rounded up to words, {k_acc} hashes, seed 9001", f.capacity(), f.num_hashes(), f.seed(), m)));
                }
            }
        }
    }
    out
}

fn fpp_point(n: u64, p: f64) -> (Vec<(String, String)>, Value) {
    let mut out = vec![];
    let r = catch(|| {
        let mut f = BloomFilterBuilder::with_accuracy(n, p).build();
        for x in 0..n {
            f.insert(x);
        }
        let missing = (0..n).filter(|x| !f.contains(x)).count() as u64;
        let fp = (n..n + 200_000).filter(|x| f.contains(x)).count() as u64;
        (missing, fp, f.capacity(), f.num_hashes(), f.bits_used())
    });
    match r {
        Err(pi) => {
            out.push((format!("panic|{}", pi.site_key()), format!("fpp stream panicked: {}", pi.message)));
            (out, json!(null))
        }
        Ok((missing, fp, cap, k, used)) => {
            let rate = fp as f64 / 200_000.0;
            if missing > 0 {
                out.push(("bloom.false_negative".into(), format!("with_accuracy({n}, {p}): {missing} of the {n} inserted items are not contained")));
            }
            if rate > 2.0 * p {
                out.push(("bloom.fpp_high".into(), format!("with_accuracy({n}, {p}) (capacity {cap}, {k} hashes) loaded with {n} items: {fp}/200000 never-inserted items are reported contained, rate {rate:.5} > 2p = {}", 2.0 * p)));
            }
            if rate < p / 10.0 {
                out.push(("bloom.fpp_low".into(), format!("with_accuracy({n}, {p}) (capacity {cap}, {k} hashes) loaded with {n} items: observed rate {rate:.6} < p/10 (the filter is far larger than requested)")));
            }
            (out, json!({"n": n, "p": p, "capacity": cap, "num_hashes": k, "bits_used": used, "false_positives_of_200000": fp, "observed_rate": rate}))
        }
    }
}

pub const NS: [u64; 11] = [1, 2, 10, 100, 1_000, 10_000, 100_000, 1_000_000, 10_000_000, 100_000_000, 1_000_000_000];
pub const PS: [f64; 11] = [1e-9, 1e-8, 1e-7, 1e-6, 1e-5, 1e-4, 1e-3, 1e-2, 1e-1, 0.5, 1.0];
pub const FPP_POINTS: [(u64, f64); 3] = [(100, 0.1), (1000, 0.01), (10000, 0.001)];

fn e3(ctx: &Ctx) {
    let mut evals = 0u64;
    for n in NS {
        for p in PS {
            evals += 3;
            for (k, w) in builder_point(n, p) {
                ctx.violation(&k, &w, json!({"kind": "bloom_builder", "n": n, "p": p}));
            }
        }
    }
    ctx.count("E3 builder function evaluations (suggest_num_bits, suggest_num_hashes_from_accuracy, suggest_num_hashes_from_fpp over n x p)", evals);
    ctx.edge("E3 builder functions compared with the textbook formulas on the complete n x p grid");
    let res: Vec<_> = FPP_POINTS.par_iter().map(|&(n, p)| (n, p, fpp_point(n, p))).collect();
    for (n, p, (vs, obs)) in res {
        for (k, w) in vs {
            ctx.violation(&k, &w, json!({"kind": "bloom_fpp", "n": n, "p": p}));
        }
        ctx.sample(json!({"E3 false-positive-rate clause": obs}));
        ctx.count("E3 fpp: membership queries of never-inserted items (complete domain n..n+200000)", 200_000);
        ctx.add_transitions(200_000 + 2 * n);
    }
    ctx.edge("E3 false-positive-rate clause evaluated on the complete disjoint query domain");
}

pub fn replay_e3(case: &Value) -> String {
    let n = case["n"].as_u64().unwrap();
    let p = case["p"].as_f64().unwrap();
    let vs = if case["kind"] == "bloom_fpp" { fpp_point(n, p).0 } else { builder_point(n, p) };
    let mut log = String::new();
    for (k, w) in vs {
        log.push_str(&format!("VIOLATES {k}: {w}\n"));
    }
    log.push_str(&format!("evaluated {} for n={n} p={p}\n", case["kind"]));
    log
}

pub fn run(ctx: &Ctx) -> i32 {
    if let Err(e) = crate::refhash::self_test() {
        eprintln!("machinery error: reference hash self-test failed: {e}");
        return 2;
    }
    explore(ctx, &no_observer);
    e3(ctx);
    {
        let rec = bloomm::pool_recipes();
        let lay = Layout::new(65, 3, 9001);
        let d = catch(|| bloomm::describe(&lay, &rec, &[Op::Insert(0), Op::ContainsInsert(5), Op::Union(1), Op::Intersect(2), Op::RoundTrip, Op::Invert])).unwrap_or(json!("sample run failed (see violations)"));
        ctx.sample(json!({"E1 path (65 bits requested -> 128-bit capacity, 3 hashes)": d}));
        let lay = Layout::new(1, 16, u64::MAX);
        let d = catch(|| bloomm::describe(&lay, &rec, &[Op::ContainsInsert(9), Op::Insert(4), Op::Intersect(3), Op::RoundTrip, Op::Invert, Op::ContainsInsert(0)])).unwrap_or(json!("sample run failed (see violations)"));
        ctx.sample(json!({"E1 path (1 bit requested -> 64-bit capacity, 16 hashes, seed u64::MAX)": d}));
    }
    {
        let e = ctx.edges.lock().unwrap();
        let mut need = vec![
            "insert hits a bit that is already set",
            "contains_and_insert returns true for a previously inserted item",
            "contains_and_insert returns false",
            "probe lands on bit 0 or 63",
            "probe lands at or beyond the requested num_bits",
            "union(non-empty into non-empty)",
            "intersect leaves an empty filter",
            "intersect with an item inserted into both operands",
            "invert",
            "invert of an empty filter",
            "reset of a non-empty filter",
            "serialize->deserialize of an empty filter",
            "serialize->deserialize of a non-empty filter",
            "state with a false positive",
            "E3 builder functions",
            "E3 false-positive-rate clause",
        ];
        if std::env::var("VERIF_ONLY").is_ok() {
            need.clear();
        }
        let missing: Vec<&str> = need.iter().copied().filter(|n| !e.keys().any(|k| k.starts_with(n))).collect();
        if !missing.is_empty() {
            eprintln!("machinery error: exploration is vacuous, edges not covered: {:?}", missing);
            if ctx.num_violations() == 0 {
                return 2;
            }
        }
    }
    let js = jobs(ctx.tier);
    let mut depth_hist = std::collections::BTreeMap::new();
    for j in &js {
        *depth_hist.entry(format!("depth {}", j.depth)).or_insert(0u64) += 1;
    }
    let cov = json!({
        "exhaustive": true,
        "bounds": {
            "configurations": match ctx.tier {
                Tier::Quick => "quick: COMPLETE product 12 sizes {1,2,63,64,65,100,127,128,129,1000,4096,65536} x num_hashes 1..=16 x seeds {9001,0,u64::MAX} = 576 configurations, depth 4",
                Tier::Thorough => "thorough: the same complete product (576 configurations) to depth 6 for sizes <= 4096 and depth 5 for 65536 bits; sizes {1,65} x num_hashes {1,3} at seed 9001 to depth 7",
            },
            "configurations_by_depth": depth_hist,
            "alphabet": "insert(x) and contains_and_insert(x) for 12 items (i in 0..4 as u64, \"item-i\" as &str, [i; i+1] as byte slice); union(pool[j]) and intersect(pool[j]) for a pool of 4 compatible filters with inserted sets {u64 0} | {u64 1, \"item-0\", [0]} | all 12 | {} ; invert; reset; serialize->deserialize (35 ops)",
            "query_domain": "contains(x) for the 12 alphabet items and 52 never-inserted items of all three kinds, once per distinct state",
            "merge_key": "real bit array + num_bits_set decoded from serialize() + obligation set (bits and count are the entire mutable state)",
            "E3": "suggest_num_bits / suggest_num_hashes_from_accuracy / suggest_num_hashes_from_fpp / with_accuracy on n in {1,2,10,..,10^9} x p in {1e-9..1e-1,0.5,1.0}; FPP clause on (100,0.1),(1000,0.01),(10000,0.001) with the complete 200000-item disjoint query domain",
        },
    });
    ctx.finish(
        cov,
        vec![
            "reference positions come from my transcription of XXH64 (self-tested on every run) applied to the bytes the item's Hash impl writes (recorded with a Hasher that only records); modulus = capacity() as the property states".into(),
            "the real bit array and num_bits_set are read from serialize(); contains() is additionally compared with the reference array for 64 items per distinct state, which ties the in-memory array to the image".into(),
            "obligations are cleared by invert and reset (the property promises nothing after them) and intersected on intersect".into(),
            "the FPP clause is the deterministic consequence for three fixed streams (u64 items 0..n, default seed), not the probabilistic guarantee itself".into(),
        ],
    )
}
