#!/usr/bin/env python3
"""Generates /verif/MANIFEST.json from the table below (single source of truth)."""
import json, os
ROOT = "/verif"
BASELINE_OFF = ("cd /repo && (cargo nextest run --workspace --no-fail-fast --test-threads 8 --offline "
                "|| cargo test --workspace --no-fail-fast --offline)")
CHECKS = {
 "C16": dict(
   technique="explicit-state exploration of the Hasher::write automaton (all chunkings via state merging) + exhaustive composition enumeration + finite-domain enumeration of derived quantities, against reference hashes",
   text="Every reachable state of the write automaton for inputs of length 0..=200 (x4 seeds x3 contents) is visited and every (state, next-chunk-length) transition is executed on the real hashers and compared with the canonical state and the reference one-shot digest; all 2^(n-1) chunkings for n<=16 are additionally fed as real write sequences. Derived quantities (HLL coupon, theta hash, CPC row/col, Count-Min bucket, Bloom positions, seed hash) are compared with reference derivations over a fixed item domain.",
   note="Trusts my transcription of MurmurHash3_x64_128 / XXH64 (self-tested against published vectors each run). Contents are three fixed byte patterns; lengths > 200 only in the thorough tier.",
   design="3/C16"),
 "C02": dict(
   technique="explicit-state BFS over coupon subsets with arrival merging + stateless all-orders DFS + deviation-bounded enumeration on full-promotion runs, on three real sketches in lock-step against a per-slot-max reference",
   text="Every subset (all arrival orders merged and cross-compared) of 12-14 adversarial coupons is applied to real Hll4/Hll6/Hll8 sketches from up to 7 start states per scope (lg_k 4,7,8,9), every ordered sequence to depth 4-6 without merging, and every single (lg_k 4: double) deviation on three default runs per lg_k (4..10 quick, ..21 thorough); exception-subset family: every subset of 4..=6 of the 16 slots at lg_k 4 and every 4-subset at lg_k 5 (thorough: <=9, <=5, 4 at lg_k 6), two orders, cur_min 0/1: made exceptions, raised again, cur_min shifted with the aux map live, raised again; after every step the hook dump must equal the reference (coupon set / per-slot maximum, Array4 cur_min/num_at_cur_min/aux bookkeeping, exact kxq), duplicates must be no-ops and the three types must report bit-identical estimates and bounds.",
   note="Coupons are injected through the add-only hook (values 1..=63); C16 ties items to coupons. Alphabets and default runs are fixed and listed in the evidence; large lg_k only as default runs.",
   design="3/C02"),
 "C05": dict(
   technique="deviation-bounded exhaustive enumeration over complete sketch lives (all pairs, window offsets 0..56) + explicit-state BFS around every flavor change/window move, real sketch vs bit-matrix reference",
   text="Four crafted default orders of ALL k*64 pairs (up to the cap just below a 57th window move) and one hashed-items order (96*k items through the reference hash) are run on the real sketch with every single deviation (pairs at the window edges, early zone, late zone, col 63, duplicates) inserted at every listed position, plus the delayed-pair family (every grid pair moved later by k, 4k, 16k positions or to the end) (lg_k=4: every 8th/1st position quick/thorough, double deviations on a grid; lg_k 5..8 quick, ..12 + spot 21/26 thorough), and a BFS to depth 4-5 over 12 window-straddling pairs starts from every prefix within 3 coupons of a flavor change or window move. After every step: num_coupons==popcount, hook matrix==model, validate(), offset/flavor from thresholds, columns below first_interesting_column all ones, kxp==exact unset-probability mass, hip==sum k/kxp, duplicates are no-ops.",
   note="Pairs are injected through the add-only hook; model precondition: no new pair at C=ceil(59.375K)-1. kxp/hip are compared with exact 128-bit arithmetic within an f64-rounding error bound.",
   design="3/C05"),
 "C04": dict(
   technique="deviation-bounded exhaustive enumeration on 4k-offer runs + explicit-state BFS from pre-resize/pre-rebuild states, real sketch vs offered-hash-set reference (KMV oracle in every state)",
   text="For every configuration (lg_k 5..8 x 4 resize factors x p in {1,0.5,2^-10} x seeds) five default runs of 4k offers (ascending, descending, alternating, two classes of hashes colliding in the whole probe sequence for every table size, public update of items against the reference hash) are executed on the real sketch with every single deviation {theta-1, theta, 1, duplicate min/max, max+1, trim, reset} at grid positions (double deviations at lg_k 5,6), plus a BFS (depth 4-6) over 13 ops from the empty state and the states just before each resize/rebuild. In every state: iter()=={offered h: 0<h<theta}, no duplicates, theta non-increasing/an offered hash/below initial only after >k hashes, rebuild and trim leave exactly k, estimate==retained/theta (== distinct count in exact mode), is_empty iff never updated, compact(true|false) same entries/emptiness/estimate/theta, <=15/16*2k retained.",
   note="Hashes are offered through the add-only hook (screened like update); one default run per configuration uses the public update with the reference MurmurHash as the model. BFS merges on (retained set, theta, table size) irrespective of table layout.",
   design="3/C04"),
 "C03": dict(
   technique="exhaustive depth-2 (thorough: depth-3) product over a 175-member sketch pool x lg_max_k + explicit-state BFS (merged by reference content, arrivals compared) on the real HllUnion against a folded register-wise-max reference",
   text="Pool: lg_k {4,5,8,10,12} x {Hll4,Hll6,Hll8} x {empty, list, set, largest set the lg_k allows, dense array, array with exceptions (63/31/32/aux)} x {fresh, serialize round trip, out-of-order via a previous union, out-of-order via a foreign (spec-encoded) image}. Every ordered pair (thorough: every ordered triple, ~250M union steps) of pool members is fed to a real HllUnion for every lg_max_k in {4,7,8,10,12,21}; a BFS to depth 5 (7 thorough) over one member per (gadget mode x source mode x lg relation) cell plus update_value x3 and reset explores orders and repetitions. After every step: lg_config_k == min(lg_max_k, array inputs), to_sketch(Hll4|6|8) content == folded register-wise max / coupon union, converted sketches internally consistent, estimate and six bounds bit-identical across the three requested types and equal to the union's own accessors, estimate > 0 for non-empty inputs, bounds ordered; merged arrivals must have identical content.",
   note="Pool contents are built through the coupon hook so the reference knows them exactly; thorough adds lg_k 6,7,9,14.",
   design="3/C03"),
 "C06": dict(
   technique="exhaustive depth-2 product over a sketch pool x union lg_k + explicit-state BFS (merged by reference matrix, arrivals compared) on the real CpcUnion against an OR-of-folded-matrices reference",
   text="Pool: lg_k {4,5,6,8} x {Empty, Sparse(1), Sparse(max), Hybrid, Pinned, Sliding offset 1/9/40} x up to 4 pair orders (column-major, diagonal, high-columns-first, row-major) x {fresh, serialize round trip, previous union result}. Zero inputs, every single member and every ordered pair are fed to a real CpcUnion for every union lg_k in {4,5,6,8,10}, plus a BFS to depth 5 (7 thorough) over a reduced pool of 10 spanning every flavor and lg relation. After every step to_sketch() is taken: union lg_k == min, num_coupons == popcount(OR of folded reference matrices), result matrix == that OR, validate(), window offset / flavor / first_interesting_column consistent, merged flag set, image has no HIP section and deserializes to the same matrix and estimate; merged arrivals (orders, repetitions) must give identical results.",
   note="Pool members are built through the row/col hook from known pair lists; thorough adds lg_k 7,10,12 and union lg_k 12,14.",
   design="3/C06"),
 "C11": dict(
   technique="observer on the explicit-state / deviation-bounded family explorers: round trip, query equality, byte-identical re-serialization and one-step bisimulation (updates + merges) at every visited state; exhaustive compact-theta entry-set enumeration",
   text="At every state visited by the (reduced-bound) C02/C03/C04/C05/C06 explorations the real deserialize(serialize(s)) must succeed, answer every query bit-identically, hold the same in-memory content (hook dump), re-serialize byte-identically, stay identical after each op of a continuation alphabet (one-step bisimulation at every node of a graph closed under the alphabet) and give identical union results; CpcWrapper must agree with full deserialization. Compact theta: all entry sets with delta width 1..=63 x lengths {0..=40,248..=264,4095..4097} x 12 delta patterns x exact/estimating x ordered/unordered through serialize (v3) and serialize_compressed (v4).",
   note="Families covered are listed in the evidence notes (HLL, Theta, CPC, plus the hook-less families as their explorers are merged). HIP accumulators of in-order union gadgets fed from coupon tables are not compared (legitimately order dependent).",
   design="3/C11"),
 "C12": dict(
   technique="observer on the family explorers: an independent decoder written from the cross-language layout must recover the hook dump / reference state from serialize() at every visited state",
   text="At every state visited by the (reduced-bound) explorations the emitted image is decoded by the harness's own spec decoder (never the library's deserialize) and compared field by field with the in-memory state read through the hooks and with the reference model: HLL (preamble, flags, coupons, nibble/6-bit/byte registers, cur_min, aux area by compact flag, hip/kxq, size formulas), compact Theta v3/v4 (preLongs by case, flags, seed hash, theta, entries, MSB-first delta bit stream, sizes), CPC (preInts by flag combination, field order incl. both HIP positions, stream lengths, flags vs flavor, numSv, kxp/hip, and the compressed payload through an independent decompressor -> bit matrix == model).",
   note="Trusted base: my transcription of the Java/C++ layouts (DESIGN Appendix A). CPC compressed payload is decoded by the harness's own decompressor; only the code tables are taken from the library (hook) and checked for self-consistency.",
   design="3/C12"),
 "C13": dict(
   technique="finite-domain enumeration of format variants x abstract states through an independent spec encoder, real deserialize + state/behaviour comparison",
   text="The complete product of the format variants Java/C++ writers use and a family of small abstract states is encoded by the harness's own encoder and fed to the real readers (~54k images quick): HLL lg_k {4,5,8,10} x 3 types x {list of every length 0..7, set of every size 8..24/25..48, arrays: 5 base patterns x 16 exception subsets x 4 exception values} x compact/updatable coupon tables and aux tables (two table sizes) x compact flag in array mode x out-of-order flag x extra flag bits; Theta serial versions 1-4 x {empty, single, exact, estimating} x ordered/unordered x single-item flag x seeds (+ wrong seed rejected); serial version 4 for EVERY delta bit width 1..=63 x entry counts 1..=17,24,25,255..257 (thorough: ..33, 63..65, 65535..65537) x 3 placements of the widest delta x 2 fill patterns x exact/estimating; Bloom exact/dirty counts; Count-Min u64/i64 readers; Frequent Items i64/String x preLongs high bits x empty-flag variants; CPC uncompressed flag rejected. Oracle: Ok, hook dump / accessors equal the encoded state, estimates as the state requires (HIP value in order, composite when out of order), further updates and unions behave as the registers require, re-serialization decodes to the same state.",
   note="Encoders are my transcription of the Java/C++ writers (DESIGN Appendix A). t-digest float/double/reference encodings are attached with the t-digest codec (see evidence counters), including heavy first/last-centroid lists on a 65-point grid. Thorough adds HLL lg_k 6,7,9,11,12,13,16,21 and set tables up to the promotion size.",
   design="3/C13"),
 "C08": dict(
   technique="finite-domain enumeration of the configuration product x explicit-state BFS (key = table bytes + total + truths) on the real CountMinSketch<T> against an exact model table",
   text="For every configuration of a Latin-square cover (quick: 128; thorough: the complete 2304 = hashes 1..8 x buckets {3,4,5,7,8,16,17,64,512} x 4 seeds x 8 counter types) a BFS to depth 4 (5-6 on subsets) over update_with_weight(i,w) for 6 colliding items x w in {1,2,T::MAX/4} (overflowing ops refused by the model), merge(pool[j]), halve, decay(0.5|1.0|0.999). In every state the table parsed from serialize() equals the model table computed with the reference MurmurHash (row seed = murmur(le64(r),seed).h1, bucket = h1 % buckets), total_weight == sum |w|, truth <= estimate == min of the item's model counters <= total for all 256 items of the query domain, lower_bound == estimate, upper_bound == estimate + floor(e/buckets*total) (saturating), merge == element-wise sum, halve/decay keep estimate >= the integer-scaled truth; plus the deterministic confidence clause over the entire 4096-item query domain for 432 (type,hashes,buckets,seed) points.",
   note="The probabilistic confidence clause is decided only as a complete count over a fixed finite stream/query domain (necessary condition).",
   design="3/C08"),
 "C09": dict(
   technique="finite-domain enumeration of the configuration product x explicit-state BFS (key = bit array + obligation set) on the real BloomFilter against a reference bit model",
   text="For the complete product 12 sizes {1,2,63,64,65,100,127,128,129,1000,4096,65536} x num_hashes 1..16 x seeds {9001,0,u64::MAX} (576 configurations) a BFS to depth 4 (6-7 thorough) over insert / contains_and_insert of 4 items of three kinds (u64, &str, byte slice) plus the item-shape enumeration (strings and slices of every length 0..=70, tuples, 128-bit integers: every write pattern of the hasher), union/intersect with a pool of 4 filters, invert, reset, serialize->deserialize. In every state the bit array parsed from serialize() equals the reference model (positions ((h0+i*h1)>>1) mod capacity with reference XXH64), bits_used == popcount, every obligated item is contained (direct inserts, either union operand, both intersect operands), contains_and_insert returns the previous contains, is_empty iff no bit set; builder formulas over a grid and the deterministic FPP clause (complete disjoint query domain of 200000 items for 3 (n,p) points).",
   note="The FPP clause is decided only as a complete count over a fixed finite query domain (necessary condition).",
   design="3/C09"),
 "C17": dict(
   technique="the explicit-state / deviation-bounded family explorers re-run under catch_unwind in two builds (release; chk = debug-assertions + overflow-checks as a child process) + configuration extremes",
   text="Every transition of the reduced-bound C02..C10 explorations (models generate only operations whose documented preconditions hold) is executed with the update, every accessor and the oracle inside catch_unwind, once in the release build and once in the chk build (debug assertions and arithmetic overflow checks on); any panic originating in datasketches is a violation with the op list as replay. Added extremes: HLL lg_k 4 and 21 x 3 types through every promotion with an Hll4 cur_min shift while the aux map is populated; CPC lg_k 4 (whole life, crafted pairs), 21 and 22 (hashed items through Sparse/Hybrid/Pinned, serialize+deserialize at each flavor change; thorough adds 12, 23, 26); the hook-less families at their minimum configurations.",
   note="Panics provoked by violating a documented precondition are excluded by construction of the models (coupon values 1..=63, CPC coupon cap, counter totals within range).",
   design="3/C17"),
 "C18": dict(
   technique="size-formula observer on the family explorers (every visited state) + exhaustive measurement grid along long hashed streams",
   text="In every state of the reduced-bound C02/C03 (every union result in all three target types)/C04/C07/C08/C09 explorations the image length must equal the formula its mode and configuration dictate (HLL 8+4c / 12+4c / 40+{k/2,3k/4+1,k}+4*aux with c and aux from the hook dump, list mode <= 7 coupons and set mode <= 3/4*2^(lg_k-3) coupons (the promotion sizes); theta <= 15/16*2k retained, image = 8*(preLongs+n), v4 <= v3; Bloom and Count-Min fixed by configuration; Frequent Items num_active <= maximum_map_capacity, also for requested sizes 1,2,4 which the constructor clamps to 8). Long runs: 4 hashed streams (distinct, 16 repeated, ascending theta hash, ascending HLL value) of 2^18 (2^22) items through the public update, HLL lg_k {4,8,12,(21)} x 3 types and theta lg_k {5,8,12} (incl. trim <= k) measured at every power-of-two prefix; CPC lg_k 4..12(14) x 4 seeds at every 1/8-octave prefix: exceedances of max_serialized_bytes are counted and must stay <= 0.1%.",
   note="The CPC clause is probabilistic: decided only as a complete count over the stated hashed-stream grid. t-digest size is C15.",
   design="3/C18"),
 "C01": dict(
   technique="ordering/nesting/exactness observer on the family explorers + finite-domain enumeration of the estimators' argument spaces + exhaustive one-step expectation (HIP martingale identity) over ALL next coupons",
   text="(1) lb3<=lb2<=lb1<=est<=ub1<=ub2<=ub3, finite, non-negative, exact-mode theta exact, coverage not collapsing after screened updates, non-empty union estimate > 0, estimates and bounds independent of the HLL target type (streamed and union results): in every state of the reduced-bound C02..C06 explorations. (2) Whole argument spaces: HLL coupon estimator for every length up to the set capacity; HLL relative-error table lg_k 4..=21 x HIP/non-HIP x lb/ub x 3 std devs (sign, monotone in std devs, HIP < non-HIP, smooth ~1/sqrt(2) per lg_k); HLL composite estimator for ALL multisets of 16 registers (lg_k=4) over a value set; CPC ICON lg_k 4..=26 x every C (small k) / dense grid: est >= C, monotone in C, bounds nested, agreement with the estimator's DEFINITION (bisection of E[C|N]=C) within a per-lg_k tolerance; ICON/HIP confidence tables; theta binomial bounds on a (num_retained x theta) grid. (3) HIP unbiasedness of HLL and CPC as the identity sum_over_all_next_coupons p*(estimate'-estimate) == 1, evaluated with every possible next coupon (k x 63 values / k x 64 columns) in states along the default runs.",
   note="NOT decided (different family - needs sampling): bias of the composite/ICON/coupon/theta estimators over random item sets, consistency of the spread with the advertised RSE, and the 68/95/99.7% coverage rates. The martingale identity gives exact unbiasedness of the HIP estimators for every cardinality reachable from the checked states.",
   design="3/C01, 4"),
 "C07": dict(
   technique="stateless exhaustive DFS of all op sequences (no state merging: purge depends on table layout) + deviation-bounded enumeration + exhaustive merge trees on the real FrequentItemsSketch against an exact frequency map",
   text="Map size 8: ALL sequences of <= 8 unit updates over 8 items (two alphabets whose items are brute-forced to share home slots and wrap the table end) and <= 5 ops over a 13-op weighted alphabet, from the empty state and 9 non-initial states; sizes 8..1024 (2048 thorough): six default runs with every single (size 8: double) deviation {update, merge(pool[j]), reset, serialize round trip}; all ordered merge trees of 2 and 3 leaves over a pool of 14 sketches and left-deep chains of 4-5; the weight lattice: every heavy/light weight assignment over a full map plus the purging item at sizes 16/32/64. In every state, for every item of the domain plus never-offered items: lb <= truth <= ub, ub-lb <= maximum_error, estimate in {0} U [lb,ub], total_weight exact, maximum_error <= epsilon*total for single-size histories, NoFalsePositives subset / NoFalseNegatives superset of the true heavy hitters, rows sorted, num_active <= capacity; String items on a smaller scope.",
   note="An independent table-layout model (validated against serialize() key order at every purge/resize) is used only to name edges (purge-to-empty, back-shift across the array end, ...), not as an oracle.",
   design="3/C07"),
 "C10": dict(
   technique="finite-domain enumeration of crafted digests (all small centroid lists x 4 encodings through deserialize) + stateless DFS of all macro-op sequences on the real TDigestMut/TDigest, oracle admissibility-checked against reference formulas",
   text="Crafted: every centroid list with 1..4 centroids, weights {1,2,3,8}, means from {0,1,2,3}, min/max at or beyond the end means, k {10,100}, 4 encodings, reverse flag (~500k images incl. heavy end centroids the in-process algorithm never produces). In-process: k {10,11,29,30,100,200,500}, all sequences to depth 2-3 (4 thorough) over 48 macro-ops (7 batch shapes x 6 sizes around the buffer capacity, merge(pool), freeze/unfreeze, serialize round trip). On dense q and v grids: rank in [0,1] non-decreasing, 0 below min, 1 above max; quantile in [min,max] non-decreasing, quantile(0)=min, quantile(1)=max; cdf/pmf consistent with rank incl. the empty split-point list; rank(quantile(q)) within the digest's resolution; total_weight / min / max exact; both TDigestMut and TDigest.",
   note="Each oracle clause is first evaluated against a port of the reference rank/quantile formulas on the same space; clauses the reference itself fails on some digests are suspended there (counts in the evidence notes).",
   design="3/C10"),
 "C15": dict(
   technique="deviation-bounded enumeration over stream shapes x every length across buffer boundaries + exhaustive merge trees on the real t-digest against the sorted exact data",
   text="k {10,20,29,30,50,100,200,500} x 8 stream shapes (sorted, reversed, sawtooth, constant, heavy duplicates, far clusters, geometric magnitudes, alternating extremes), observed at every length <= 4*capacity+2, every buffer boundary +-1 and every power of two up to 2^16 (2^20), with every single deviation {merge(pool), freeze/unfreeze, serialize round trip, duplicate of min/max} on a position grid; left-deep and balanced merge trees over 16 digests and all binary trees with <= 4 leaves over a pool of 6; mixed-k merges: 6 receiver preparations x 9 donor k x 4 donor streams x 3 donor preparations, observed right after the merge and after 10 more updates. At each observation (centroids read from serialize() by the harness's own decoder): centroid count <= 2k+30 and <= the derived capacity, image size bounded by k, weights sum to total_weight == number of finite values, means sorted within [min,max], min/max exact, k2 centroid-size limit, weighted mean sum, |rank(v) - true_rank(v)| within the k-scale bound on the v grid and exact-to-one-sample at the extremes.",
   note="The rank-error constant is validated by the same admissibility check as C10; on the geometric-magnitudes stream the bound is raised per grid point to 1.05x the reference's own error (recorded in the evidence notes).",
   design="3/C15"),
 "C14": dict(
   technique="fault enumeration: complete mutation operators around seed images of every family/variant, each case in a worker subprocess under an allocation guard and a watchdog",
   text="~400k (quick; ~8M thorough) distinct (entry point, byte string) cases over all 16 deserialize entry points (+CpcWrapper::new): per seed image (82 seeds quick: every family x variant x mode, own serializer and spec encoder) every truncation, extension by 1..8 bytes, every single-bit flip in the first 64 bytes, 5 byte values at every offset, every named field x boundary values (0,1,2,3,max,max-1,max/2,max/2+1,cur+-1, every power of two, float specials), pairs of named-field mutations, record duplication (each of the last eight 4-byte / four 8-byte records := another one, exact and with every single bit flipped), every seed unmodified into every foreign entry point, all inputs of length <= 1 (<= 2 thorough) and valid-header short strings. Verdict must be Ok or Err: never a panic, abort, hang (3 s) or a single allocation above max(8 MiB, 64 x input length); every Ok value is then queried, re-serialized and re-deserialized, merged with a clone and with partners of other lg_k / k / map size in both orders, and driven with enough distinct updates for promotions and cur_min shifts (HLL), window moves (CPC), map growth and purges (Frequent Items), buffer flushes in both directions (t-digest), all under catch_unwind. Thorough adds every byte value at each of the first 48 bytes, bit flips at every offset, field value x every truncation, richer pair values and 24/12 trailing records.",
   note="Complete for the stated operators and seeds only. Two known findings (configuration-only EMPTY Bloom / Count-Min images allocate the configured table) are listed in known_findings.json.",
   design="3/C14"),
}
NOT_BUILT = "check not built yet in this session (planned in DESIGN.md section 3); not claimed until it exists"
def main():
    props = [json.loads(l)["id"] for l in open(f"{ROOT}/properties.jsonl")]
    checks = []
    for pid in props:
        if pid not in CHECKS: continue
        c = CHECKS[pid]
        checks.append(dict(
            property_id=pid,
            quick_cmd=f"bin/check {pid} --tier quick",
            thorough_cmd=f"bin/check {pid} --tier thorough",
            evidence_file=f"/verif/evidence/{pid}.json",
            replay_cmd_template="bin/check replay {path}",
            engine="mcx",
            level_claimed=dict(category="model_checking", text=c["text"], design_ref=c["design"]),
            level_note=c["note"],
            technique=c["technique"],
        ))
    na = [dict(property_id=p, reason=NA.get(p, NOT_BUILT)) for p in props if p not in CHECKS]
    hooks_commits = [l.strip() for l in open(f"{ROOT}/hooks_commits.txt")] if os.path.exists(f"{ROOT}/hooks_commits.txt") else []
    m = dict(
        version=1,
        setup_cmd="cd /verif/mc && CARGO_NET_OFFLINE=true cargo build --release --offline && CARGO_NET_OFFLINE=true cargo build --profile chk --offline",
        hooks=dict(guard="cargo feature verif-hooks (datasketches/Cargo.toml)",
                   enable="the harness crate /verif/mc depends on datasketches = { path = \"/repo/datasketches\", features = [\"verif-hooks\"] }",
                   baseline_off_cmd=BASELINE_OFF,
                   source_commits=hooks_commits,
                   add_only=True),
        engines=[dict(name="mcx", path="/verif/mc", serves_properties=sorted(CHECKS.keys()),
                      kind_free_text="Rust harness: explicit-state graph explorer (E1), deviation-bounded run enumerator (E2), finite-domain enumerator (E3), byte-image fault enumerator in worker subprocesses (E4); all drive the real library code")],
        checks=checks,
        not_applicable=na,
        notes="See DESIGN.md. Known findings: /verif/known_findings.json. Seeded breaking changes: /verif/seeded/.",
    )
    json.dump(m, open(f"{ROOT}/MANIFEST.json", "w"), indent=1)
    print(f"wrote MANIFEST.json: {len(checks)} checks, {len(na)} not_applicable")
NA = {}
if __name__ == "__main__":
    main()
