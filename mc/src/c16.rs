//! C16 — hashes are bit-exact MurmurHash3/XXH64 and independent of write chunking.
//!
//! E1 on the `Hasher::write` automaton: state = (bytes consumed, hasher fields with the
//! buffer masked to its fill level). From the canonical state after i bytes, one transition
//! `write(next j bytes)` for every j in 0..=L-i must land on the canonical state for i+j
//! bytes, and `finish` there must equal the one-shot reference digest. Because the fields
//! are the whole state, this covers all 2^(L-1) chunkings with L^2/2 transitions. The
//! merging argument is additionally confirmed by feeding every composition of n <= 12 (18)
//! as real successive writes.

use crate::common::{Ctx, Tier, hex};
use crate::refhash;
use datasketches::verif as hook;
use rayon::prelude::*;
use serde_json::json;
use std::hash::{Hash, Hasher};

fn content(kind: usize, len: usize) -> Vec<u8> {
    match kind {
        0 => (0..len).map(|i| (i as u8).wrapping_mul(7).wrapping_add(1)).collect(),
        1 => vec![0xFF; len],
        _ => {
            // XXH sanity-buffer generator
            let mut g: u64 = 2654435761;
            (0..len)
                .map(|_| {
                    let b = (g >> 56) as u8;
                    g = g.wrapping_mul(11400714785074694797);
                    b
                })
                .collect()
        }
    }
}

pub const SEEDS: [u64; 4] = [0, 9001, u64::MAX, 0x9E3779B97F4A7C15];

/// Records the exact byte sequence an item's `Hash` impl feeds to a hasher.
#[derive(Default)]
pub struct Recorder {
    pub chunks: Vec<Vec<u8>>,
}
impl Hasher for Recorder {
    fn finish(&self) -> u64 {
        0
    }
    fn write(&mut self, bytes: &[u8]) {
        self.chunks.push(bytes.to_vec());
    }
}
pub fn recorded_bytes<T: Hash>(v: &T) -> Vec<u8> {
    let mut r = Recorder::default();
    v.hash(&mut r);
    r.chunks.concat()
}

fn automaton(ctx: &Ctx, algo: &'static str, seed: u64, kind: usize, len: usize) {
    let input = content(kind, len);
    let mut states = 0u64;
    let mut trans = 0u64;
    if algo == "murmur" {
        let canon: Vec<_> = (0..=len).map(|i| hook::murmur_state(seed, &[&input[..i]])).collect();
        for i in 0..=len {
            states += 1;
            let fin = hook::murmur_write_finish(seed, &[&input[..i]]);
            let want = refhash::murmur3_x64_128(&input[..i], seed);
            if fin != want {
                ctx.violation(
                    "murmur.digest",
                    &format!("murmur3 digest of {i} bytes (seed {seed}) = {:x?}, reference {:x?}", fin, want),
                    json!({"algo":"murmur","seed":seed,"input_hex":hex(&input[..i]),"chunks":[i]}),
                );
            }
            for j in 0..=(len - i) {
                trans += 1;
                let st = hook::murmur_state(seed, &[&input[..i], &input[i..i + j]]);
                if st != canon[i + j] {
                    ctx.violation(
                        "murmur.chunking",
                        &format!("murmur3 state after writes [{i},{j}] differs from state after one write of {} bytes (seed {seed})", i + j),
                        json!({"algo":"murmur","seed":seed,"input_hex":hex(&input[..i+j]),"chunks":[i,j]}),
                    );
                }
            }
        }
    } else {
        let canon: Vec<_> = (0..=len).map(|i| hook::xxh64_state(seed, &[&input[..i]])).collect();
        for i in 0..=len {
            states += 1;
            let fin = hook::xxh64_write_finish(seed, &[&input[..i]]);
            let want = refhash::xxh64(&input[..i], seed);
            if fin != want {
                ctx.violation(
                    "xxh64.digest",
                    &format!("xxh64 digest of {i} bytes (seed {seed}) = {:x}, reference {:x}", fin, want),
                    json!({"algo":"xxh64","seed":seed,"input_hex":hex(&input[..i]),"chunks":[i]}),
                );
            }
            for j in 0..=(len - i) {
                trans += 1;
                let st = hook::xxh64_state(seed, &[&input[..i], &input[i..i + j]]);
                if st != canon[i + j] {
                    ctx.violation(
                        "xxh64.chunking",
                        &format!("xxh64 state after writes [{i},{j}] differs from state after one write of {} bytes (seed {seed})", i + j),
                        json!({"algo":"xxh64","seed":seed,"input_hex":hex(&input[..i+j]),"chunks":[i,j]}),
                    );
                }
            }
        }
    }
    ctx.add_states(states);
    ctx.add_transitions(trans);
}

/// Every composition of n as successive real writes (no merging).
fn compositions(ctx: &Ctx, algo: &'static str, seed: u64, n: usize) -> u64 {
    let input = content(2, n);
    let m_want = refhash::murmur3_x64_128(&input, seed);
    let x_want = refhash::xxh64(&input, seed);
    let total: u64 = if n == 0 { 1 } else { 1u64 << (n - 1) };
    (0..total)
        .into_par_iter()
        .map(|mask| {
            // bit b set => cut after byte b+1
            let mut chunks: Vec<&[u8]> = Vec::with_capacity(n);
            let mut start = 0;
            for b in 0..n.saturating_sub(1) {
                if (mask >> b) & 1 == 1 {
                    chunks.push(&input[start..b + 1]);
                    start = b + 1;
                }
            }
            chunks.push(&input[start..]);
            let ok = if algo == "murmur" {
                hook::murmur_write_finish(seed, &chunks) == m_want
            } else {
                hook::xxh64_write_finish(seed, &chunks) == x_want
            };
            if !ok {
                let lens: Vec<usize> = chunks.iter().map(|c| c.len()).collect();
                ctx.violation(
                    &format!("{algo}.chunking"),
                    &format!("{algo} digest of {n} bytes fed as chunks {:?} differs from reference (seed {seed})", lens),
                    json!({"algo":algo,"seed":seed,"input_hex":hex(&input),"chunks":lens}),
                );
            }
            1u64
        })
        .sum()
}

// ---------------------------------------------------------------------------------------
// Derived quantities
// ---------------------------------------------------------------------------------------

fn check_item<T: Hash + Clone + std::fmt::Debug>(ctx: &Ctx, item: &T, label: &str) -> u64 {
    use datasketches::cpc::CpcSketch;
    use datasketches::hll::{HllSketch, HllType};
    use datasketches::theta::ThetaSketch;
    let bytes = recorded_bytes(item);
    let mut n = 0;
    // HLL coupon (seed 9001)
    let (h1, h2) = refhash::murmur3_x64_128(&bytes, 9001);
    let want_coupon = (((h2.leading_zeros().min(62) + 1) as u32) << 26) | (h1 as u32 & 0x3FF_FFFF);
    let mut s = HllSketch::new(12, HllType::Hll8);
    s.update(item.clone());
    let img = s.serialize();
    let got = if img.len() >= 12 { u32::from_le_bytes([img[8], img[9], img[10], img[11]]) } else { 0 };
    n += 1;
    if got != want_coupon || s.verif_state().table[0] != want_coupon {
        ctx.violation(
            "derived.hll_coupon",
            &format!("HLL coupon of {label} {:?} = {:#x}, reference derivation {:#x}", item, got, want_coupon),
            json!({"kind":"hll_coupon","item":format!("{:?}",item),"hashed_bytes":hex(&bytes)}),
        );
    }
    // Theta hash, seeds
    for seed in [9001u64, 0, 7] {
        let (h1, _) = refhash::murmur3_x64_128(&bytes, seed);
        let want = h1 >> 1;
        let mut t = ThetaSketch::builder().lg_k(5).seed(seed).build();
        t.update(item.clone());
        let got: Vec<u64> = t.iter().collect();
        n += 1;
        let expect: Vec<u64> = if want == 0 || want >= i64::MAX as u64 { vec![] } else { vec![want] };
        if got != expect {
            ctx.violation(
                "derived.theta_hash",
                &format!("theta hash of {label} {:?} seed {seed} = {:x?}, reference {:x?}", item, got, expect),
                json!({"kind":"theta_hash","seed":seed,"item":format!("{:?}",item),"hashed_bytes":hex(&bytes)}),
            );
        }
    }
    // CPC row/col
    for (lg_k, seed) in [(4u8, 9001u64), (11, 9001), (11, 123)] {
        let (h1, h2) = refhash::murmur3_x64_128(&bytes, seed);
        let k = 1u64 << lg_k;
        let col = h2.leading_zeros().min(63);
        let row = (h1 & (k - 1)) as usize;
        let mut c = CpcSketch::with_seed(lg_k, seed);
        c.update(item.clone());
        let m = c.verif_bit_matrix();
        n += 1;
        let mut ok = m.len() == k as usize;
        if ok {
            for (r, w) in m.iter().enumerate() {
                let want = if r == row { 1u64 << col } else { 0 };
                // the u32::MAX-avoidance row flip cannot be reached by hashing in practice
                if *w != want {
                    ok = false;
                }
            }
        }
        if !ok {
            ctx.violation(
                "derived.cpc_rowcol",
                &format!("CPC row/col of {label} {:?} (lg_k {lg_k}, seed {seed}) differs from reference (row {row}, col {col})", item),
                json!({"kind":"cpc_rowcol","lg_k":lg_k,"seed":seed,"item":format!("{:?}",item),"hashed_bytes":hex(&bytes)}),
            );
        }
    }
    n += cm_bloom_item(ctx, item, &bytes, label);
    n
}

/// Count-Min bucket per row and Bloom bit positions of one item against the reference.
fn cm_bloom_item<T: Hash + Clone + std::fmt::Debug>(ctx: &Ctx, item: &T, bytes: &[u8], label: &str) -> u64 {
    use datasketches::bloom::BloomFilterBuilder;
    use datasketches::countmin::CountMinSketch;
    let mut n = 0;
    for (hashes, buckets, seed) in [(3u8, 5u32, 9001u64), (4, 64, 0)] {
        let mut cm: CountMinSketch<u64> = CountMinSketch::with_seed(hashes, buckets, seed);
        cm.update(item.clone());
        let img = cm.serialize();
        n += 1;
        let mut ok = img.len() == 24 + 8 * (hashes as usize) * (buckets as usize);
        if ok {
            for r in 0..hashes as usize {
                let (rs, _) = refhash::murmur3_x64_128(&(r as u64).to_le_bytes(), seed);
                let (h1, _) = refhash::murmur3_x64_128(bytes, rs);
                let b = (h1 % buckets as u64) as usize;
                for c in 0..buckets as usize {
                    let off = 24 + 8 * (r * buckets as usize + c);
                    let v = u64::from_le_bytes(img[off..off + 8].try_into().unwrap());
                    if v != (c == b) as u64 {
                        ok = false;
                    }
                }
            }
        }
        if !ok {
            ctx.violation(
                "derived.cm_bucket",
                &format!("Count-Min({hashes}x{buckets}, seed {seed}) table after one update of {label} {:?} differs from the reference bucket derivation", item),
                json!({"kind":"cm_bucket","hashes":hashes,"buckets":buckets,"seed":seed,"item":format!("{:?}",item),"hashed_bytes":hex(bytes)}),
            );
        }
    }
    for (bits, hashes, seed) in [(100u64, 3u16, 9001u64), (64, 7, 0), (1000, 5, u64::MAX)] {
        let mut f = BloomFilterBuilder::with_size(bits, hashes).seed(seed).build();
        f.insert(item.clone());
        let cap = f.capacity() as u64;
        let h0 = refhash::xxh64(bytes, seed);
        let h1 = refhash::xxh64(bytes, h0);
        let mut want = vec![0u64; (cap / 64) as usize];
        for i in 1..=hashes as u64 {
            let p = (h0.wrapping_add(i.wrapping_mul(h1)) >> 1) % cap;
            want[(p / 64) as usize] |= 1 << (p % 64);
        }
        let img = f.serialize();
        n += 1;
        let got: Vec<u64> = img[32..].chunks(8).map(|c| u64::from_le_bytes(c.try_into().unwrap())).collect();
        if got != want || !f.contains(item) {
            ctx.violation(
                "derived.bloom_positions",
                &format!("Bloom({bits} bits, {hashes} hashes, seed {seed}) bit array after one insert of {label} {:?} differs from the reference positions", item),
                json!({"kind":"bloom_positions","bits":bits,"hashes":hashes,"seed":seed,"item":format!("{:?}",item),"hashed_bytes":hex(bytes)}),
            );
        }
    }
    n
}

/// An item that feeds exactly its 16 bytes to the hasher in one write.
#[derive(Clone, Debug)]
struct Raw16([u8; 16]);
impl Hash for Raw16 {
    fn hash<H: std::hash::Hasher>(&self, state: &mut H) {
        state.write(&self.0);
    }
}

/// Digest-boundary enumeration: items are CONSTRUCTED (MurmurHash3 is inverted for one block)
/// so that the 128-bit digest takes every leading-zero count 0..=64 in the word the value /
/// column is derived from, crossed with extreme patterns of the word the slot / row / theta
/// hash is derived from. These digests have probability 2^-40 .. 2^-64 per item, so no
/// ordinary item domain reaches them.
fn digest_boundaries(ctx: &Ctx) -> u64 {
    let mut n = 0;
    let h1_patterns: [u64; 10] = [0, 1, 2, 3, u64::MAX, u64::MAX - 1, 1 << 63, (1 << 63) - 1, 0x3FF_FFFF, 0xFFFF_FFFF_FC00_0000];
    for seed in [9001u64] {
        for lz in 0..=64u32 {
            let h2s: Vec<u64> = if lz == 64 { vec![0] } else { vec![1u64 << (63 - lz), (u64::MAX >> lz)] };
            for h2 in h2s {
                for &h1 in &h1_patterns {
                    let item = Raw16(refhash::murmur3_preimage16(h1, h2, seed));
                    n += check_item(ctx, &item, &format!("constructed digest (h1 {h1:#x}, h2 with {lz} leading zeros)"));
                }
            }
        }
    }
    ctx.count("derived quantities: constructed digests (leading zeros 0..=64 x slot/row/hash patterns)", n);
    n
}

/// Content sweep: EVERY byte string of length <= 2 (thorough: <= 3), and for every length up to
/// 72 every single byte position set to each of 9 values over a zero and an all-ones
/// background, one-shot and split at the position, against the reference digests.
fn content_sweep(ctx: &Ctx) -> u64 {
    let maxlen = ctx.tier.pick(2usize, 3);
    let mut inputs: Vec<Vec<u8>> = vec![vec![]];
    for l in 1..=maxlen {
        let n = 1usize << (8 * l);
        for v in 0..n {
            inputs.push((0..l).map(|i| (v >> (8 * i)) as u8).collect());
        }
    }
    for len in 3..=72usize {
        for bg in [0u8, 0xFF] {
            for pos in 0..len {
                for v in [0u8, 1, 2, 0x7F, 0x80, 0x81, 0xFE, 0xFF, 0x55] {
                    let mut b = vec![bg; len];
                    b[pos] = v;
                    inputs.push(b);
                }
            }
        }
    }
    let n: u64 = inputs
        .par_iter()
        .map(|input| {
            let mut c = 0;
            for seed in [0u64, 9001, u64::MAX] {
                let m = refhash::murmur3_x64_128(input, seed);
                let x = refhash::xxh64(input, seed);
                let split = input.len() / 2;
                for chunks in [vec![&input[..]], vec![&input[..split], &input[split..]]] {
                    c += 2;
                    if hook::murmur_write_finish(seed, &chunks) != m {
                        ctx.violation("murmur.digest", &format!("MurmurHash3 of {} bytes (seed {seed}) differs from the reference", input.len()), json!({"algo":"murmur","seed":seed,"input_hex":hex(input),"chunks":chunks.iter().map(|c| c.len()).collect::<Vec<_>>()}));
                    }
                    if hook::xxh64_write_finish(seed, &chunks) != x {
                        ctx.violation("xxh64.digest", &format!("XXH64 of {} bytes (seed {seed}) differs from the reference", input.len()), json!({"algo":"xxh64","seed":seed,"input_hex":hex(input),"chunks":chunks.iter().map(|c| c.len()).collect::<Vec<_>>()}));
                    }
                }
            }
            c
        })
        .sum();
    ctx.count("content sweep: digests compared (all strings of length <= 2|3, single-byte variations up to length 72)", n);
    n
}

fn derived(ctx: &Ctx) -> u64 {
    let mut n = 0u64;
    let nu = ctx.tier.pick(1024u64, 4096);
    n += (0..nu).into_par_iter().map(|x| check_item(ctx, &x, "u64")).sum::<u64>();
    for x in -8i64..=8 {
        n += check_item(ctx, &x, "i64");
    }
    for x in [0u32, 1, 2, 255, 256, u32::MAX] {
        n += check_item(ctx, &x, "u32");
    }
    for x in [0u8, 1, 127, 255] {
        n += check_item(ctx, &x, "u8");
    }
    let mut strs: Vec<String> = vec!["".into()];
    for a in b'a'..=b'z' {
        strs.push((a as char).to_string());
        strs.push(format!("{0}{0}", a as char));
        strs.push(format!("{0}{0}{0}", a as char));
    }
    strs.push("The quick brown fox jumps over the lazy dog".into());
    strs.push("é漢字🙂".into());
    for s in &strs {
        n += check_item(ctx, &s.as_str(), "&str");
        n += check_item(ctx, s, "String");
    }
    for len in 0..=40usize {
        let v: Vec<u8> = content(0, len);
        n += check_item(ctx, &v, "Vec<u8>");
        n += check_item(ctx, &v.as_slice(), "&[u8]");
    }
    for t in [(0u64, "a"), (1, "b"), (u64::MAX, "")] {
        n += check_item(ctx, &t, "tuple");
    }
    // canonical double entry points
    {
        use datasketches::cpc::CpcSketch;
        use datasketches::theta::ThetaSketch;
        let cases: [(f64, u64); 6] = [
            (0.0, 0),
            (-0.0, 0),
            (1.5, 1.5f64.to_bits()),
            (f64::NAN, 0x7ff8000000000000),
            (-f64::NAN, 0x7ff8000000000000),
            (f64::INFINITY, f64::INFINITY.to_bits()),
        ];
        for (x, canon) in cases {
            let bytes = recorded_bytes(&canon);
            let (h1, h2) = refhash::murmur3_x64_128(&bytes, 9001);
            let mut t = ThetaSketch::builder().lg_k(5).build();
            t.update_f64(x);
            let got: Vec<u64> = t.iter().collect();
            n += 1;
            if got != vec![h1 >> 1] {
                ctx.violation(
                    "derived.theta_f64",
                    &format!("theta update_f64({x:?}) hash {:x?} != reference hash of canonical bits {:x}", got, canon),
                    json!({"kind":"theta_f64","bits":x.to_bits()}),
                );
            }
            let mut t32 = ThetaSketch::builder().lg_k(5).build();
            t32.update_f32(x as f32);
            let canon32 = if (x as f32).is_nan() { 0x7ff8000000000000u64 } else { ((x as f32) as f64 + 0.0).to_bits() };
            let b32 = recorded_bytes(&canon32);
            let (g1, _) = refhash::murmur3_x64_128(&b32, 9001);
            n += 1;
            if t32.iter().collect::<Vec<_>>() != vec![g1 >> 1] {
                ctx.violation(
                    "derived.theta_f32",
                    &format!("theta update_f32({x:?}) hash differs from reference"),
                    json!({"kind":"theta_f32","bits":x.to_bits()}),
                );
            }
            let mut c = CpcSketch::new(4);
            c.update_f64(x);
            let m = c.verif_bit_matrix();
            let row = (h1 & 15) as usize;
            let col = h2.leading_zeros().min(63);
            n += 1;
            if m[row] != 1u64 << col || m.iter().map(|w| w.count_ones()).sum::<u32>() != 1 {
                ctx.violation(
                    "derived.cpc_f64",
                    &format!("CPC update_f64({x:?}) row/col differs from reference"),
                    json!({"kind":"cpc_f64","bits":x.to_bits()}),
                );
            }
        }
    }
    // seed hash
    let mut seeds: Vec<u64> = (0..=64).collect();
    seeds.extend([9001, u64::MAX, 0x9E3779B97F4A7C15, 12345678901234567]);
    for s in seeds {
        let (h1, _) = refhash::murmur3_x64_128(&s.to_le_bytes(), 0);
        let want = (h1 & 0xffff) as u16;
        if want == 0 {
            continue; // documented panic
        }
        n += 1;
        let got = hook::seed_hash(s);
        let t = datasketches::theta::ThetaSketch::builder().lg_k(5).seed(s).build();
        let got2 = t.compact(true).seed_hash();
        let cpc = datasketches::cpc::CpcSketch::with_seed(4, s).serialize();
        let got3 = u16::from_le_bytes([cpc[6], cpc[7]]);
        if got != want || got2 != want || got3 != want {
            ctx.violation(
                "derived.seed_hash",
                &format!("seed hash of {s}: hook {got:#x}, theta {got2:#x}, cpc image {got3:#x}, reference {want:#x}"),
                json!({"kind":"seed_hash","seed":s}),
            );
        }
    }
    n
}

pub fn run(ctx: &Ctx) -> i32 {
    match refhash::self_test() {
        Ok(n) => ctx.note(format!("reference hashes self-tested against {n} published vectors")),
        Err(e) => {
            eprintln!("machinery error: reference hash self-test failed: {e}");
            return 2;
        }
    }
    // E1 automaton
    let lens: Vec<usize> = match ctx.tier {
        Tier::Quick => (0..=200).collect(),
        Tier::Thorough => (0..=640).chain([1000, 1023, 1024, 1025]).collect(),
    };
    let mut jobs = vec![];
    for algo in ["murmur", "xxh64"] {
        for (si, &seed) in SEEDS.iter().enumerate() {
            for kind in 0..3 {
                for &len in &lens {
                    let full = len <= 200 || (si < 2 && kind == 2);
                    if full {
                        jobs.push((algo, seed, kind, len));
                    }
                }
            }
        }
    }
    ctx.note(format!("write-automaton jobs (algo x seed x content x length): {}", jobs.len()));
    jobs.par_iter().for_each(|&(a, s, k, l)| automaton(ctx, a, s, k, l));
    ctx.sample(json!({"automaton":{"algo":"murmur","seed":9001,"len":37,"transition":"state(after 16 bytes) --write(21 bytes)--> must equal state(after one write of 37 bytes); finish == reference"}}));
    // direct compositions
    let nmax = ctx.tier.pick(16usize, 22);
    let mut comps = 0u64;
    for algo in ["murmur", "xxh64"] {
        for n in 0..=nmax {
            for &seed in &SEEDS[..2] {
                comps += compositions(ctx, algo, seed, n);
            }
        }
        // longer inputs that cross block boundaries: all compositions of n into pieces is
        // infeasible; instead all 2-cut and 3-cut chunkings are the automaton's job above.
    }
    // xxh64 needs > 32 bytes to leave the short path: all compositions of a 40-byte input
    // restricted to cut points in a 14-position window around the 32-byte boundary.
    for algo in ["murmur", "xxh64"] {
        let n = 48usize;
        let input = content(2, n);
        let window: Vec<usize> = (25..25 + ctx.tier.pick(12, 16)).collect();
        let total = 1u64 << window.len();
        let seed = 9001u64;
        let want_m = refhash::murmur3_x64_128(&input, seed);
        let want_x = refhash::xxh64(&input, seed);
        comps += (0..total)
            .into_par_iter()
            .map(|mask| {
                let mut chunks: Vec<&[u8]> = vec![];
                let mut start = 0;
                for (b, &pos) in window.iter().enumerate() {
                    if (mask >> b) & 1 == 1 {
                        chunks.push(&input[start..pos]);
                        start = pos;
                    }
                }
                chunks.push(&input[start..]);
                let ok = if algo == "murmur" {
                    hook::murmur_write_finish(seed, &chunks) == want_m
                } else {
                    hook::xxh64_write_finish(seed, &chunks) == want_x
                };
                if !ok {
                    let lens: Vec<usize> = chunks.iter().map(|c| c.len()).collect();
                    ctx.violation(
                        &format!("{algo}.chunking"),
                        &format!("{algo} digest of 48 bytes fed as chunks {:?} differs from reference", lens),
                        json!({"algo":algo,"seed":seed,"input_hex":hex(&input),"chunks":lens}),
                    );
                }
                1u64
            })
            .sum::<u64>();
    }
    ctx.count("direct_compositions_fed_as_real_writes", comps);
    ctx.add_transitions(comps);
    ctx.sample(json!({"composition":{"algo":"xxh64","n":12,"chunks":[1,1,3,0,7],"note":"every one of the 2^(n-1) ordered splittings is fed as successive write calls"}}));
    let d = derived(ctx) + digest_boundaries(ctx);
    let cs = content_sweep(ctx);
    ctx.add_transitions(cs);
    ctx.count("derived_quantity_evaluations", d);
    ctx.sample(json!({"derived":{"item":"u64 17","hashed_bytes":hex(&recorded_bytes(&17u64)),"checks":["HLL coupon","theta hash x3 seeds","CPC row/col x3 configs","Count-Min buckets","Bloom positions"]}}));
    let cov = json!({
        "exhaustive": true,
        "bounds": {
            "lengths": format!("{} lengths{}", lens.len(), if ctx.tier==Tier::Thorough {" (0..=640 and 1000..1025; full seed x content product for len<=200, 2 seeds x sanity-buffer content above)"} else {" (full seed x content product)"}),
            "seeds": SEEDS,
            "contents": ["counter*7+1", "all 0xFF", "XXH sanity buffer", "content sweep: every byte string of length <= 2 (thorough 3); every single-byte variation (9 values, 2 backgrounds) at every position for lengths 3..=72; 3 seeds; one-shot and split in the middle"],
            "compositions_n_max": nmax,
        },
        "traces_validated_against_impl": ctx.transitions.load(std::sync::atomic::Ordering::Relaxed),
    });
    ctx.finish(
        cov,
        vec![
            "the reference digests are my transcription of the published MurmurHash3_x64_128 and XXH64 algorithms, self-tested against published vectors on every run".into(),
            "state merging is sound because the hook returns every field of the hasher with the buffer masked to its fill level; bytes beyond the fill level are never read by finish/write".into(),
            "contents beyond the sweep are three fixed patterns, not all byte strings".into(),
        ],
    )
}
