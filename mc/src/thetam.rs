//! Theta reference model (set of offered hashes) and the KMV oracle (C04),
//! shared with C01/C11/C12/C17/C18.

use crate::common::{Ctx, catch};
use datasketches::common::{NumStdDev, ResizeFactor};
use datasketches::theta::{CompactThetaSketch, ThetaSketch};
use serde_json::{Value, json};
use std::collections::{BTreeMap, BTreeSet};

pub const MAX_THETA: u64 = i64::MAX as u64;
pub const NSD: [NumStdDev; 3] = [NumStdDev::One, NumStdDev::Two, NumStdDev::Three];
pub const RFS: [ResizeFactor; 4] = [ResizeFactor::X1, ResizeFactor::X2, ResizeFactor::X4, ResizeFactor::X8];

#[derive(Clone, Copy, Debug, PartialEq)]
pub struct Cfg {
    pub lg_k: u8,
    pub rf: usize,
    pub p: f32,
    pub seed: u64,
}

impl Cfg {
    pub fn build(&self) -> ThetaSketch {
        ThetaSketch::builder().lg_k(self.lg_k).resize_factor(RFS[self.rf]).sampling_probability(self.p).seed(self.seed).build()
    }
    pub fn initial_theta(&self) -> u64 {
        if self.p < 1.0 { (MAX_THETA as f64 * self.p as f64) as u64 } else { MAX_THETA }
    }
    pub fn json(&self) -> Value {
        json!({"lg_k": self.lg_k, "resize_factor": (1u32 << self.rf), "p": self.p, "seed": self.seed})
    }
    pub fn from_json(v: &Value) -> Cfg {
        let rf = match v["resize_factor"].as_u64().unwrap_or(8) {
            1 => 0,
            2 => 1,
            4 => 2,
            _ => 3,
        };
        Cfg { lg_k: v["lg_k"].as_u64().unwrap() as u8, rf, p: v["p"].as_f64().unwrap() as f32, seed: v["seed"].as_u64().unwrap() }
    }
}

#[derive(Clone, Debug, PartialEq, Eq, Hash)]
pub enum Op {
    /// offer a chosen 63-bit hash through the hook (screened against theta like `update`)
    Hash(u64),
    /// offer theta-1 / theta (relative to the current theta)
    ThetaMinus(u64),
    /// public `update(u64 item)`
    Item(u64),
    Trim,
    Reset,
}

impl Op {
    pub fn json(&self) -> Value {
        match self {
            Op::Hash(h) => json!({"hash": h}),
            Op::ThetaMinus(d) => json!({"theta_minus": d}),
            Op::Item(i) => json!({"item": i}),
            Op::Trim => json!("trim"),
            Op::Reset => json!("reset"),
        }
    }
    pub fn from_json(v: &Value) -> Op {
        if let Some(h) = v.get("hash") {
            Op::Hash(h.as_u64().unwrap())
        } else if let Some(h) = v.get("theta_minus") {
            Op::ThetaMinus(h.as_u64().unwrap())
        } else if let Some(h) = v.get("item") {
            Op::Item(h.as_u64().unwrap())
        } else if v == "trim" {
            Op::Trim
        } else {
            Op::Reset
        }
    }
}

#[derive(Clone)]
pub struct Pair {
    pub cfg: Cfg,
    pub s: ThetaSketch,
    /// every distinct non-zero hash ever offered since the last reset (screened or not)
    pub offered: BTreeSet<u64>,
    /// number of update calls since the last reset
    pub offers: u64,
    pub prev_theta: u64,
}

pub fn item_hash(item: u64, seed: u64) -> u64 {
    crate::refhash::murmur3_x64_128(&item.to_le_bytes(), seed).0 >> 1
}

impl Pair {
    pub fn new(cfg: Cfg) -> Self {
        let s = cfg.build();
        let t = s.theta64();
        Pair { cfg, s, offered: BTreeSet::new(), offers: 0, prev_theta: t }
    }

    /// Applies one op to the real sketch and evaluates the oracle. Returns violations.
    pub fn apply(&mut self, op: &Op, edges: &mut BTreeMap<String, u64>) -> Vec<(String, String)> {
        self.apply_opt(op, edges, true)
    }

    pub fn apply_opt(&mut self, op: &Op, edges: &mut BTreeMap<String, u64>, with_compact: bool) -> Vec<(String, String)> {
        match catch(|| self.apply_inner(op, edges, with_compact)) {
            Ok(v) => v,
            Err(p) => vec![(format!("panic|{}", p.site_key()), format!("{:?} or a following accessor panicked: {} at {}:{}", op, p.message, p.file, p.line))],
        }
    }

    fn apply_inner(&mut self, op: &Op, edges: &mut BTreeMap<String, u64>, with_compact: bool) -> Vec<(String, String)> {
        let mut out = vec![];
        let k = 1usize << self.cfg.lg_k;
        let theta_before = self.s.theta64();
        let n_before = self.s.num_retained();
        let (lg_cur_before, _) = self.s.verif_table();
        let mut edge = |s: &str| *edges.entry(s.to_string()).or_insert(0) += 1;
        let r = match op {
            Op::Hash(h) => {
                let h = *h;
                assert!(h >= 1 && h < MAX_THETA, "model precondition: hash in 1..MAX_THETA");
                self.offered.insert(h);
                self.offers += 1;
                catch(|| {
                    self.s.verif_insert_hash(h);
                })
            }
            Op::ThetaMinus(d) => {
                let h = theta_before.saturating_sub(*d).clamp(1, MAX_THETA - 1);
                self.offered.insert(h);
                self.offers += 1;
                catch(|| {
                    self.s.verif_insert_hash(h);
                })
            }
            Op::Item(i) => {
                let h = item_hash(*i, self.cfg.seed);
                if h != 0 {
                    self.offered.insert(h);
                }
                self.offers += 1;
                catch(|| self.s.update(*i))
            }
            Op::Trim => catch(|| self.s.trim()),
            Op::Reset => {
                self.offered.clear();
                self.offers = 0;
                catch(|| self.s.reset())
            }
        };
        if let Err(p) = r {
            out.push((format!("panic|{}", p.site_key()), format!("{:?} panicked: {} at {}:{}", op, p.message, p.file, p.line)));
            return out;
        }
        let theta = self.s.theta64();
        let (lg_cur, _) = self.s.verif_table();
        match op {
            Op::Reset => {
                edge("reset");
                if theta != self.cfg.initial_theta() || self.s.num_retained() != 0 || !self.s.is_empty() {
                    out.push(("theta.reset".into(), format!("after reset: theta {theta}, retained {}, is_empty {}", self.s.num_retained(), self.s.is_empty())));
                }
                self.prev_theta = theta;
            }
            Op::Trim => {
                if n_before > k {
                    edge("trim with more than k entries");
                    // exactly the k smallest, theta = (k+1)-th smallest
                    if self.s.num_retained() != k {
                        out.push(("theta.trim.count".into(), format!("trim left {} entries, k = {k}", self.s.num_retained())));
                    }
                } else {
                    edge("trim with at most k entries (no-op)");
                    if theta != theta_before || self.s.num_retained() != n_before {
                        out.push(("theta.trim.noop".into(), format!("trim of {n_before} <= k entries changed theta {theta_before}->{theta} or count ->{}", self.s.num_retained())));
                    }
                }
            }
            _ => {
                if lg_cur != lg_cur_before {
                    edge(&format!("resize lg{}->lg{}", lg_cur_before, lg_cur));
                }
                if theta != theta_before {
                    edge("rebuild (theta decreased on insert)");
                    if self.s.num_retained() != k {
                        out.push(("theta.rebuild.count".into(), format!("a rebuild left {} entries, expected exactly k = {k}", self.s.num_retained())));
                    }
                }
            }
        }
        if theta > self.prev_theta {
            out.push(("theta.increased".into(), format!("theta went up from {} to {theta}", self.prev_theta)));
        }
        if theta != theta_before && !matches!(op, Op::Reset) {
            // the new theta is the (k+1)-th smallest retained hash: it must be an offered hash
            if !self.offered.contains(&theta) {
                out.push(("theta.not_a_hash".into(), format!("theta moved to {theta}, which is not one of the offered hashes")));
            }
        }
        self.prev_theta = theta;
        out.extend(self.check_state_opt(with_compact));
        out
    }

    pub fn check_state(&self) -> Vec<(String, String)> {
        self.check_state_opt(true)
    }

    /// `with_compact`: also evaluate the compact(ordered) clauses (two extra copies + sorts).
    pub fn check_state_opt(&self, with_compact: bool) -> Vec<(String, String)> {
        let mut out = vec![];
        let k = 1usize << self.cfg.lg_k;
        let theta = self.s.theta64();
        let init = self.cfg.initial_theta();
        let got: Vec<u64> = self.s.iter().collect();
        let mut sorted = got.clone();
        sorted.sort_unstable();
        if sorted.windows(2).any(|w| w[0] == w[1]) {
            out.push(("theta.duplicate".into(), "iter() yields a duplicate hash".into()));
        }
        let same = {
            let mut it = self.offered.range(1..theta);
            let mut ok = true;
            for &g in &sorted {
                if it.next() != Some(&g) {
                    ok = false;
                    break;
                }
            }
            ok && it.next().is_none()
        };
        if !same {
            let set: BTreeSet<u64> = got.iter().copied().collect();
            let want: BTreeSet<u64> = self.offered.range(1..theta).copied().collect();
            let missing: Vec<_> = want.difference(&set).take(3).collect();
            let extra: Vec<_> = set.difference(&want).take(3).collect();
            out.push((
                "theta.kmv".into(),
                format!("retained set != offered hashes below theta {theta}: missing {:?} extra {:?} ({} retained, {} expected)", missing, extra, set.len(), want.len()),
            ));
        }
        if self.s.num_retained() != got.len() {
            out.push(("theta.num_retained".into(), format!("num_retained {} but iter yields {}", self.s.num_retained(), got.len())));
        }
        if theta < init {
            let qualifying = self.offered.range(1..init).take(k + 1).count();
            if qualifying <= k {
                out.push(("theta.early_theta".into(), format!("theta {theta} below its initial value {init} after only {qualifying} <= k distinct qualifying hashes")));
            }
        }
        if theta == 0 || theta > init {
            out.push(("theta.range".into(), format!("theta {theta} outside (0, initial {init}]")));
        }
        // C18 clause: at most 15/16 * 2k retained
        if got.len() > (15 * 2 * k) / 16 {
            out.push(("theta.size".into(), format!("{} entries retained, more than 15/16*2k = {}", got.len(), (15 * 2 * k) / 16)));
        }
        let n = got.len() as f64;
        let est = self.s.estimate();
        let want_est = if got.is_empty() { 0.0 } else { n / (theta as f64 / MAX_THETA as f64) };
        if est.to_bits() != want_est.to_bits() {
            out.push(("theta.estimate".into(), format!("estimate {est} but retained/theta = {want_est}")));
        }
        if theta == MAX_THETA && est != self.offered.len() as f64 {
            out.push(("theta.exact_mode".into(), format!("exact mode estimate {est} but {} distinct hashes offered", self.offered.len())));
        }
        if self.s.is_estimation_mode() != (theta < MAX_THETA) {
            out.push(("theta.estimation_mode".into(), "is_estimation_mode disagrees with theta".into()));
        }
        // emptiness: a sketch that has been offered anything is not empty (C01/C04)
        if self.s.is_empty() != (self.offers == 0) {
            out.push((
                "theta.empty_after_screened_updates".into(),
                format!("is_empty() = {} after {} update calls (p = {}, all screened out: {})", self.s.is_empty(), self.offers, self.cfg.p, got.is_empty()),
            ));
        }
        out.extend(check_bounds_theta(&self.s, self.offers > 0));
        if with_compact {
            // compact(ordered) describes the same set
            for ordered in [true, false] {
                match catch(|| self.s.compact(ordered)) {
                    Err(p) => out.push((format!("panic|{}", p.site_key()), format!("compact({ordered}) panicked: {}", p.message))),
                    Ok(c) => out.extend(check_compact(&self.s, &c, ordered, &sorted)),
                }
            }
        }
        out
    }

    pub fn key(&self) -> (Vec<u64>, u64, u8, bool) {
        let mut v: Vec<u64> = self.s.iter().collect();
        v.sort_unstable();
        (v, self.s.theta64(), self.s.verif_table().0, self.offers == 0)
    }
}

pub fn check_compact(s: &ThetaSketch, c: &CompactThetaSketch, ordered: bool, got: &[u64]) -> Vec<(String, String)> {
    let mut out = vec![];
    let ce: Vec<u64> = c.iter().collect();
    let mut a = ce.clone();
    a.sort_unstable();
    let b = got; // already sorted by the caller
    if a != b {
        out.push(("theta.compact.entries".into(), format!("compact({ordered}) has {} entries, the sketch {}", a.len(), b.len())));
    }
    if ordered && ce.windows(2).any(|w| w[0] >= w[1]) {
        out.push(("theta.compact.unsorted".into(), "compact(true) is not strictly ascending".into()));
    }
    if c.is_ordered() && ce.windows(2).any(|w| w[0] >= w[1]) {
        out.push(("theta.compact.ordered_flag".into(), "compact sketch claims to be ordered but is not".into()));
    }
    if ordered && !c.is_ordered() {
        out.push(("theta.compact.ordered_flag".into(), "compact(true) does not claim to be ordered".into()));
    }
    if c.is_empty() != s.is_empty() {
        out.push(("theta.compact.empty".into(), format!("compact.is_empty {} but sketch.is_empty {}", c.is_empty(), s.is_empty())));
    }
    if c.num_retained() != ce.len() {
        out.push(("theta.compact.num_retained".into(), "compact num_retained != iter count".into()));
    }
    // 'non-empty' means updated at least once, whether or not anything was retained: a sampling
    // sketch whose updates were all screened out keeps its theta when compacted
    if !s.is_empty() && c.theta64() != s.theta64() {
        out.push(("theta.compact.theta".into(), format!("compact theta {} but sketch theta {}", c.theta64(), s.theta64())));
    }
    if c.estimate().to_bits() != s.estimate().to_bits() {
        out.push(("theta.compact.estimate".into(), format!("compact estimate {} but sketch estimate {}", c.estimate(), s.estimate())));
    }
    out
}

pub fn check_bounds_theta(s: &ThetaSketch, offered_any: bool) -> Vec<(String, String)> {
    let mut out = vec![];
    let r = catch(|| {
        let e = s.estimate();
        let lb: Vec<f64> = NSD.iter().map(|&n| s.lower_bound(n)).collect();
        let ub: Vec<f64> = NSD.iter().map(|&n| s.upper_bound(n)).collect();
        [lb[2], lb[1], lb[0], e, ub[0], ub[1], ub[2]]
    });
    match r {
        Err(p) => out.push((format!("panic|{}", p.site_key()), format!("bounds panicked: {}", p.message))),
        Ok(all) => {
            if all.iter().any(|x| !x.is_finite() || *x < 0.0) {
                out.push(("theta.bounds.finite".into(), format!("non-finite or negative estimate/bound: {:?}", all)));
            } else if all.windows(2).any(|w| w[0] > w[1]) {
                out.push(("theta.bounds.order".into(), format!("lb3<=lb2<=lb1<=est<=ub1<=ub2<=ub3 violated: {:?} (retained {}, theta {})", all, s.num_retained(), s.theta())));
            }
            if offered_any && s.is_estimation_mode() && all[4] <= 0.0 {
                out.push(("theta.bounds.collapsed".into(), format!("upper bound {} of a sampling sketch that has seen data (coverage collapses to the no-data state)", all[4])));
            }
        }
    }
    out
}

pub fn replay_json(cfg: &Cfg, ops: &[Op]) -> Value {
    json!({"kind":"theta_ops","cfg":cfg.json(),"ops":ops.iter().map(|o| o.json()).collect::<Vec<_>>()})
}

pub fn replay(case: &Value) -> String {
    let cfg = Cfg::from_json(&case["cfg"]);
    let ops: Vec<Op> = case["ops"].as_array().unwrap().iter().map(Op::from_json).collect();
    let mut p = Pair::new(cfg);
    let mut edges = BTreeMap::new();
    let mut log = String::new();
    for (i, op) in ops.iter().enumerate() {
        for (k, w) in p.apply(op, &mut edges) {
            log.push_str(&format!("step {i} {:?}: VIOLATES {k}: {w}\n", op));
        }
    }
    log.push_str(&format!("final: retained={} theta={} estimate={}\n", p.s.num_retained(), p.s.theta64(), p.s.estimate()));
    log
}

pub fn report(ctx: &Ctx, vs: Vec<(String, String)>, cfg: &Cfg, ops: &[Op]) -> bool {
    let mut new = false;
    for (k, w) in vs {
        new |= k.starts_with("panic|");
        new |= ctx.violation(&k, &format!("lg_k={} rf=x{} p={}: {w}", cfg.lg_k, [1, 2, 4, 8][cfg.rf], cfg.p), replay_json(cfg, ops));
    }
    new
}
