//! C18 — sketch size is bounded by configuration, not by stream length.
//! Size formulas are evaluated at every state visited by the family explorers (observer) and
//! along long hashed streams (distinct / repeated / adversarially ordered), measured at every
//! power-of-two prefix.

use crate::common::{Ctx, catch};
use crate::obs;
use crate::refhash;
use crate::spec_hll;
use datasketches::cpc::CpcSketch;
use datasketches::hll::{HllSketch, HllType};
use datasketches::theta::ThetaSketch;
use rayon::prelude::*;
use serde_json::json;
use std::sync::atomic::{AtomicU64, Ordering};

fn hll_len_ok(ctx: &Ctx, s: &HllSketch, what: &str, n: u64) {
    let lg_k = s.lg_config_k();
    hll_len_ok_with(ctx, s, what, n, &|| json!({"kind":"stream","family":"hll","lg_k":lg_k,"stream":what,"n":n}));
}

fn hll_len_ok_with(ctx: &Ctx, s: &HllSketch, what: &str, n: u64, replay: &dyn Fn() -> serde_json::Value) {
    let st = s.verif_state();
    let len = s.serialize().len();
    let c = st.table.iter().filter(|&&x| x != 0).count();
    let want = match st.mode {
        0 => 8 + 4 * c,
        1 => 12 + 4 * c,
        // one aux pair per register that does not fit cur_min + 0..=14, no more (an aux map that
        // keeps entries for registers that fit four bits again makes the image grow)
        _ if st.tgt == 4 => 40 + spec_hll::reg_bytes(st.tgt, st.lg_k) + 4 * st.registers.iter().filter(|&&v| v >= st.cur_min + 15).count(),
        _ => 40 + spec_hll::reg_bytes(st.tgt, st.lg_k),
    };
    if len != want {
        ctx.violation(&format!("hll{}.size.stream.mode{}", st.tgt, st.mode), &format!("{what}: after {n} items the image is {len} bytes, mode/lg_k/aux dictate {want}"), replay());
    }
    // the sparse modes are bounded by the configuration too: a list is promoted when its 8
    // slots are used, a set when it is more than 3/4 full at 2^(lg_k-3) slots
    let cap = match st.mode {
        0 => 7,
        // below lg_k 8 a full list is promoted straight to the register array
        1 if st.lg_k < 8 => 0,
        1 => 3 * (1usize << (st.lg_k - 3)) / 4,
        _ => usize::MAX,
    };
    if c > cap {
        ctx.violation(&format!("hll.size.sparse_mode_overgrown.mode{}", st.mode), &format!("{what}: lg_k={} sketch still in {} mode with {c} coupons (promotion is due above {cap}); the image of {len} bytes grows with the stream", st.lg_k, if st.mode == 0 { "list" } else { "set" }), replay());
    }
    // absolute bound implied by the configuration alone
    let k = 1usize << st.lg_k;
    let bound = 40 + k + 4 * k; // registers + (never reached) one aux entry per slot
    if len > bound {
        ctx.violation("hll.size.unbounded", &format!("{what}: image of {len} bytes exceeds any configuration bound"), replay());
    }
}

/// Observer for the HLL union exploration: every result sketch obeys the size rules.
fn union_sizes(ctx: &Ctx, s: &crate::c03::UState, mk: &dyn Fn() -> serde_json::Value) {
    for t in [HllType::Hll4, HllType::Hll6, HllType::Hll8] {
        match crate::common::catch(|| s.u.to_sketch(t)) {
            Ok(r) => hll_len_ok_with(ctx, &r, "union result", 0, mk),
            Err(p) => {
                ctx.violation(&format!("panic|{}", p.site_key()), &format!("to_sketch panicked: {}", p.message), mk());
            }
        }
    }
}

fn streams(n: u64, seed: u64) -> Vec<(&'static str, Vec<u64>)> {
    let distinct: Vec<u64> = (0..n).collect();
    let repeated: Vec<u64> = (0..n).map(|i| i % 16).collect();
    // adversarial order: ascending by the (theta) hash of the item
    let mut adv: Vec<u64> = (0..n).collect();
    adv.sort_by_key(|&x| refhash::murmur3_x64_128(&x.to_le_bytes(), seed).0 >> 1);
    // HLL adversarial: ascending register value, i.e. ascending leading zeros of h2
    let mut adv2: Vec<u64> = (0..n).collect();
    adv2.sort_by_key(|&x| refhash::murmur3_x64_128(&x.to_le_bytes(), seed).1.leading_zeros());
    vec![("distinct 0..n", distinct), ("16 repeated items", repeated), ("ascending theta hash", adv), ("ascending HLL register value", adv2)]
}

fn long_runs(ctx: &Ctx) {
    let lg_n = ctx.tier.pick(18u32, 22);
    let n = 1u64 << lg_n;
    let measured = AtomicU64::new(0);
    let ss = streams(n, 9001);
    // HLL
    let lgs: Vec<u8> = ctx.tier.pick(vec![4, 5, 6, 7, 8, 9, 10, 11, 12], vec![4, 5, 6, 7, 8, 9, 10, 11, 12, 13, 14, 16, 21]);
    let jobs: Vec<(u8, HllType, usize)> = lgs.iter().flat_map(|&l| [HllType::Hll4, HllType::Hll6, HllType::Hll8].into_iter().flat_map(move |t| (0..4usize).map(move |s| (l, t, s)))).collect();
    jobs.par_iter().for_each(|&(lg_k, t, si)| {
        let (name, items) = &ss[si];
        let mut s = HllSketch::new(lg_k, t);
        for (i, &x) in items.iter().enumerate() {
            if let Err(p) = catch(|| s.update(x)) {
                ctx.violation(&format!("panic|{}", p.site_key()), &format!("HLL update panicked: {}", p.message), json!({"kind":"stream","family":"hll","lg_k":lg_k,"stream":name,"n":i}));
                return;
            }
            let m = (i + 1) as u64;
            if m.is_power_of_two() || m == n {
                hll_len_ok(ctx, &s, name, m);
                measured.fetch_add(1, Ordering::Relaxed);
            }
        }
    });
    // Theta: <= 15/16 * 2k retained always, <= k after trim, compact image = 8*(preLongs+n)
    let tj: Vec<(u8, usize)> = [5u8, 8, 12].iter().flat_map(|&l| (0..4usize).map(move |s| (l, s))).collect();
    tj.par_iter().for_each(|&(lg_k, si)| {
        let (name, items) = &ss[si];
        let k = 1usize << lg_k;
        let mut s = ThetaSketch::builder().lg_k(lg_k).build();
        let mut max_retained = 0;
        for (i, &x) in items.iter().enumerate() {
            s.update(x);
            max_retained = max_retained.max(s.num_retained());
            let m = (i + 1) as u64;
            // every power of two, and every length through the first rebuild (k .. 2k+2: the
            // exact-mode window where more than k entries are retained)
            if m.is_power_of_two() || m == n || (m >= k as u64 && m <= 2 * k as u64 + 2) {
                measured.fetch_add(1, Ordering::Relaxed);
                let c = s.compact(true);
                let img = c.serialize();
                let pre = if c.is_estimation_mode() { 3 } else if c.is_empty() || c.num_retained() == 1 { 1 } else { 2 };
                let want = if c.is_empty() { 8 } else { 8 * (pre + c.num_retained()) };
                if img.len() != want {
                    ctx.violation("theta.size.stream.v3", &format!("{name}: after {m} items the compact image is {} bytes, expected {want}", img.len()), json!({"kind":"stream","family":"theta","lg_k":lg_k,"stream":name,"n":m}));
                }
                if c.serialize_compressed().len() > img.len() {
                    ctx.violation("theta.size.stream.v4", &format!("{name}: the compressed image is larger than the plain one after {m} items"), json!({"kind":"stream","family":"theta","lg_k":lg_k,"stream":name,"n":m}));
                }
                let mut t = s.clone();
                t.trim();
                if t.num_retained() > k {
                    ctx.violation("theta.size.trim", &format!("{name}: {} entries retained after trim, k = {k}", t.num_retained()), json!({"kind":"stream","family":"theta","lg_k":lg_k,"stream":name,"n":m}));
                }
            }
        }
        if max_retained > (15 * 2 * k) / 16 {
            ctx.violation("theta.size.retained", &format!("{name}: up to {max_retained} entries retained, more than 15/16*2k = {}", (15 * 2 * k) / 16), json!({"kind":"stream","family":"theta","lg_k":lg_k,"stream":name,"n":n}));
        }
    });
    // CPC: image size vs max_serialized_bytes on HASHED streams, every 1/8-octave prefix
    let total = AtomicU64::new(0);
    let exceed = AtomicU64::new(0);
    let worst = std::sync::Mutex::new((0.0f64, String::new()));
    let cj: Vec<(u8, u64)> = (4..=ctx.tier.pick(12u8, 14)).flat_map(|l| [9001u64, 1, 2, 3].into_iter().map(move |s| (l, s))).collect();
    cj.par_iter().for_each(|&(lg_k, seed)| {
        let mut s = CpcSketch::with_seed(lg_k, seed);
        let bound = CpcSketch::max_serialized_bytes(lg_k);
        let nmax = (64u64 << lg_k).min(1 << ctx.tier.pick(16u32, 20));
        let mut next = 1u64;
        let mut step_base = 1u64;
        for i in 0..nmax {
            s.update(i.wrapping_mul(0x9E3779B97F4A7C15) ^ seed);
            if i + 1 == next {
                let len = s.serialize().len();
                total.fetch_add(1, Ordering::Relaxed);
                if len > bound {
                    exceed.fetch_add(1, Ordering::Relaxed);
                    let r = len as f64 / bound as f64;
                    let mut w = worst.lock().unwrap();
                    if r > w.0 {
                        *w = (r, format!("lg_k {lg_k} seed {seed} n {} : {len} > {bound}", i + 1));
                    }
                }
                // next 1/8-octave point
                if next >= step_base * 2 {
                    step_base *= 2;
                }
                next += (step_base / 8).max(1);
            }
        }
    });
    let (t, e) = (total.load(Ordering::Relaxed), exceed.load(Ordering::Relaxed));
    ctx.count("CPC size measurements on hashed streams", t);
    ctx.count("CPC size measurements above max_serialized_bytes", e);
    if e > 0 {
        ctx.note(format!("worst CPC exceedance: {}", worst.lock().unwrap().1));
    }
    if (e as f64) > 0.001 * (t as f64) {
        ctx.violation("cpc.size.max_serialized_bytes", &format!("{e} of {t} measurements on hashed streams exceed max_serialized_bytes(lg_k) (documented: 0.1%); worst {}", worst.lock().unwrap().1), json!({"kind":"stream","family":"cpc"}));
    }
    // Frequent Items: every legal map size incl. those below the 8-slot minimum table
    for size in [1usize, 2, 4, 8, 16, 64, 1024] {
        for (name, items) in ss.iter().take(3) {
            let mut s = datasketches::frequencies::FrequentItemsSketch::<i64>::new(size);
            let nmax = items.len().min(1 << 16);
            for (i, &x) in items.iter().take(nmax).enumerate() {
                s.update(x as i64);
                let m = (i + 1) as u64;
                if m.is_power_of_two() || m as usize == nmax {
                    measured.fetch_add(1, Ordering::Relaxed);
                    let cap = s.maximum_map_capacity();
                    let len = s.serialize().len();
                    if s.num_active_items() > cap || len > 32 + 16 * cap.max(1) {
                        ctx.violation("fi.size.stream", &format!("{name}: FrequentItemsSketch::new({size}) after {m} items tracks {} items in a {len}-byte image, maximum_map_capacity is {cap}", s.num_active_items()), json!({"kind":"stream","family":"fi","size":size,"stream":name,"n":m}));
                        break;
                    }
                }
            }
        }
    }
    let m = measured.load(Ordering::Relaxed) + t;
    ctx.count("long-run size measurements", m);
    ctx.add_states(m);
    ctx.add_transitions(m);
}

pub fn run(ctx: &Ctx) -> i32 {
    let jobs: Vec<Box<dyn Fn() + Sync + Send>> = vec![
        Box::new(|| crate::c02::explore(ctx, &obs::hll_trio_c12)),
        Box::new(|| crate::c03::explore(ctx, &union_sizes)),
        Box::new(|| crate::c04::explore(ctx, &|ctx, p, mk| obs::theta_pair_obs(ctx, p, false, true, mk))),
        Box::new(|| crate::c08::explore(ctx, &obs::cm_spec)),
        Box::new(|| crate::c09::explore(ctx, &obs::bloom_spec)),
        Box::new(|| crate::c18_more::run(ctx)),
        Box::new(|| long_runs(ctx)),
    ];
    jobs.par_iter().for_each(|j| j());
    ctx.sample(json!({"observer":"HLL: serialize().len() == 8+4c | 12+4c | 40 + {k/2, 3k/4+1, k} + 4*aux with c/aux from the hook dump, in every explored state; theta: <= 15/16*2k retained, image = 8*(preLongs+n); Bloom/Count-Min: image size fixed by configuration"}));
    ctx.sample(json!({"long_run":{"family":"hll","lg_k":12,"type":"Hll4","stream":"ascending HLL register value","measured_at":"every power-of-two prefix up to 2^18 (2^22 thorough)"}}));
    let cov = json!({
        "exhaustive": true,
        "bounds": {
            "observer": "every state of the reduced-bound C02/C03 (union results, all three target types)/C04/C07/C08/C09 explorations; HLL list/set modes additionally bounded by their promotion sizes (7 coupons, 3/4 of 2^(lg_k-3))",
            "long_runs": format!("4 streams (distinct, 16 repeated, ascending theta hash, ascending HLL value) of 2^{} hashed items: HLL lg_k {{4..=12{}}} x 3 types, theta lg_k {{5,8,12}} incl. trim, measured at every power-of-two prefix and at every length k..2k+2; CPC lg_k 4..={} x 4 seeds at every 1/8-octave prefix (exceedances of max_serialized_bytes counted, must be <= 0.1%)", ctx.tier.pick(18, 22), ctx.tier.pick("", ",13,14,16,21"), ctx.tier.pick(12, 14)),
        },
    });
    ctx.finish(
        cov,
        vec![
            "the CPC bound is empirical for random streams: it is only checked on hashed streams, as a complete count over the stated grid (necessary condition for the documented 0.1%)".into(),
            "t-digest size is covered by C15".into(),
        ],
    )
}
