//! Theta-compact, Bloom, Count-Min and Frequent-Items binary layouts written from the
//! cross-language format description (DESIGN Appendix A): independent decoders and encoders.

fn need(b: &[u8], n: usize) -> Result<(), String> {
    if b.len() < n { Err(format!("image has {} bytes, needs at least {n}", b.len())) } else { Ok(()) }
}
fn u16le(b: &[u8], o: usize) -> u16 {
    u16::from_le_bytes([b[o], b[o + 1]])
}
fn u32le(b: &[u8], o: usize) -> u32 {
    u32::from_le_bytes(b[o..o + 4].try_into().unwrap())
}
fn u64le(b: &[u8], o: usize) -> u64 {
    u64::from_le_bytes(b[o..o + 8].try_into().unwrap())
}

// ------------------------------------------------------------------------------- theta

pub const T_READ_ONLY: u8 = 2;
pub const T_EMPTY: u8 = 4;
pub const T_COMPACT: u8 = 8;
pub const T_ORDERED: u8 = 16;
pub const T_SINGLE: u8 = 32;
pub const MAX_THETA: u64 = i64::MAX as u64;

#[derive(Clone, Debug, PartialEq)]
pub struct ThetaImage {
    pub ser_ver: u8,
    pub pre_longs: u8,
    pub flags: u8,
    pub seed_hash: u16,
    pub theta: u64,
    pub entries: Vec<u64>,
    pub empty: bool,
    pub ordered: bool,
    pub total_len: usize,
}

pub fn seed_hash(seed: u64) -> u16 {
    (crate::refhash::murmur3_x64_128(&seed.to_le_bytes(), 0).0 & 0xffff) as u16
}

/// MSB-first contiguous bit stream reader (the v4 delta packing).
fn read_bits(b: &[u8], bitpos: &mut usize, bits: u8) -> Result<u64, String> {
    let mut v = 0u64;
    for _ in 0..bits {
        let byte = *b.get(*bitpos >> 3).ok_or("delta stream truncated")?;
        let bit = (byte >> (7 - (*bitpos & 7))) & 1;
        v = (v << 1) | bit as u64;
        *bitpos += 1;
    }
    Ok(v)
}

fn write_bits(out: &mut Vec<u8>, bitpos: &mut usize, v: u64, bits: u8) {
    for i in (0..bits).rev() {
        if *bitpos >> 3 >= out.len() {
            out.push(0);
        }
        let bit = ((v >> i) & 1) as u8;
        out[*bitpos >> 3] |= bit << (7 - (*bitpos & 7));
        *bitpos += 1;
    }
}

pub fn theta_decode(b: &[u8]) -> Result<ThetaImage, String> {
    need(b, 8)?;
    let pre = b[0] & 0x3F;
    let ver = b[1];
    if b[2] != 3 {
        return Err(format!("family {}", b[2]));
    }
    match ver {
        3 => {
            let flags = b[5];
            let sh = u16le(b, 6);
            if flags & T_COMPACT == 0 {
                return Err("v3 image without the COMPACT flag".into());
            }
            let empty = flags & T_EMPTY != 0;
            let ordered = flags & T_ORDERED != 0;
            if empty {
                if pre != 1 {
                    return Err(format!("empty image with preLongs {pre}"));
                }
                return Ok(ThetaImage { ser_ver: 3, pre_longs: pre, flags, seed_hash: sh, theta: MAX_THETA, entries: vec![], empty: true, ordered, total_len: 8 });
            }
            match pre {
                1 => {
                    need(b, 16)?;
                    Ok(ThetaImage { ser_ver: 3, pre_longs: 1, flags, seed_hash: sh, theta: MAX_THETA, entries: vec![u64le(b, 8)], empty: false, ordered, total_len: 16 })
                }
                2 | 3 => {
                    need(b, 8 * pre as usize)?;
                    let n = u32le(b, 8) as usize;
                    let theta = if pre == 3 { u64le(b, 16) } else { MAX_THETA };
                    let off = 8 * pre as usize;
                    need(b, off + 8 * n)?;
                    let entries = (0..n).map(|i| u64le(b, off + 8 * i)).collect();
                    Ok(ThetaImage { ser_ver: 3, pre_longs: pre, flags, seed_hash: sh, theta, entries, empty: false, ordered, total_len: off + 8 * n })
                }
                p => Err(format!("v3 preLongs {p}")),
            }
        }
        4 => {
            let entry_bits = b[3];
            let neb = b[4] as usize;
            let flags = b[5];
            let sh = u16le(b, 6);
            if !(1..=2).contains(&pre) {
                return Err(format!("v4 preLongs {pre}"));
            }
            if entry_bits == 0 || entry_bits > 63 {
                return Err(format!("v4 entry bits {entry_bits}"));
            }
            if neb == 0 || neb > 4 {
                return Err(format!("v4 num_entries_bytes {neb}"));
            }
            let mut off = 8;
            let theta = if pre == 2 {
                need(b, 16)?;
                off = 16;
                u64le(b, 8)
            } else {
                MAX_THETA
            };
            need(b, off + neb)?;
            let mut n = 0usize;
            for i in 0..neb {
                n |= (b[off + i] as usize) << (8 * i);
            }
            off += neb;
            // minimal byte count for the entry count
            if neb > 1 && (n >> (8 * (neb - 1))) == 0 {
                return Err("v4 entry count not minimally encoded".into());
            }
            let stream = &b[off..];
            let mut entries = Vec::with_capacity(n);
            let mut prev = 0u64;
            // blocks of 8 deltas occupy entry_bits bytes each; the tail starts byte aligned,
            // so the whole stream is one contiguous MSB-first bit stream
            let mut bitpos = 0usize;
            for _ in 0..n {
                let d = read_bits(stream, &mut bitpos, entry_bits)?;
                prev = prev.wrapping_add(d);
                entries.push(prev);
            }
            let total = off + (n * entry_bits as usize).div_ceil(8);
            Ok(ThetaImage { ser_ver: 4, pre_longs: pre, flags, seed_hash: sh, theta, entries, empty: flags & T_EMPTY != 0, ordered: flags & T_ORDERED != 0, total_len: total })
        }
        v => Err(format!("decoder handles serial versions 3 and 4 only (the writer emits these); got {v}")),
    }
}

/// v3 image as Java/C++ write it.
pub fn theta_encode_v3(seed: u64, theta: u64, entries: &[u64], ordered: bool, empty: bool, single_item_flag: bool) -> Vec<u8> {
    let est = theta < MAX_THETA;
    let pre: u8 = if empty && !est { 1 } else if est { 3 } else if entries.len() == 1 { 1 } else { 2 };
    let mut flags = T_READ_ONLY | T_COMPACT;
    if empty {
        flags |= T_EMPTY;
    }
    if ordered {
        flags |= T_ORDERED;
    }
    if single_item_flag && pre == 1 && !empty {
        flags |= T_SINGLE;
    }
    let mut b = vec![pre, 3, 3, 0, 0, flags];
    b.extend(seed_hash(seed).to_le_bytes());
    if pre > 1 {
        b.extend((entries.len() as u32).to_le_bytes());
        b.extend(1.0f32.to_le_bytes()); // p, unused by compact readers
    }
    if pre > 2 {
        b.extend(theta.to_le_bytes());
    }
    if !(empty && pre == 1) {
        for e in entries {
            b.extend(e.to_le_bytes());
        }
    }
    b
}

/// v4 (compressed) image as C++/Java write it; entries must be sorted ascending, non-empty.
pub fn theta_encode_v4(seed: u64, theta: u64, entries: &[u64]) -> Vec<u8> {
    let est = theta < MAX_THETA;
    let mut ored = 0u64;
    let mut prev = 0u64;
    for &e in entries {
        ored |= e - prev;
        prev = e;
    }
    let bits = (64 - ored.leading_zeros()) as u8;
    let n = entries.len() as u32;
    let neb = ((32 - n.leading_zeros()).div_ceil(8)) as u8;
    let mut b = vec![if est { 2 } else { 1 }, 4, 3, bits, neb, T_READ_ONLY | T_COMPACT | T_ORDERED];
    b.extend(seed_hash(seed).to_le_bytes());
    if est {
        b.extend(theta.to_le_bytes());
    }
    for i in 0..neb {
        b.push((n >> (8 * i)) as u8);
    }
    let mut stream = vec![];
    let mut bitpos = 0;
    let mut prev = 0u64;
    for &e in entries {
        write_bits(&mut stream, &mut bitpos, e - prev, bits);
        prev = e;
    }
    b.extend(stream);
    b
}

/// Serial version 1 image (no seed hash, no flags, always ordered, preLongs 3).
pub fn theta_encode_v1(theta: u64, entries: &[u64]) -> Vec<u8> {
    let mut b = vec![3, 1, 3, 0, 0, 0, 0, 0];
    b.extend((entries.len() as u32).to_le_bytes());
    b.extend(1.0f32.to_le_bytes());
    b.extend(theta.to_le_bytes());
    for e in entries {
        b.extend(e.to_le_bytes());
    }
    b
}

/// Serial version 2 image: preLongs 1 (empty), 2 (exact), 3 (estimating); ordered.
pub fn theta_encode_v2(seed: u64, theta: u64, entries: &[u64], empty: bool) -> Vec<u8> {
    let est = theta < MAX_THETA;
    let pre: u8 = if empty && !est { 1 } else if est { 3 } else { 2 };
    let mut b = vec![pre, 2, 3, 0, 0, 0];
    b.extend(seed_hash(seed).to_le_bytes());
    if pre > 1 {
        b.extend((entries.len() as u32).to_le_bytes());
        b.extend(1.0f32.to_le_bytes());
    }
    if pre > 2 {
        b.extend(theta.to_le_bytes());
    }
    for e in entries {
        b.extend(e.to_le_bytes());
    }
    b
}

// ------------------------------------------------------------------------------- bloom

#[derive(Clone, Debug, PartialEq)]
pub struct BloomImage {
    pub num_hashes: u16,
    pub seed: u64,
    pub num_longs: u32,
    pub empty: bool,
    pub num_bits_set: u64,
    pub words: Vec<u64>,
    pub total_len: usize,
}

pub fn bloom_decode(b: &[u8]) -> Result<BloomImage, String> {
    need(b, 24)?;
    if b[1] != 1 || b[2] != 21 {
        return Err(format!("serVer {} family {}", b[1], b[2]));
    }
    let pre = b[0];
    let empty = b[3] & 4 != 0;
    let num_hashes = u16le(b, 4);
    let seed = u64le(b, 8);
    let nl = u32le(b, 16);
    if (nl as i32) <= 0 {
        return Err(format!("numLongs {nl}"));
    }
    if empty {
        if pre != 3 {
            return Err(format!("empty with preLongs {pre}"));
        }
        return Ok(BloomImage { num_hashes, seed, num_longs: nl, empty, num_bits_set: 0, words: vec![0; nl as usize], total_len: 24 });
    }
    if pre != 4 {
        return Err(format!("non-empty with preLongs {pre}"));
    }
    need(b, 32 + 8 * nl as usize)?;
    let nbs = u64le(b, 24);
    let words: Vec<u64> = (0..nl as usize).map(|i| u64le(b, 32 + 8 * i)).collect();
    Ok(BloomImage { num_hashes, seed, num_longs: nl, empty, num_bits_set: nbs, words, total_len: 32 + 8 * nl as usize })
}

pub fn bloom_encode(num_hashes: u16, seed: u64, words: &[u64], dirty_count: bool) -> Vec<u8> {
    let pop: u64 = words.iter().map(|w| w.count_ones() as u64).sum();
    let empty = pop == 0;
    let mut b = vec![if empty { 3 } else { 4 }, 1, 21, if empty { 4 } else { 0 }];
    b.extend(num_hashes.to_le_bytes());
    b.extend([0, 0]);
    b.extend(seed.to_le_bytes());
    b.extend((words.len() as u32).to_le_bytes());
    b.extend([0; 4]);
    if !empty {
        b.extend(if dirty_count { u64::MAX } else { pop }.to_le_bytes());
        for w in words {
            b.extend(w.to_le_bytes());
        }
    }
    b
}

// ------------------------------------------------------------------------------- count-min

#[derive(Clone, Debug, PartialEq)]
pub struct CmImage {
    pub num_buckets: u32,
    pub num_hashes: u8,
    pub seed_hash: u16,
    pub empty: bool,
    /// raw 8-byte little-endian fields (signed types are sign-extended to i64 by the writer)
    pub total: u64,
    pub table: Vec<u64>,
    pub total_len: usize,
}

pub fn cm_decode(b: &[u8]) -> Result<CmImage, String> {
    need(b, 16)?;
    if b[0] != 2 || b[1] != 1 || b[2] != 18 {
        return Err(format!("preLongs {} serVer {} family {}", b[0], b[1], b[2]));
    }
    let empty = b[3] & 1 != 0;
    let nb = u32le(b, 8);
    let nh = b[12];
    let sh = u16le(b, 13);
    let n = nb as usize * nh as usize;
    if empty {
        return Ok(CmImage { num_buckets: nb, num_hashes: nh, seed_hash: sh, empty, total: 0, table: vec![0; n], total_len: 16 });
    }
    need(b, 24 + 8 * n)?;
    Ok(CmImage { num_buckets: nb, num_hashes: nh, seed_hash: sh, empty, total: u64le(b, 16), table: (0..n).map(|i| u64le(b, 24 + 8 * i)).collect(), total_len: 24 + 8 * n })
}

pub fn cm_encode(num_buckets: u32, num_hashes: u8, seed: u64, total: u64, table: &[u64]) -> Vec<u8> {
    let empty = total == 0;
    let mut b = vec![2, 1, 18, if empty { 1 } else { 0 }, 0, 0, 0, 0];
    b.extend(num_buckets.to_le_bytes());
    b.push(num_hashes);
    b.extend(seed_hash(seed).to_le_bytes());
    b.push(0);
    if !empty {
        b.extend(total.to_le_bytes());
        for c in table {
            b.extend(c.to_le_bytes());
        }
    }
    b
}

// ------------------------------------------------------------------------------- frequent items

#[derive(Clone, Debug, PartialEq)]
pub enum FiItems {
    Longs(Vec<u64>),
    Strings(Vec<Vec<u8>>),
}

#[derive(Clone, Debug, PartialEq)]
pub struct FiImage {
    pub lg_max: u8,
    pub lg_cur: u8,
    pub empty: bool,
    pub stream_weight: u64,
    pub offset: u64,
    pub counts: Vec<u64>,
    pub items: FiItems,
    pub total_len: usize,
}

pub fn fi_decode(b: &[u8], strings: bool) -> Result<FiImage, String> {
    need(b, 8)?; // an empty sketch is one full preamble long
    let pre = b[0] & 0x3F;
    if b[1] != 1 || b[2] != 10 {
        return Err(format!("serVer {} family {}", b[1], b[2]));
    }
    let lg_max = b[3];
    let lg_cur = b[4];
    let empty = b[5] & 4 != 0;
    if empty {
        if pre != 1 {
            return Err(format!("empty with preLongs {pre}"));
        }
        return Ok(FiImage { lg_max, lg_cur, empty, stream_weight: 0, offset: 0, counts: vec![], items: if strings { FiItems::Strings(vec![]) } else { FiItems::Longs(vec![]) }, total_len: 8 });
    }
    if pre != 4 {
        return Err(format!("non-empty with preLongs {pre}"));
    }
    need(b, 32)?;
    let n = u32le(b, 8) as usize;
    let sw = u64le(b, 16);
    let off = u64le(b, 24);
    need(b, 32 + 8 * n)?;
    let counts: Vec<u64> = (0..n).map(|i| u64le(b, 32 + 8 * i)).collect();
    let mut p = 32 + 8 * n;
    let items = if strings {
        let mut v = vec![];
        for _ in 0..n {
            need(b, p + 4)?;
            let l = u32le(b, p) as usize;
            p += 4;
            need(b, p + l)?;
            v.push(b[p..p + l].to_vec());
            p += l;
        }
        FiItems::Strings(v)
    } else {
        need(b, p + 8 * n)?;
        let v = (0..n).map(|i| u64le(b, p + 8 * i)).collect();
        p += 8 * n;
        FiItems::Longs(v)
    };
    Ok(FiImage { lg_max, lg_cur, empty, stream_weight: sw, offset: off, counts, items, total_len: p })
}

/// `empty_flags`: the flag byte a foreign writer uses for an empty sketch (Java 4, C++ 5 / 1|4).
pub fn fi_encode(lg_max: u8, lg_cur: u8, stream_weight: u64, offset: u64, counts: &[u64], items: &FiItems, empty_flags: u8, pre_high_bits: u8) -> Vec<u8> {
    if counts.is_empty() && stream_weight == 0 {
        return vec![1 | pre_high_bits, 1, 10, lg_max, lg_cur, empty_flags, 0, 0];
    }
    let mut b = vec![4 | pre_high_bits, 1, 10, lg_max, lg_cur, 0, 0, 0];
    b.extend((counts.len() as u32).to_le_bytes());
    b.extend([0; 4]);
    b.extend(stream_weight.to_le_bytes());
    b.extend(offset.to_le_bytes());
    for c in counts {
        b.extend(c.to_le_bytes());
    }
    match items {
        FiItems::Longs(v) => {
            for x in v {
                b.extend(x.to_le_bytes());
            }
        }
        FiItems::Strings(v) => {
            for s in v {
                b.extend((s.len() as u32).to_le_bytes());
                b.extend(s);
            }
        }
    }
    b
}
