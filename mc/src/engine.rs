//! E1: explicit-state graph explorer over live real objects.
//! E2: deviation-bounded run enumerator.

use rayon::prelude::*;
use std::collections::HashMap;
use std::hash::Hash;

#[derive(Default, Debug, Clone)]
pub struct E1Stats {
    pub states: u64,
    pub transitions: u64,
    pub merged: u64,
    pub refused: u64,
    pub depth_completed: usize,
    pub cap_hit_at_depth: Option<usize>,
    pub per_depth: Vec<u64>,
}

/// What a step produced.
pub enum Step<S> {
    /// New state to continue from.
    Next(S),
    /// The model's precondition refused the op in this state (not a transition).
    Refused,
    /// The transition was executed but exploration must not continue below it
    /// (a violation was reported, or the state is terminal).
    Stop,
}

/// Breadth-first exploration from `starts` to depth `max_depth` over `ops`.
///
/// * `step(state, op, path)` executes ONE transition on a clone of the real object(s)
///   and checks the invariant on the successor (reporting violations itself).
/// * `key(state)` is the canonical key used for merging.
/// * `fingerprint(state)` is everything the property can observe about content; when a
///   key is reached a second time the fingerprints must agree, else `on_mismatch` is called
///   with both paths (the "state reached from elsewhere" differential oracle).
///
/// * `visit(state, path)` is called once per NEW (deduplicated) state: observers attach here.
///
/// Deterministic: the frontier is processed in (parent, op) order and the first arrival wins.
pub fn bfs<S, K, F, Op>(
    starts: Vec<(S, Vec<u16>)>,
    ops: &[Op],
    max_depth: usize,
    cap_states: usize,
    step: impl Fn(&S, &Op, &[u16]) -> Step<S> + Sync,
    key: impl Fn(&S) -> K + Sync,
    fingerprint: impl Fn(&S) -> F + Sync,
    on_mismatch: impl Fn(&[u16], &[u16]) + Sync,
    visit: impl Fn(&S, &[u16]) + Sync,
) -> E1Stats
where
    S: Send + Sync,
    K: Hash + Eq + Send + Clone,
    F: Eq + Send,
    Op: Sync,
{
    let mut stats = E1Stats::default();
    let mut seen: HashMap<K, (F, Vec<u16>)> = HashMap::new();
    let mut frontier: Vec<(S, Vec<u16>)> = vec![];
    for (s, p) in starts {
        let k = key(&s);
        if !seen.contains_key(&k) {
            seen.insert(k, (fingerprint(&s), p.clone()));
            frontier.push((s, p));
            stats.states += 1;
        }
    }
    stats.per_depth.push(frontier.len() as u64);
    for depth in 0..max_depth {
        if frontier.is_empty() {
            stats.depth_completed = depth;
            return stats;
        }
        // expand in parallel, keep (parent, op) order
        let results: Vec<Vec<(Option<(S, K, F)>, u16, bool)>> = frontier
            .par_iter()
            .map(|(s, path)| {
                let mut out = Vec::with_capacity(ops.len());
                for (oi, op) in ops.iter().enumerate() {
                    match step(s, op, path) {
                        Step::Next(n) => {
                            let k = key(&n);
                            let f = fingerprint(&n);
                            out.push((Some((n, k, f)), oi as u16, true));
                        }
                        Step::Refused => out.push((None, oi as u16, false)),
                        Step::Stop => out.push((None, oi as u16, true)),
                    }
                }
                out
            })
            .collect();
        let mut next: Vec<(S, Vec<u16>)> = vec![];
        let mut capped = false;
        for (pi, outs) in results.into_iter().enumerate() {
            for (succ, oi, executed) in outs {
                if executed {
                    stats.transitions += 1;
                } else {
                    stats.refused += 1;
                }
                let Some((n, k, f)) = succ else { continue };
                let mut path = frontier[pi].1.clone();
                path.push(oi);
                match seen.get(&k) {
                    Some((f0, p0)) => {
                        stats.merged += 1;
                        if *f0 != f {
                            on_mismatch(p0, &path);
                        }
                    }
                    None => {
                        if seen.len() >= cap_states {
                            capped = true;
                            continue;
                        }
                        seen.insert(k, (f, path.clone()));
                        stats.states += 1;
                        next.push((n, path));
                    }
                }
            }
        }
        stats.per_depth.push(next.len() as u64);
        next.par_iter().for_each(|(s, p)| visit(s, p));
        if capped {
            stats.cap_hit_at_depth = Some(depth + 1);
            stats.depth_completed = depth;
            return stats;
        }
        stats.depth_completed = depth + 1;
        frontier = next;
    }
    stats
}

/// Stateless depth-first enumeration of ALL op sequences up to `depth` (no merging),
/// sharing prefixes by cloning at each node. Parallel over the first `split` levels.
/// Returns (nodes visited == transitions executed, leaves).
pub fn dfs_all<S, Op>(
    init: &S,
    ops: &[Op],
    depth: usize,
    step: &(impl Fn(&S, &Op, &[u16]) -> Step<S> + Sync),
) -> (u64, u64)
where
    S: Send + Sync,
    Op: Sync,
{
    fn rec<S, Op>(
        s: &S,
        ops: &[Op],
        depth: usize,
        path: &mut Vec<u16>,
        step: &(impl Fn(&S, &Op, &[u16]) -> Step<S> + Sync),
    ) -> (u64, u64)
    where
        S: Send + Sync,
        Op: Sync,
    {
        if depth == 0 {
            return (0, 1);
        }
        let mut nodes = 0;
        let mut leaves = 0;
        for (oi, op) in ops.iter().enumerate() {
            match step(s, op, path) {
                Step::Next(n) => {
                    nodes += 1;
                    path.push(oi as u16);
                    let (a, b) = rec(&n, ops, depth - 1, path, step);
                    path.pop();
                    nodes += a;
                    leaves += b;
                }
                Step::Refused => {}
                Step::Stop => {
                    nodes += 1;
                    leaves += 1;
                }
            }
        }
        (nodes, leaves)
    }
    if depth == 0 {
        return (0, 1);
    }
    // parallel over the first two levels
    let firsts: Vec<(usize, usize)> = (0..ops.len())
        .flat_map(|a| (0..ops.len()).map(move |b| (a, b)))
        .collect();
    if depth == 1 {
        let mut path = vec![];
        return rec(init, ops, 1, &mut path, step);
    }
    // level-1 states computed once
    let lvl1: Vec<Option<S>> = ops
        .iter()
        .map(|op| match step(init, op, &[]) {
            Step::Next(n) => Some(n),
            _ => None,
        })
        .collect();
    let l1_nodes = lvl1.iter().filter(|x| x.is_some()).count() as u64;
    let (n, l) = firsts
        .par_iter()
        .map(|&(a, b)| {
            let Some(s1) = &lvl1[a] else { return (0, 0) };
            let mut path = vec![a as u16];
            match step(s1, &ops[b], &path) {
                Step::Next(s2) => {
                    path.push(b as u16);
                    let (x, y) = rec(&s2, ops, depth - 2, &mut path, step);
                    (x + 1, y)
                }
                Step::Refused => (0, 0),
                Step::Stop => (1, 1),
            }
        })
        .reduce(|| (0, 0), |x, y| (x.0 + y.0, x.1 + y.1));
    (n + l1_nodes, l)
}

#[derive(Default, Debug, Clone)]
pub struct E2Stats {
    pub executions: u64,
    pub steps: u64,
    pub bound: usize,
}

/// Deviation-bounded enumeration: every way of inserting at most `bound` deviation ops
/// (from `devs(pos, level)`) before positions of `run` (where `at(pos, level)` allows),
/// each execution running to completion. `apply(state, op, trace)` executes one op on the
/// real object and checks the invariant; it returns false to abandon the execution
/// (violation already reported).
pub fn deviations<S, Op>(
    init: &S,
    run: &[Op],
    bound: usize,
    devs: &(impl Fn(usize, usize, &S) -> Vec<Op> + Sync),
    at: &(impl Fn(usize, usize) -> bool + Sync),
    apply: &(impl Fn(&mut S, &Op, &[(usize, Op)], usize) -> bool + Sync),
) -> E2Stats
where
    S: Clone + Send + Sync,
    Op: Clone + Send + Sync,
{
    // returns (executions, steps)
    fn walk<S, Op>(
        mut s: S,
        run: &[Op],
        from: usize,
        level: usize,
        bound: usize,
        trace: &mut Vec<(usize, Op)>,
        devs: &(impl Fn(usize, usize, &S) -> Vec<Op> + Sync),
        at: &(impl Fn(usize, usize) -> bool + Sync),
        apply: &(impl Fn(&mut S, &Op, &[(usize, Op)], usize) -> bool + Sync),
    ) -> (u64, u64)
    where
        S: Clone + Send + Sync,
        Op: Clone + Send + Sync,
    {
        let mut execs = 0u64;
        let mut steps = 0u64;
        for pos in from..=run.len() {
            if level < bound && at(pos, level) {
                for d in devs(pos, level, &s) {
                    let mut c = s.clone();
                    trace.push((pos, d.clone()));
                    steps += 1;
                    if apply(&mut c, &d, trace, pos) {
                        let (e, st) = walk(c, run, pos, level + 1, bound, trace, devs, at, apply);
                        execs += e;
                        steps += st;
                    } else {
                        execs += 1;
                    }
                    trace.pop();
                }
            }
            if pos < run.len() {
                steps += 1;
                if !apply(&mut s, &run[pos], trace, pos) {
                    return (execs + 1, steps);
                }
            }
        }
        (execs + 1, steps)
    }

    let mut stats = E2Stats { bound, ..Default::default() };
    if bound == 0 {
        let mut tr = vec![];
        let (e, st) = walk(init.clone(), run, 0, 0, 0, &mut tr, devs, at, apply);
        stats.executions = e;
        stats.steps = st;
        return stats;
    }
    // default run once, remembering nothing; then one parallel task per first-deviation position
    {
        let mut tr = vec![];
        let (e, st) = walk(init.clone(), run, 0, 0, 0, &mut tr, devs, at, apply);
        stats.executions += e;
        stats.steps += st;
    }
    let positions: Vec<usize> = (0..=run.len()).filter(|&p| at(p, 0)).collect();
    // prefix states at those positions (sequential pass, cloning only where needed)
    let mut prefix: Vec<(usize, S)> = Vec::with_capacity(positions.len());
    {
        let mut s = init.clone();
        let mut pi = 0;
        for pos in 0..=run.len() {
            if pi < positions.len() && positions[pi] == pos {
                prefix.push((pos, s.clone()));
                pi += 1;
            }
            if pos < run.len() && !apply(&mut s, &run[pos], &[], pos) {
                break;
            }
        }
    }
    let (e, st) = prefix
        .par_iter()
        .map(|(pos, s)| {
            let mut execs = 0u64;
            let mut steps = 0u64;
            let mut trace: Vec<(usize, Op)> = vec![];
            for d in devs(*pos, 0, s) {
                let mut c = s.clone();
                trace.push((*pos, d.clone()));
                steps += 1;
                if apply(&mut c, &d, &trace, *pos) {
                    let (e, st) = walk(c, run, *pos, 1, bound, &mut trace, devs, at, apply);
                    execs += e;
                    steps += st;
                } else {
                    execs += 1;
                }
                trace.pop();
            }
            (execs, steps)
        })
        .reduce(|| (0, 0), |a, b| (a.0 + b.0, a.1 + b.1));
    stats.executions += e;
    stats.steps += st;
    stats
}
