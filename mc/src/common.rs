//! Shared plumbing: tiers, violation reporting with known findings, replay files,
//! evidence files, panic capture.

use serde_json::{Value, json};
use std::cell::RefCell;
use std::collections::BTreeMap;
use std::panic::{AssertUnwindSafe, catch_unwind};
use std::sync::Mutex;
use std::sync::atomic::{AtomicU64, Ordering};
use std::time::Instant;

pub const VERIF_ROOT: &str = "/verif";

#[derive(Clone, Copy, PartialEq, Eq, Debug)]
pub enum Tier {
    Quick,
    Thorough,
}

impl Tier {
    pub fn name(self) -> &'static str {
        match self {
            Tier::Quick => "quick",
            Tier::Thorough => "thorough",
        }
    }
    pub fn pick<T>(self, q: T, t: T) -> T {
        match self {
            Tier::Quick => q,
            Tier::Thorough => t,
        }
    }
}

#[derive(Clone, Debug)]
pub struct PanicInfo {
    pub message: String,
    pub file: String,
    pub line: u32,
}

impl PanicInfo {
    /// A key that survives unrelated edits: file + normalised message (digits removed).
    pub fn site_key(&self) -> String {
        let norm: String = self
            .message
            .chars()
            .map(|c| if c.is_ascii_digit() { '#' } else { c })
            .collect();
        let mut out = String::new();
        let mut last_hash = false;
        for c in norm.chars() {
            if c == '#' {
                if !last_hash {
                    out.push('#');
                }
                last_hash = true;
            } else {
                out.push(c);
                last_hash = false;
            }
        }
        let short: String = out.chars().take(90).collect();
        let file = self.file.rsplit("datasketches/src/").next().unwrap_or(&self.file);
        format!("{}|{}", file, short)
    }
    pub fn in_library(&self) -> bool {
        self.file.contains("datasketches/src/")
    }
}

thread_local! {
    static LAST_PANIC: RefCell<Option<PanicInfo>> = const { RefCell::new(None) };
    static QUIET: RefCell<bool> = const { RefCell::new(false) };
}

/// Set as soon as a VIOLATION line has been printed (see `main`).
pub static VIOLATION_PRINTED: std::sync::atomic::AtomicBool = std::sync::atomic::AtomicBool::new(false);

/// Fallback for panics that happened on another (rayon worker) thread and were re-thrown.
static LAST_PANIC_ANY_THREAD: std::sync::Mutex<Option<PanicInfo>> = std::sync::Mutex::new(None);

/// The most recent panic on any thread (used by `main` when a panic escapes a check).
pub fn last_panic_any_thread() -> Option<PanicInfo> {
    LAST_PANIC_ANY_THREAD.lock().ok().and_then(|g| g.clone())
}

pub fn install_panic_hook() {
    let default = std::panic::take_hook();
    std::panic::set_hook(Box::new(move |info| {
        let msg = if let Some(s) = info.payload().downcast_ref::<&str>() {
            s.to_string()
        } else if let Some(s) = info.payload().downcast_ref::<String>() {
            s.clone()
        } else {
            "<non-string panic payload>".to_string()
        };
        let (file, line) = info
            .location()
            .map(|l| (l.file().to_string(), l.line()))
            .unwrap_or_default();
        if let Ok(mut g) = LAST_PANIC_ANY_THREAD.lock() {
            *g = Some(PanicInfo { message: msg.clone(), file: file.clone(), line });
        }
        LAST_PANIC.with(|p| {
            *p.borrow_mut() = Some(PanicInfo {
                message: msg,
                file,
                line,
            })
        });
        let quiet = QUIET.with(|q| *q.borrow());
        if !quiet {
            default(info);
        }
    }));
}

/// Runs `f`, converting a panic into `Err(PanicInfo)`; the default panic message is suppressed.
pub fn catch<T>(f: impl FnOnce() -> T) -> Result<T, PanicInfo> {
    QUIET.with(|q| *q.borrow_mut() = true);
    LAST_PANIC.with(|p| *p.borrow_mut() = None);
    let r = catch_unwind(AssertUnwindSafe(f));
    QUIET.with(|q| *q.borrow_mut() = false);
    match r {
        Ok(v) => Ok(v),
        Err(_) => Err(LAST_PANIC.with(|p| p.borrow_mut().take()).or_else(|| LAST_PANIC_ANY_THREAD.lock().ok().and_then(|g| g.clone())).unwrap_or(PanicInfo {
            message: "<unknown panic>".into(),
            file: String::new(),
            line: 0,
        })),
    }
}

fn fnv(s: &str) -> u64 {
    let mut h = 0xcbf29ce484222325u64;
    for b in s.bytes() {
        h ^= b as u64;
        h = h.wrapping_mul(0x100000001b3);
    }
    h
}

pub struct KnownFinding {
    pub property: String,
    pub key: String,
    pub what: String,
}

pub fn load_known_findings() -> Vec<KnownFinding> {
    let path = format!("{VERIF_ROOT}/known_findings.json");
    let Ok(txt) = std::fs::read_to_string(&path) else {
        return vec![];
    };
    let v: Value = match serde_json::from_str(&txt) {
        Ok(v) => v,
        Err(e) => {
            eprintln!("machinery error: cannot parse {path}: {e}");
            std::process::exit(2);
        }
    };
    let mut out = vec![];
    if let Some(arr) = v.get("findings").and_then(|f| f.as_array()) {
        for f in arr {
            out.push(KnownFinding {
                property: f["property"].as_str().unwrap_or("").to_string(),
                key: f["key"].as_str().unwrap_or("").to_string(),
                what: f["what"].as_str().unwrap_or("").to_string(),
            });
        }
    }
    out
}

struct VioRec {
    count: u64,
    what: String,
    replay: String,
}

/// One run of one property check.
pub struct Ctx {
    pub prop: String,
    pub tier: Tier,
    pub seed: u64,
    pub start: Instant,
    known: Vec<KnownFinding>,
    vios: Mutex<BTreeMap<String, VioRec>>,
    known_seen: Mutex<BTreeMap<String, u64>>,
    pub notes: Mutex<Vec<String>>,
    pub counters: Mutex<BTreeMap<String, u64>>,
    pub edges: Mutex<BTreeMap<String, u64>>,
    pub samples: Mutex<Vec<Value>>,
    pub states: AtomicU64,
    pub transitions: AtomicU64,
    /// Which violation keys this check reports (explorers are shared between properties;
    /// e.g. C17 only reports `panic|...` keys, C01 only `*.bounds.*`).
    pub filter: fn(&str) -> bool,
    /// Observer runs (C11/C12/C17/C18) drive the family explorers at reduced bounds.
    pub reduced: bool,
}

fn accept_all(_: &str) -> bool {
    true
}

impl Ctx {
    pub fn new(prop: &str, tier: Tier) -> Self {
        let seed = std::env::var("VERIF_SEED")
            .ok()
            .and_then(|s| s.parse::<u64>().ok())
            .unwrap_or(0);
        Ctx {
            prop: prop.to_string(),
            tier,
            seed,
            start: Instant::now(),
            known: load_known_findings(),
            vios: Mutex::new(BTreeMap::new()),
            known_seen: Mutex::new(BTreeMap::new()),
            notes: Mutex::new(vec![]),
            counters: Mutex::new(BTreeMap::new()),
            edges: Mutex::new(BTreeMap::new()),
            samples: Mutex::new(vec![]),
            states: AtomicU64::new(0),
            transitions: AtomicU64::new(0),
            filter: accept_all,
            reduced: false,
        }
    }

    pub fn reduced(mut self) -> Self {
        self.reduced = true;
        self
    }

    pub fn with_filter(mut self, f: fn(&str) -> bool) -> Self {
        self.filter = f;
        self
    }

    pub fn add_states(&self, n: u64) {
        self.states.fetch_add(n, Ordering::Relaxed);
    }
    pub fn add_transitions(&self, n: u64) {
        self.transitions.fetch_add(n, Ordering::Relaxed);
    }
    pub fn count(&self, name: &str, n: u64) {
        *self.counters.lock().unwrap().entry(name.to_string()).or_insert(0) += n;
    }
    pub fn edge(&self, name: &str) {
        *self.edges.lock().unwrap().entry(name.to_string()).or_insert(0) += 1;
    }
    pub fn edges_merge(&self, m: &BTreeMap<String, u64>) {
        let mut e = self.edges.lock().unwrap();
        for (k, v) in m {
            *e.entry(k.clone()).or_insert(0) += v;
        }
    }
    pub fn note(&self, s: impl Into<String>) {
        self.notes.lock().unwrap().push(s.into());
    }
    /// Keep at most `cap` samples.
    pub fn sample(&self, v: Value) {
        let mut s = self.samples.lock().unwrap();
        if s.len() < 12 {
            s.push(v);
        }
    }

    /// Reports a violation of this check's property (or of `prop_override`).
    /// `key` identifies the defect (site/shape), `what` is a one-line description,
    /// `replay` is a self-contained JSON description of the failing case.
    /// Returns true if this is a NEW violation (not filtered, not a listed known finding):
    /// explorers stop an execution on a new violation but continue past known findings.
    pub fn violation(&self, key: &str, what: &str, replay: Value) -> bool {
        self.violation_for(&self.prop.clone(), key, what, replay)
    }

    pub fn violation_for(&self, prop: &str, key: &str, what: &str, replay: Value) -> bool {
        if !(self.filter)(key) {
            return false;
        }
        if let Some(k) = self
            .known
            .iter()
            .find(|k| k.property == prop && k.key == key)
        {
            let mut seen = self.known_seen.lock().unwrap();
            let e = seen.entry(format!("{prop}\u{1}{key}\u{1}{}", k.what)).or_insert(0);
            *e += 1;
            return false;
        }
        let full = format!("{prop}\u{1}{key}");
        let mut v = self.vios.lock().unwrap();
        if let Some(r) = v.get_mut(&full) {
            r.count += 1;
            return true;
        }
        let dir = format!("{VERIF_ROOT}/replays/{prop}");
        let _ = std::fs::create_dir_all(&dir);
        let path = format!("{dir}/{:016x}.json", fnv(&full));
        let body = json!({
            "property": prop,
            "check": self.prop,
            "key": key,
            "what": what,
            "tier": self.tier.name(),
            "case": replay,
        });
        let _ = std::fs::write(&path, serde_json::to_string_pretty(&body).unwrap());
        if v.len() < 40 {
            VIOLATION_PRINTED.store(true, std::sync::atomic::Ordering::SeqCst);
            println!("VIOLATION property={prop} replay={path}");
            println!("  key: {key}");
            println!("  what: {what}");
        }
        v.insert(
            full,
            VioRec {
                count: 1,
                what: what.to_string(),
                replay: path,
            },
        );
        true
    }

    pub fn num_violations(&self) -> usize {
        self.vios.lock().unwrap().len()
    }

    /// Child mode (C17's second build): print a machine-readable summary instead of
    /// writing the evidence file; the parent process merges it.
    pub fn finish_child(&self) -> i32 {
        let vios = self.vios.lock().unwrap();
        let seen = self.known_seen.lock().unwrap();
        let vio_list: Vec<Value> = vios
            .iter()
            .map(|(k, r)| {
                let parts: Vec<&str> = k.split('\u{1}').collect();
                json!({"property": parts[0], "key": parts[1], "what": r.what, "occurrences": r.count, "replay": r.replay})
            })
            .collect();
        let known: Vec<Value> = seen
            .iter()
            .map(|(k, n)| {
                let parts: Vec<&str> = k.split('\u{1}').collect();
                json!({"property": parts[0], "key": parts[1], "what": parts[2], "occurrences": n})
            })
            .collect();
        let out = json!({
            "states": self.states.load(Ordering::Relaxed),
            "transitions": self.transitions.load(Ordering::Relaxed),
            "counters": self.counters.lock().unwrap().clone(),
            "edges": self.edges.lock().unwrap().clone(),
            "violations": vio_list,
            "known": known,
            "wall_s": self.start.elapsed().as_secs_f64(),
        });
        println!("CHILD_RESULT {}", serde_json::to_string(&out).unwrap());
        if vios.is_empty() { 0 } else { 1 }
    }

    /// Registers a known finding seen by a child process.
    pub fn note_known(&self, prop: &str, key: &str, what: &str, n: u64) {
        *self.known_seen.lock().unwrap().entry(format!("{prop}\u{1}{key}\u{1}{what}")).or_insert(0) += n;
    }

    /// Registers a violation already reported (and replay-filed) by a child process.
    pub fn adopt_violation(&self, prop: &str, key: &str, what: &str, replay: &str, n: u64) {
        let full = format!("{prop}\u{1}{key}");
        let mut v = self.vios.lock().unwrap();
        v.entry(full).or_insert(VioRec { count: 0, what: what.to_string(), replay: replay.to_string() }).count += n;
    }

    /// Writes the evidence file and returns the process exit code.
    pub fn finish(&self, mut coverage: Value, assumptions: Vec<String>) -> i32 {
        let vios = self.vios.lock().unwrap();
        let seen = self.known_seen.lock().unwrap();
        let mut known_list = vec![];
        for (k, n) in seen.iter() {
            let parts: Vec<&str> = k.split('\u{1}').collect();
            println!("KNOWN-FINDING: property={} {} [key={}; {} occurrences]", parts[0], parts[2], parts[1], n);
            known_list.push(json!({"property": parts[0], "key": parts[1], "what": parts[2], "occurrences": n}));
        }
        let states = self.states.load(Ordering::Relaxed);
        let transitions = self.transitions.load(Ordering::Relaxed);
        let samples = self.samples.lock().unwrap().clone();
        let cov = coverage.as_object_mut().expect("coverage must be an object");
        if !cov.contains_key("states") {
            cov.insert("states".into(), json!(states));
        }
        if !cov.contains_key("transitions") {
            cov.insert("transitions".into(), json!(transitions));
        }
        if !cov.contains_key("traces_validated_against_impl") {
            cov.insert("traces_validated_against_impl".into(), json!(transitions));
        }
        if !cov.contains_key("samples") {
            cov.insert("samples".into(), json!(samples));
        }
        cov.insert(
            "counters".into(),
            json!(self.counters.lock().unwrap().clone()),
        );
        cov.insert(
            "edges_covered".into(),
            json!(self.edges.lock().unwrap().clone()),
        );
        cov.insert("notes".into(), json!(self.notes.lock().unwrap().clone()));
        cov.insert("known_findings_seen".into(), json!(known_list));
        let vio_list: Vec<Value> = vios
            .iter()
            .map(|(k, r)| {
                let parts: Vec<&str> = k.split('\u{1}').collect();
                json!({"property": parts[0], "key": parts[1], "what": r.what, "occurrences": r.count, "replay": r.replay})
            })
            .collect();
        cov.insert("violations_detail".into(), json!(vio_list));
        let ev = json!({
            "property_id": self.prop,
            "tier": self.tier.name(),
            "seed": self.seed,
            "level": "model_checking",
            "coverage": coverage,
            "assumptions": assumptions,
            "wall_s": self.start.elapsed().as_secs_f64(),
            "violations": vios.len(),
        });
        let dir = format!("{VERIF_ROOT}/evidence");
        let _ = std::fs::create_dir_all(&dir);
        let path = format!("{dir}/{}.json", self.prop);
        if let Err(e) = std::fs::write(&path, serde_json::to_string_pretty(&ev).unwrap()) {
            eprintln!("machinery error: cannot write {path}: {e}");
            return 2;
        }
        println!(
            "{}: tier={} states={} transitions={} violations={} known_findings_seen={} wall={:.1}s",
            self.prop,
            self.tier.name(),
            ev["coverage"]["states"],
            ev["coverage"]["transitions"],
            vios.len(),
            seen.len(),
            self.start.elapsed().as_secs_f64()
        );
        if vios.len() > 40 {
            println!("({} further distinct violations not printed; see evidence)", vios.len() - 40);
        }
        if vios.is_empty() { 0 } else { 1 }
    }
}

pub fn hex(bytes: &[u8]) -> String {
    let mut s = String::with_capacity(bytes.len() * 2);
    for b in bytes {
        s.push_str(&format!("{:02x}", b));
    }
    s
}

pub fn unhex(s: &str) -> Vec<u8> {
    (0..s.len() / 2)
        .map(|i| u8::from_str_radix(&s[2 * i..2 * i + 2], 16).unwrap())
        .collect()
}

/// Deterministic splitmix64, used only to rotate exploration order / pick printed samples.
pub fn splitmix(x: &mut u64) -> u64 {
    *x = x.wrapping_add(0x9E3779B97F4A7C15);
    let mut z = *x;
    z = (z ^ (z >> 30)).wrapping_mul(0xBF58476D1CE4E5B9);
    z = (z ^ (z >> 27)).wrapping_mul(0x94D049BB133111EB);
    z ^ (z >> 31)
}
