//! C11 for the hook-less families (Bloom, Count-Min, Frequent Items, t-digest).
use crate::common::Ctx;
use crate::obs;
use rayon::prelude::*;

pub fn run(ctx: &Ctx) {
    let jobs: Vec<Box<dyn Fn() + Sync + Send>> = vec![
        Box::new(|| crate::c07::explore(ctx, &obs::fi_roundtrip)),
        Box::new(|| crate::c08::explore(ctx, &obs::cm_roundtrip)),
        Box::new(|| crate::c09::explore(ctx, &obs::bloom_roundtrip)),
        Box::new(|| crate::c10::explore(ctx, &obs::td_roundtrip)),
        Box::new(|| fi_u64_and_strings(ctx)),
    ];
    jobs.par_iter().for_each(|j| j());
}

// ------------------------------------------------------------------------------------------
// Frequent Items with u64 and String items: the i64 explorer above cannot reach these
// deserialize/serialize instantiations, so a finite family of histories is enumerated here.

use crate::common::catch;
use crate::spec_misc::{self, FiItems};
use datasketches::frequencies::{ErrorType, FrequentItemsSketch};
use serde_json::{Value, json};
use std::collections::BTreeMap;

/// A history is a list of (item index, weight); item values come from the per-type domain.
fn fi_histories(size: usize) -> Vec<(&'static str, Vec<(usize, u64)>)> {
    let cap = size * 3 / 4;
    let mut v: Vec<(&'static str, Vec<(usize, u64)>)> = vec![];
    v.push(("empty", vec![]));
    v.push(("one item", vec![(0, 1)]));
    v.push(("one heavy item", vec![(1, 1u64 << 40)]));
    for (name, n) in [("capacity-1 distinct", cap.saturating_sub(1)), ("capacity distinct", cap), ("capacity+1 distinct (purge)", cap + 1), ("3x capacity distinct", 3 * cap)] {
        v.push((name, (0..n).map(|i| (i, 1 + (i as u64 % 3))).collect()));
    }
    v.push(("heavy hitters among noise", (0..4 * cap).map(|i| if i % 3 == 0 { (i % 2, 50) } else { (2 + i, 1) }).collect()));
    v.push(("purged to nothing", (0..cap + 1).map(|i| (i, 1)).collect()));
    v.push(("repeats only", (0..40).map(|i| (i % 3, 7)).collect()));
    v
}

fn fi_typed<T>(ctx: &Ctx, tname: &str, strings: bool, item: &(dyn Fn(usize) -> T + Sync), enc: &(dyn Fn(&T) -> Vec<u8> + Sync)) -> u64
where
    T: Clone + Eq + std::hash::Hash + Ord + std::fmt::Debug + Send + Sync,
    FrequentItemsSketch<T>: FiCodec<T>,
{
    let mut n = 0u64;
    for size in [8usize, 16, 64, 512] {
        for (hname, hist) in fi_histories(size) {
            for via_merge in [false, true] {
                n += 1;
                let mk = || json!({"kind":"fi_typed","items":tname,"size":size,"history":hname,"via_merge":via_merge});
                let r = catch(|| {
                    let mut s = FrequentItemsSketch::<T>::new(size);
                    let mut truth: BTreeMap<T, u64> = BTreeMap::new();
                    let (first, second) = hist.split_at(if via_merge { hist.len() / 2 } else { hist.len() });
                    for &(i, w) in first {
                        s.update_with_count(item(i), w);
                        *truth.entry(item(i)).or_insert(0) += w;
                    }
                    if via_merge {
                        let mut o = FrequentItemsSketch::<T>::new(size);
                        for &(i, w) in second {
                            o.update_with_count(item(i), w);
                            *truth.entry(item(i)).or_insert(0) += w;
                        }
                        s.merge(&o);
                    }
                    (s, truth)
                });
                let (s, truth) = match r {
                    Ok(x) => x,
                    Err(p) => {
                        ctx.violation(&format!("panic|{}", p.site_key()), &format!("FI<{tname}> history panicked: {}", p.message), mk());
                        continue;
                    }
                };
                let img = match catch(|| s.ser()) {
                    Ok(b) => b,
                    Err(p) => {
                        ctx.violation(&format!("panic|{}", p.site_key()), &format!("FI<{tname}> serialize panicked: {}", p.message), mk());
                        continue;
                    }
                };
                let with_img = || {
                    let mut v = mk();
                    v["image_hex"] = Value::String(crate::common::hex(&img[..img.len().min(4096)]));
                    v
                };
                // independent decode: the image holds exactly the active rows
                match spec_misc::fi_decode(&img, strings) {
                    Err(e) => {
                        ctx.violation(&format!("fi.{tname}.image.undecodable"), &format!("own image does not follow the layout: {e}"), with_img());
                        continue;
                    }
                    Ok(im) => {
                        let tw: u64 = truth.values().sum();
                        let rows: Vec<Vec<u8>> = match &im.items {
                            FiItems::Longs(v) => v.iter().map(|x| x.to_le_bytes().to_vec()).collect(),
                            FiItems::Strings(v) => v.clone(),
                        };
                        let mut bad = None;
                        if im.total_len != img.len() {
                            bad = Some(format!("{} trailing bytes", img.len() - im.total_len));
                        } else if im.empty != (tw == 0) || (!im.empty && im.stream_weight != tw) {
                            bad = Some(format!("stream weight {} / empty {} but {tw} was offered", im.stream_weight, im.empty));
                        } else if rows.len() != s.num_active_items() {
                            bad = Some(format!("{} rows but {} active items", rows.len(), s.num_active_items()));
                        } else {
                            for (x, &tv) in truth.iter() {
                                let key = enc(x);
                                let pos = rows.iter().position(|r| *r == key);
                                let (lb, ub) = (s.lower_bound(x), s.upper_bound(x));
                                match pos {
                                    Some(p) => {
                                        if im.counts[p] != lb || im.counts[p] + im.offset != ub {
                                            bad = Some(format!("row {:?}: count {} offset {} but bounds [{lb},{ub}]", x, im.counts[p], im.offset));
                                        }
                                    }
                                    None => {
                                        if lb != 0 || ub != im.offset {
                                            bad = Some(format!("untracked {:?}: bounds [{lb},{ub}] with offset {}", x, im.offset));
                                        }
                                    }
                                }
                                if lb > tv || ub < tv {
                                    bad = Some(format!("item {:?}: bounds [{lb},{ub}] do not bracket the exact count {tv}", x));
                                }
                            }
                        }
                        if let Some(w) = bad {
                            ctx.violation(&format!("fi.{tname}.image.state"), &format!("FI<{tname}> size {size} {hname}: {w}"), with_img());
                            continue;
                        }
                    }
                }
                // round trip
                let d = match catch(|| FrequentItemsSketch::<T>::de(&img)) {
                    Err(p) => {
                        ctx.violation(&format!("panic|{}", p.site_key()), &format!("FI<{tname}> deserialize of own image panicked: {}", p.message), with_img());
                        continue;
                    }
                    Ok(Err(e)) => {
                        ctx.violation(&format!("fi.{tname}.roundtrip.rejected"), &format!("deserialize(serialize(s)) fails: {e}"), with_img());
                        continue;
                    }
                    Ok(Ok(d)) => d,
                };
                let obs = |k: &FrequentItemsSketch<T>| {
                    let mut q: Vec<(u64, u64, u64)> = truth.keys().map(|x| (k.estimate(x), k.lower_bound(x), k.upper_bound(x))).collect();
                    let unseen = item(1_000_003);
                    q.push((k.estimate(&unseen), k.lower_bound(&unseen), k.upper_bound(&unseen)));
                    let rows = |e: ErrorType| {
                        let mut r: Vec<(T, u64, u64, u64)> = k.frequent_items(e).iter().map(|r| (r.item().clone(), r.estimate(), r.lower_bound(), r.upper_bound())).collect();
                        r.sort();
                        r
                    };
                    (k.total_weight(), k.maximum_error(), k.num_active_items(), k.is_empty(), k.lg_max_map_size(), k.maximum_map_capacity(), q, rows(ErrorType::NoFalsePositives), rows(ErrorType::NoFalseNegatives))
                };
                match catch(|| (obs(&s), obs(&d))) {
                    Err(p) => {
                        ctx.violation(&format!("panic|{}", p.site_key()), &format!("FI<{tname}> queries panicked: {}", p.message), with_img());
                        continue;
                    }
                    Ok((a, b)) => {
                        if a != b {
                            ctx.violation(&format!("fi.{tname}.roundtrip.queries"), &format!("FI<{tname}> size {size} {hname}: queries differ after a round trip (total {} vs {}, max_error {} vs {}, active {} vs {})", a.0, b.0, a.1, b.1, a.2, b.2), with_img());
                            continue;
                        }
                    }
                }
                // re-serialization encodes the same rows
                let again = d.ser();
                let norm = |b: &[u8]| spec_misc::fi_decode(b, strings).ok().map(|im| {
                    let rows: Vec<Vec<u8>> = match &im.items {
                        FiItems::Longs(v) => v.iter().map(|x| x.to_le_bytes().to_vec()).collect(),
                        FiItems::Strings(v) => v.clone(),
                    };
                    let mut z: Vec<(Vec<u8>, u64)> = rows.into_iter().zip(im.counts.iter().copied()).collect();
                    z.sort();
                    (im.lg_max, im.empty, im.stream_weight, im.offset, z)
                });
                if norm(&again).is_none() || norm(&again) != norm(&img) {
                    ctx.violation(&format!("fi.{tname}.roundtrip.reserialize"), &format!("FI<{tname}> size {size} {hname}: re-serialized image encodes a different state"), with_img());
                    continue;
                }
                // long continuation on the restored sketch keeps bracketing the exact counts
                let r = catch(|| {
                    let mut dd = d;
                    let mut t2 = truth.clone();
                    for i in 0..(2 * size + 8).min(400) {
                        let x = item(5000 + i % (size + 3));
                        dd.update_with_count(x.clone(), 1 + (i as u64 % 2));
                        *t2.entry(x).or_insert(0) += 1 + (i as u64 % 2);
                    }
                    let tw: u64 = t2.values().sum();
                    if dd.total_weight() != tw {
                        return Some(format!("total_weight {} but exact {tw}", dd.total_weight()));
                    }
                    for (x, &tv) in t2.iter() {
                        let (lb, ub) = (dd.lower_bound(x), dd.upper_bound(x));
                        if lb > tv || ub < tv || ub - lb > dd.maximum_error() {
                            return Some(format!("item {:?}: [{lb},{ub}] max_error {} exact {tv}", x, dd.maximum_error()));
                        }
                    }
                    None
                });
                match r {
                    Err(p) => {
                        ctx.violation(&format!("panic|{}", p.site_key()), &format!("FI<{tname}> continuation panicked: {}", p.message), with_img());
                    }
                    Ok(Some(w)) => {
                        ctx.violation(&format!("fi.{tname}.roundtrip.long_continuation"), &format!("FI<{tname}> size {size} {hname}: after more updates on the restored sketch: {w}"), with_img());
                    }
                    Ok(None) => {}
                }
            }
        }
    }
    n
}

/// serialize/deserialize are inherent per-type methods; this trait lets `fi_typed` be generic
pub trait FiCodec<T> {
    fn ser(&self) -> Vec<u8>;
    fn de(b: &[u8]) -> Result<FrequentItemsSketch<T>, datasketches::error::Error>;
}
impl FiCodec<u64> for FrequentItemsSketch<u64> {
    fn ser(&self) -> Vec<u8> {
        self.serialize()
    }
    fn de(b: &[u8]) -> Result<Self, datasketches::error::Error> {
        Self::deserialize(b)
    }
}
impl FiCodec<String> for FrequentItemsSketch<String> {
    fn ser(&self) -> Vec<u8> {
        self.serialize()
    }
    fn de(b: &[u8]) -> Result<Self, datasketches::error::Error> {
        Self::deserialize(b)
    }
}

pub fn fi_u64_and_strings(ctx: &Ctx) {
    // u64 items beyond the i64 range and String items of awkward shapes
    let u = |i: usize| -> u64 {
        match i % 5 {
            0 => i as u64,
            1 => u64::MAX - i as u64,
            2 => (1u64 << 63) + i as u64,
            3 => (i as u64) << 32,
            _ => (i as u64).wrapping_mul(0x9E37_79B9_7F4A_7C15),
        }
    };
    let n1 = fi_typed::<u64>(ctx, "u64", false, &u, &|x: &u64| x.to_le_bytes().to_vec());
    let s = |i: usize| -> String {
        match i % 6 {
            0 if i == 0 => String::new(),
            0 => format!("item{i}"),
            1 => "x".repeat(1 + i % 300),
            2 => format!("é{i}ü漢字"),
            3 => format!("{i}\u{0}nul"),
            4 => format!("{}", i as u64 * 0x1_0000_0001),
            _ => format!(" {i} "),
        }
    };
    let n2 = fi_typed::<String>(ctx, "String", true, &s, &|x: &String| x.as_bytes().to_vec());
    // every constructor-accepted map size (any power of two): the sketch's own image must be
    // readable and answer the same
    let mut n3 = 0u64;
    for lg in 0..usize::BITS {
        n3 += 1;
        let mk = || json!({"kind":"fi_size","max_map_size_lg":lg});
        let r = catch(|| {
            let mut s = FrequentItemsSketch::<i64>::new(1usize << lg);
            for i in 0..30 {
                s.update_with_count(i % 11, 1 + (i as u64 % 3));
            }
            let img = s.serialize();
            let d = FrequentItemsSketch::<i64>::deserialize(&img);
            (s, img, d)
        });
        match r {
            Err(p) => {
                ctx.violation(&format!("panic|{}", p.site_key()), &format!("FrequentItemsSketch::new(1 << {lg}) history panicked: {}", p.message), mk());
            }
            Ok((_, img, Err(e))) => {
                let mut v = mk();
                v["image_hex"] = Value::String(crate::common::hex(&img));
                ctx.violation("fi.roundtrip.rejected.map_size", &format!("new(1 << {lg}): deserialize(serialize(s)) fails: {e}"), v);
            }
            Ok((s, _, Ok(d))) => {
                let q = |k: &FrequentItemsSketch<i64>| (k.total_weight(), k.maximum_error(), k.num_active_items(), k.lg_max_map_size(), k.maximum_map_capacity(), k.current_map_capacity(), (0..12).map(|x| (k.lower_bound(&x), k.upper_bound(&x))).collect::<Vec<_>>());
                if q(&s) != q(&d) {
                    ctx.violation("fi.roundtrip.queries.map_size", &format!("new(1 << {lg}): queries differ after a round trip: {:?} vs {:?}", q(&s), q(&d)), mk());
                }
            }
        }
    }
    ctx.add_states(n3);
    ctx.add_transitions(n3);
    ctx.count("Frequent Items u64/String histories (size x history x via merge)", n1 + n2);
    ctx.add_states(n1 + n2);
    ctx.add_transitions(n1 + n2);
}
