#!/usr/bin/env python3
"""Runs the repository's own suite (hooks feature OFF) in a given checkout and compares the set of
passing tests with BASELINE.json's stable_pass list. usage: baseline.py [repo_dir]"""
import json, re, subprocess, sys, os
repo = sys.argv[1] if len(sys.argv) > 1 else "/repo"
env = dict(os.environ, CARGO_NET_OFFLINE="true")
p = subprocess.run(["cargo", "test", "--workspace", "--no-fail-fast", "--offline"], cwd=repo, env=env,
                   stdout=subprocess.PIPE, stderr=subprocess.STDOUT, text=True)
cur = None; passed = set(); failed = set()
for line in p.stdout.splitlines():
    m = re.search(r"Running (?:unittests )?(\S+) \(", line)
    if m:
        path = m.group(1)
        if path.startswith("src/"):
            cur = "datasketches" if "lib.rs" in path else None
        else:
            cur = "datasketches::" + os.path.basename(path)[:-3]
        # which crate? examples/xtask have no tests of interest
        continue
    m = re.match(r"test (\S+)(?: - should panic)? \.\.\. (ok|FAILED)", line)
    if m and cur:
        name = f"{cur}::{m.group(1)}"
        (passed if m.group(2) == "ok" else failed).add(name)
base = json.load(open("/root/.vp/BASELINE.json"))
want = set(base["stable_pass"])
missing = sorted(want - passed)
extra_fail = sorted(failed - set(base["always_fail"]))
print(f"passed={len(passed)} failed={len(failed)} baseline_stable={len(want)} missing_from_pass={len(missing)} unexpected_failures={len(extra_fail)}")
for m in missing[:20]: print("  MISSING", m)
for m in extra_fail[:20]: print("  NEWFAIL", m)
sys.exit(0 if not missing and not extra_fail else 1)
